"""Witnesses for the genuine defects found by the static rules (DESIGN.md section 5).  NOT part of any registered
check (the checks never run textX); these scripts are the demonstration against the real code that each finding
is a real defect, and that the `fix:` commit removes it.
usage:  PYTHONPATH=<tree> /venv/bin/python witnesses.py [F1 F2 ...]     prints  Fn DEFECT|ok  per witness"""
import os, sys, tempfile, shutil, gc, io, contextlib
from textx import metamodel_from_str, metamodel_from_file, TextXError, TextXSemanticError, TextXSyntaxError

def F1():   # C02 choice nested in a sequence
    mm = metamodel_from_str("Model: (a=INT | b=INT) a=INT;")
    try: m = mm.model_from_str("1 2")
    except TextXError: return True
    return not (isinstance(m.a, list) and m.a == [1, 2])
def F2():   # C01/C22 noskipws on a repetition root
    mm = metamodel_from_str("Model: a=A; A[noskipws]: 'a'+;")
    try: mm.model_from_str("a a"); return True
    except TextXError: return False
def F3():   # C08 postponed first reference
    from textx.scoping import Postponed
    g = "Model: ts+=T r=R; T: 't' name=ID; R: 'r' refs+=[T];"
    seen = []
    def prov(obj, attr, ref):
        from textx.scoping.providers import PlainName
        if ref.obj_name == "a" and "a" not in seen: seen.append("a"); return Postponed()
        return PlainName()(obj, attr, ref)
    mm = metamodel_from_str(g); mm.register_scope_providers({"R.refs": prov})
    m = mm.model_from_str("t a t b t c r a b c")
    return [x.name for x in m.r.refs] != ["a", "b", "c"]
def F4():   # C10 FQN walks parent links
    from textx.scoping.providers import FQN
    g = "Model: packages+=Package refs+=Ref; Package: 'package' name=ID '{' packages*=Package '}'; Ref: 'ref' p=[Package:FQN]; FQN: ID('.'ID)*;"
    mm = metamodel_from_str(g); mm.register_scope_providers({"*.*": FQN()})
    try: m = mm.model_from_str("package p { package q { } } ref p.q.p"); return True
    except TextXError: return False
def F5():
    from textx.scoping import rrel
    t = rrel.parse("+p:a.b")
    return not str(t).startswith("+p:")
def F6():   # C24 the two grammars disagree: `[A:ID]` without RREL part is fine for lang.py, rejected by textx.tx
    from textx import metamodel_for_language
    tx = metamodel_for_language("textx")
    bad = 0
    for g in ("Model: a=[A:ID]; A: name=ID;", "Model: a=[A|ID|+p:x]; A: name=ID;", "Model: a=[A|ID|'n'~x]; A: name=ID;", "Model: a+=INT[',' eolterm];", "Model: INT2; INT2: a=INT;"):
        metamodel_from_str(g)
        try: tx.grammar_model_from_str(g)
        except TextXError: bad += 1
    for g in ("Model: 1a=INT;",):
        try: metamodel_from_str(g); ok1 = True
        except TextXError: ok1 = False
        try: tx.grammar_model_from_str(g); ok2 = True
        except TextXError: ok2 = False
        bad += ok1 != ok2
    return bad > 0
def _files(d, **fs):
    for n, s in fs.items(): open(os.path.join(d, n), "w").write(s)
def F7():   # C28 unresolvable refs in an imported file: file None, line from the main file's table
    from textx.scoping.providers import ImportURI, PlainName
    d = tempfile.mkdtemp()
    try:
        g = "Model: imports*=Import things*=Thing refs*=Ref; Import: 'import' importURI=STRING; Thing: 'thing' name=ID; Ref: 'ref' r=[Thing];"
        from textx.scoping import Postponed
        mm = metamodel_from_str(g); mm.register_scope_providers({"*.*": ImportURI(lambda o, a, r: Postponed())})
        _files(d, **{"main.m": 'import "imp.m"\n', "imp.m": "\n\n\nthing a\nref zzz\n"})
        try: mm.model_from_file(os.path.join(d, "main.m"))
        except TextXSemanticError as e:
            return e.filename is None or not e.filename.endswith("imp.m") or e.line != 5
        return False
    finally: shutil.rmtree(d)
def F8():   # C29 unescaped name in dot label
    from textx.export import model_export_to_file
    mm = metamodel_from_str("Model: things+=Thing; Thing: 't' name=STRING;")
    m = mm.model_from_str('t "na\\"me{|"')
    f = io.StringIO(); model_export_to_file(f, m)
    return 'na"me{|' in f.getvalue()
def F9():   # C30 bare flag keeps dashes
    import textx.cli.generate as G, inspect
    return 'custom_args[arg_name] = True' in inspect.getsource(G)
def F10():  # C31 failing generator leaves a truncated file
    from textx.generators import gen_file
    d = tempfile.mkdtemp(); out = os.path.join(d, "o.txt")
    def cb():
        with open(out, "w") as f:
            f.write("partial"); raise RuntimeError("boom")
    try:
        try: gen_file("in", out, cb, overwrite=True)
        except RuntimeError: pass
        return os.path.exists(out)
    finally: shutil.rmtree(d)
def F11():  # C33 nchar never filled
    mm = metamodel_from_str("Model: things+=Thing; Thing: 't' name=ID;")
    def p(t): raise TextXSemanticError("bad")
    mm.register_obj_processors({"Thing": p})
    try: mm.model_from_str("t abc")
    except TextXSemanticError as e: return e.nchar is None
def F12():  # C34 positions
    from textx.scoping.providers import FQN
    g = "Model: packages+=Package refs+=Ref; Package: 'package' name=ID '{' classes*=Cls '}'; Cls: 'class' name=ID ';'; Ref: 'ref' c=[Cls:FQN]; FQN: ID('.'ID)*;"
    mm = metamodel_from_str(g, textx_tools_support=True); mm.register_scope_providers({"*.*": FQN()})
    m = mm.model_from_str("package p { class c; } ref p.c")
    r = m._pos_crossref_list[0]
    bad = (r.ref_pos_end - r.ref_pos_start) != len("p.c")
    mm2 = metamodel_from_str("Model: a=A; A: b=B; B: x=INT;", textx_tools_support=True)
    m2 = mm2.model_from_str("5")
    first = next(iter(m2._pos_rule_dict.values()))
    bad = bad or type(first).__name__ != "B" or len(m2._pos_rule_dict) < 1
    return bad
def F13():  # C03 abstract rule alternative with a leading match-rule reference
    mm = metamodel_from_str("Model: b=Base; Base: M1 C | D; M1: 'x' INT; C: 'c' name=ID; D: 'd' name=ID;")
    m = mm.model_from_str("x 1 c foo")
    return not hasattr(m.b, "name")
def F14():  # C03 cyclic abstract rules
    g = "Model: as+=A refs+=Ref; A: 'a' B | X; B: 'b' A | Y; X: 'x' name=ID; Y: 'y' name=ID; Ref: 'ref' r=[B];"
    mm = metamodel_from_str(g)
    names = sorted(c.__name__ for c in mm["B"]._tx_inh_by)
    return "A" not in names and "X" not in names
def F15_16():  # C14/C15 failed multi-file load leaves user classes instrumented / holding objects
    from textx.scoping.providers import ImportURI
    class Thing:
        def __init__(self, parent=None, name=None): self.parent = parent; self.name = name
    g = "Model: imports*=Import things*=Thing refs*=Ref; Import: 'import' importURI=STRING; Thing: 'thing' name=ID; Ref: 'ref' r=[Thing];"
    mm = metamodel_from_str(g, classes=[Thing]); from textx.scoping.providers import PlainName
    mm.register_scope_providers({"*.*": ImportURI(PlainName())})
    d = tempfile.mkdtemp()
    try:
        _files(d, **{"main.m": 'import "imp.m"\nthing m\nref nope\n', "imp.m": "thing a\n"})
        try: mm.model_from_file(os.path.join(d, "main.m"))
        except TextXError: pass
        gc.collect()
        return bool(getattr(Thing, "_tx_instrumented", 0)) or bool(getattr(Thing, "_tx_obj_attrs", {})) or "__setattr__" in Thing.__dict__
    finally: shutil.rmtree(d)
def F18():  # C18 failing model processor leaves the model in the global repository
    import textx.scoping as scoping
    from textx.scoping.providers import PlainNameGlobalRepo
    g = "Model: things*=Thing; Thing: 'thing' name=ID;"
    mm = metamodel_from_str(g, global_repository=True)
    mm.register_scope_providers({"*.*": PlainNameGlobalRepo()})
    state = {"fail": True}
    def proc(model, metamodel):
        if state["fail"]: raise TextXSemanticError("processor rejects")
    mm.register_model_processor(proc)
    d = tempfile.mkdtemp()
    try:
        _files(d, **{"a.m": "thing a\n"})
        fn = os.path.join(d, "a.m")
        try: mm.model_from_file(fn)
        except TextXError: pass
        return len(list(mm._tx_model_repository.all_models)) != 0
    finally: shutil.rmtree(d)
def _raises_non_textx(g):
    try: metamodel_from_str(g); return False
    except TextXError: return False
    except RecursionError: return True
    except Exception: return True
def F19(): return _raises_non_textx("Model: 'a\\xzz';")
def F20(): return _raises_non_textx("Model[ws]: 'a';")
def F21(): return _raises_non_textx("Model: A#; A: 'a';")
def F22(): return _raises_non_textx("A: A;")
def F23(): return _raises_non_textx("Model: /(/;")
def F24():  # C28 non-unique name in an imported model is reported in the wrong file
    from textx.scoping.providers import ImportURI, PlainName
    g = "Model: imports*=Import things*=Thing refs*=Ref; Import: 'import' importURI=STRING; Thing: 'thing' name=ID; Ref: 'ref' r=[Thing];"
    mm = metamodel_from_str(g); mm.register_scope_providers({"*.*": ImportURI(PlainName())})
    d = tempfile.mkdtemp()
    try:
        _files(d, **{"main.m": 'import "dup.m"\n\nref x\n', "dup.m": "thing x\nthing x\n"})
        try: mm.model_from_file(os.path.join(d, "main.m"))
        except TextXSemanticError as e:
            return not (e.filename or "").endswith("main.m") or e.line != 3
        return True
    finally: shutil.rmtree(d)
def F26():
    g = "reference textX\nModel: a=[textX.TextxRule];"
    try: metamodel_from_str(g); return False
    except TextXError: return False
    except KeyError: return False
    except TypeError: return True
def F27():  # C17 two string models in a global repository collide on anonymous0
    from textx.scoping.providers import PlainNameGlobalRepo
    g = "Model: things*=Thing refs*=Ref; Thing: 'thing' name=ID; Ref: 'ref' r=[Thing];"
    mm = metamodel_from_str(g, global_repository=True)
    prov = PlainNameGlobalRepo(); mm.register_scope_providers({"*.*": prov})
    m1 = mm.model_from_str("thing a"); prov.add_model(m1)
    m2 = mm.model_from_str("thing b"); prov.add_model(m2)
    try: mm.model_from_str("ref a"); return False
    except TextXError: return True
def F28():  # C07 falsy user-class object is not found by PlainName(multi_metamodel_support=False)
    from textx.scoping.providers import PlainName
    class Leaf:
        def __init__(self, parent=None, name=None, items=None): self.parent = parent; self.name = name; self.items = items or []
        def __len__(self): return len(self.items)
    g = "Model: things+=Thing refs+=Ref; Thing: Leaf | Other; Leaf: 'leaf' name=ID items*=INT; Other: 'other' name=ID; Ref: 'ref' t=[Thing];"
    mm = metamodel_from_str(g, classes=[Leaf]); mm.register_scope_providers({"*.*": PlainName(multi_metamodel_support=False)})
    try: mm.model_from_str("leaf a other b ref a"); return False
    except TextXError: return True
def F36():  # C15 a model processor failing for an imported model leaves the user classes instrumented (global repository)
    import os, tempfile
    from textx.scoping.providers import FQNImportURI
    class Item:
        def __init__(self, parent=None, name=None): self.parent = parent; self.name = name
    g = "Model: imports*=Import items*=Item; Import: 'import' importURI=STRING; Item: 'item' name=ID;"
    d = tempfile.mkdtemp()
    open(os.path.join(d, "b.m"), "w").write("item b1\n"); open(os.path.join(d, "a.m"), "w").write('import "b.m"\nitem a1\n')
    mm = metamodel_from_str(g, classes=[Item], global_repository=True); mm.register_scope_providers({"*.*": FQNImportURI()})
    def proc(model, metamodel):
        if model._tx_filename.endswith("b.m"): raise TextXError("b is rejected")
    mm.register_model_processor(proc)
    try: mm.model_from_file(os.path.join(d, "a.m")); return False
    except TextXError: pass
    return "_tx_instrumented" in Item.__dict__ or len(Item._tx_obj_attrs) > 0
def F37():  # C17 a cached file whose model object is falsy is parsed again (global repository)
    import os, tempfile
    class Model:
        def __init__(self, **kw):
            for k, v in kw.items(): setattr(self, k, v)
        def __len__(self): return len(self.items)
    mm = metamodel_from_str("Model: 'model' items*=Item; Item: 'item' name=ID;", classes=[Model], global_repository=True)
    d = tempfile.mkdtemp(); f = os.path.join(d, "empty.mdl"); open(f, "w").write("model")
    return mm.model_from_file(f) is not mm.model_from_file(f)
def F38():  # C28 an empty text given with a file name: the file on disk is parsed instead
    import os, tempfile
    mm = metamodel_from_str("Model: 'model' items*=Item; Item: 'item' name=ID;")
    d = tempfile.mkdtemp(); f = os.path.join(d, "a.mdl"); open(f, "w").write("model item fromdisk")
    try: mm.model_from_str("", file_name=f); return True
    except TextXError as e: return not (e.line == 1 and e.col == 1)
def F39():  # C29 a falsy model object cannot be exported
    import io as _io
    from textx.export import model_export_to_file
    class Model:
        def __init__(self, **kw):
            for k, v in kw.items(): setattr(self, k, v)
        def __len__(self): return len(self.items)
    mm = metamodel_from_str("Model: 'model' items*=Item; Item: 'item' name=ID;", classes=[Model])
    try: model_export_to_file(_io.StringIO(), mm.model_from_str("model")); return False
    except Exception: return True
def F40():  # C25/C23 alias rule in an imported grammar whose target comes from that grammar's own import: KeyError
    import os, tempfile
    from textx import metamodel_from_file
    d = tempfile.mkdtemp()
    open(os.path.join(d, "c.tx"), "w").write("Y: 'y' name=ID;\n"); open(os.path.join(d, "b.tx"), "w").write("import c\nX: Y;\n"); open(os.path.join(d, "a.tx"), "w").write("import b\nModel: xs+=X;\n")
    try: mm = metamodel_from_file(os.path.join(d, "a.tx")); m = mm.model_from_str("y a y b"); return [x.name for x in m.xs] != ["a", "b"]
    except KeyError: return True
def F41():  # C29 a long chain of linked objects cannot be exported (RecursionError)
    import io as _io
    from textx.export import model_export_to_file
    mm = metamodel_from_str("Model: items+=Item; Item: 'item' name=ID ('->' next=[Item])?;")
    n = 1500; m = mm.model_from_str("\n".join("item i%d -> i%d" % (i, i + 1) for i in range(n)) + "\nitem i%d" % n)
    try: model_export_to_file(_io.StringIO(), m); return False
    except RecursionError: return True
def F42():  # C24 (open) a regex match that begins with a blank: the compiler and textx.tx read different tokens
    import os, textx
    from textx import metamodel_from_file
    g = "R: / //x/ 'a';"
    metamodel_from_str(g)
    try: metamodel_from_file(os.path.join(os.path.dirname(textx.__file__), "textx.tx")).model_from_str(g); return False
    except TextXError: return True
def F43():  # C11 split parameter of a match rule whose body is one regex is lost
    g = r"""
Model: pkgs+=Pkg refs+=Ref;
Pkg: 'pkg' name=ID '{' items*=Item '}';
Item: 'item' name=ID;
Ref: 'ref' ref=[Item|FQN|^pkgs.items];
FQN[split='/']: /\w+(\/\w+)*/;
"""
    mm = metamodel_from_str(g)
    try: return mm.model_from_str("pkg p { item a } ref p/a").refs[0].ref.name != "a"
    except TextXError: return True
def F44():  # C02 an unordered group around one assignment drops the value
    return metamodel_from_str("Model: (x=INT)#;").model_from_str("3").x != 3
def F45():  # C15 (observed, open, no clause yet) a user-class constructor raising in an imported model leaves the parked attributes of that model's other user objects
    import os, tempfile
    from textx.scoping.providers import FQNImportURI
    class Model:
        def __init__(self, **kw):
            for k, v in kw.items(): setattr(self, k, v)
    class Item:
        def __init__(self, parent=None, name=None):
            if name == "boom": raise ValueError("constructor rejects boom")
            self.parent = parent; self.name = name
    g = "Model: imports*=Import items*=Item; Import: 'import' importURI=STRING; Item: 'item' name=ID;"
    d = tempfile.mkdtemp()
    open(os.path.join(d, "b.m"), "w").write("item boom\n"); open(os.path.join(d, "a.m"), "w").write('import "b.m"\nitem a1\n')
    mm = metamodel_from_str(g, classes=[Model, Item]); mm.register_scope_providers({"*.*": FQNImportURI()})
    try: mm.model_from_file(os.path.join(d, "a.m")); return False
    except ValueError: pass
    return len(Model._tx_obj_attrs) > 0
ALL = [F45, F44, F43, F42, F41, F40, F39, F38, F37, F36, F28, F1, F2, F3, F4, F5, F6, F7, F8, F9, F10, F11, F12, F13, F14, F15_16, F18, F19, F20, F21, F22, F23, F24, F26, F27]
if __name__ == "__main__":
    sel = sys.argv[1:]
    for w in ALL:
        if sel and w.__name__ not in sel: continue
        try:
            with contextlib.redirect_stderr(io.StringIO()): r = w()
            print("%-7s %s" % (w.__name__, "DEFECT" if r else "ok"))
        except Exception as e:
            print("%-7s WITNESS-ERROR %s: %s" % (w.__name__, type(e).__name__, str(e)[:120]))
