"""Runs the rules of one property on a source tree, matches findings against known_findings.json, writes the
evidence file and replay files, and maps everything to the exit codes of the harness contract:
   0 held (or only listed known findings), 1 new violation, 2 analysis error (no VIOLATION line)."""
import hashlib, json, os, sys, time, traceback
from sa import util, registry, props
from sa.util import AnalysisError, Finding

VERIF = os.path.dirname(os.path.dirname(os.path.abspath(__file__)))
KNOWN = os.path.join(VERIF, "known_findings.json")
EVID = os.path.join(VERIF, "evidence")

def load_known():
    if not os.path.exists(KNOWN): return {"open": [], "fixed": []}
    return json.load(open(KNOWN))

def fkey(f): return (f.prop, f.rule, f.file, f.func, f.construct)
def kkey(k): return (k["property"], k["rule"], k["file"], k["func"], " ".join(k["construct"].split()))

# minimum number of rule instances per property (fewer => analysis error, exit 2)
FLOORS = {}
try:
    from sa.floors import FLOORS as _F
    FLOORS.update(_F)
except ImportError:
    pass

class Result:
    def __init__(s): s.findings = []; s.errors = []; s.obligations = []; s.rule_runs = []; s.stats = None

def analyse(prop, root):
    """run every rule function of the property on `root`; returns Result (never raises)"""
    util.reset()
    res = Result()
    fns = registry.rule_functions(prop)
    also = registry.ALSO.get(prop, {})
    if not fns: res.errors.append(("registry", "no rule function for " + prop))
    for fn in fns:
        n_ob0 = len(util.STATS.obligations)
        try:
            inst, fs = fn(root)
        except AnalysisError as e:
            res.errors.append((fn.__name__, str(e))); continue
        except RecursionError as e:
            res.errors.append((fn.__name__, "analysis recursion limit: %s" % e)); continue
        except Exception as e:
            tb = traceback.extract_tb(e.__traceback__)[-1]
            res.errors.append((fn.__name__, "internal error %s: %s (%s:%d)" % (type(e).__name__, e, os.path.basename(tb.filename), tb.lineno))); continue
        mine = []
        for f in fs:
            if f.prop == prop: mine.append(f)
            elif f.prop in also and f.rule in also[f.prop]:
                g = Finding(prop, f.rule, f.file, f.func, f.construct, f.msg, f.witness); mine.append(g)
        recorded = [o for o in util.STATS.obligations[n_ob0:] if o["prop"] == prop or (o["prop"] in also and o["rule"] in also[o["prop"]])]
        shared_only = getattr(registry, "SHARED_ONLY", set())
        served = {p for p, lst in registry.RULES.items() if any(n == fn.__name__ for _, n in lst) and (p, fn.__name__) not in shared_only}
        rest = inst - len(util.STATS.obligations[n_ob0:])
        if rest > 0 and (prop, fn.__name__) not in shared_only:
            # instances the rule function counted without recording them one by one: attributed to this property
            # in full if the function serves it alone, else an equal share (at least one)
            share = rest if len(served) == 1 else max(1, rest // len(served))
            recorded = recorded + [{"prop": prop, "rule": fn.__name__, "file": "", "func": "", "construct": "instance %d of %s" % (i + 1, fn.__name__), "ok": True, "note": "counted"} for i in range(share)]
        res.obligations += recorded
        res.findings += mine
        res.rule_runs.append({"rule_function": fn.__name__, "instances": inst, "findings": len(mine)})
    # de-duplicate findings by key, keep order
    seen = set(); uniq = []
    for f in res.findings:
        if fkey(f) not in seen: seen.add(fkey(f)); uniq.append(f)
    res.findings = uniq
    res.stats = {"files": dict(util.STATS.files), "functions": sorted(util.STATS.functions), "counters": dict(util.STATS.counters)}
    floor = FLOORS.get(prop, 1)
    if not res.errors and len(res.obligations) < floor:
        res.errors.append(("instance-floor", "only %d rule instances found for %s, confirmed floor is %d (an anchor vanished or a rule matches nothing)" % (len(res.obligations), prop, floor)))
    return res

def replay_path(f):
    h = hashlib.sha1(repr(fkey(f)).encode()).hexdigest()[:12]
    return os.path.join(EVID, "replay", "%s-%s.json" % (f.prop, h))

def run_property(prop, root="/repo", tier="quick", replay=None, out=sys.stdout, write=True, floors=None):
    t0 = time.time()
    seed = int(os.environ.get("VERIF_SEED", "0") or 0)
    if prop not in props.P:
        print("ANALYSIS-ERROR: unknown property %s" % prop, file=out); return 2
    util.TIER = tier                      # rules with a sample grid take the full grid in the thorough tier (the self-test below runs the quick one)
    try: res = analyse(prop, root)
    finally: util.TIER = "quick"
    known = load_known()
    open_keys = {kkey(k): k for k in known.get("open", []) if k["property"] == prop}
    new, listed = [], []
    for f in res.findings:
        (listed if fkey(f) in open_keys else new).append(f)
    stale = [k for kk, k in open_keys.items() if kk not in {fkey(f) for f in res.findings}]
    floor = FLOORS.get(prop, 1)
    n_ob = len(res.obligations)
    thorough = None
    if tier == "thorough" and not res.errors and replay is None:
        from sa.selftest import runner
        thorough = runner.run_for_property(prop, root)
        ts = thorough["summary"]
        print("SELFTEST %s: %d/%d must-kill mutants reported, %d/%d benign variants silent, %d skipped (anchor text absent)" % (prop, ts.get("mutants_killed", 0), ts.get("mutants_total", 0), ts.get("benign_silent", 0), ts.get("benign_total", 0), ts.get("mutants_skipped", 0) + ts.get("benign_skipped", 0)), file=out)
        for w in thorough["weak"]: print("   selftest: must-kill mutant not reported on this tree: " + w, file=out)
        for w in thorough["noisy"]: print("   selftest: benign variant reported on this tree: " + w, file=out)
    # ---- output
    p = props.P[prop]
    for f in listed:
        print("KNOWN-FINDING: property=%s %s %s::%s [%s] %s" % (prop, f.rule, f.file, f.func, f.construct[:100], f.msg), file=out)
    for k in stale:
        print("note: known finding no longer derived (stale entry): %s %s::%s [%s]" % (k["rule"], k["file"], k["func"], k["construct"][:80]), file=out)
    if write: os.makedirs(os.path.join(EVID, "replay"), exist_ok=True)
    rc = 0
    for f in new:
        rp = replay_path(f)
        if write:
            json.dump({"property": prop, "rule": f.rule, "file": f.file, "func": f.func, "construct": f.construct, "message": f.msg, "witness": f.witness, "root": root}, open(rp, "w"), indent=1)
        print("VIOLATION property=%s replay=%s" % (prop, rp), file=out)
        print("   %s %s::%s [%s] %s" % (f.rule, f.file, f.func, f.construct[:140], f.msg), file=out)
        rc = 1
    for who, msg in res.errors:
        print("ANALYSIS-ERROR: property=%s %s: %s" % (prop, who, msg), file=out)
    if res.errors and rc == 0: rc = 2
    if replay is not None:
        want = json.load(open(replay)); wk = (want["property"], want["rule"], want["file"], want["func"], want["construct"])
        hit = [f for f in res.findings if fkey(f) == wk]
        print("replay: %s" % ("finding reproduced: " + hit[0].msg if hit else "finding not derived on this tree"), file=out)
        return 1 if hit else (2 if res.errors else 0)
    # ---- evidence
    failing = {(f.rule, f.file, f.func) for f in res.findings}
    n_viol_ob = sum(1 for o in res.obligations if not o["ok"])
    discharged = max(0, n_ob - max(n_viol_ob, len(res.findings)))
    distinct = {(o["rule"], o["file"], o["func"], o["construct"]) for o in res.obligations}
    c = res.stats["counters"]
    samples = [dict(o) for o in res.obligations if o.get("note") != "counted"][:12] or [dict(o) for o in res.obligations[:6]]
    for f in res.findings[:8]:
        samples.append({"prop": prop, "rule": f.rule, "file": f.file, "func": f.func, "construct": f.construct[:200], "ok": False, "note": f.msg, "known": fkey(f) in open_keys})
    ev = {
        "property_id": prop, "tier": tier, "seed": seed, "level": "other",
        "coverage": {
            "explanation": "Static analysis of %s's current source (nothing is executed). Decides these structural clauses, each a necessary condition of the property: %s. NOT decided (declined, no sound static bound): %s. Verdicts are about code shape on all paths of the anchored functions, not about run-time behaviour." % (root, "; ".join("%s %s" % kv for kv in p["decided"].items()), p["declined"]),
            "rule": "one obligation per rule instance (call site / branch / table row / path class / grammar rule pair) enumerated from the current source; an instance is non-trivial and distinct by (rule, file, function, construct)",
            "technique": p["technique"],
            "obligations": n_ob, "discharged": discharged,
            "evaluations": n_ob + c.get("table_rows", 0) + c.get("path_queries", 0),
            "distinct_nontrivial": len(distinct),
            "instance_floor": floor,
            "rule_runs": res.rule_runs,
            "functions_analysed": res.stats["functions"], "n_functions": len(res.stats["functions"]),
            "cfgs_built": c.get("cfgs", 0), "cfg_nodes": c.get("cfg_nodes", 0), "cfg_edges": c.get("cfg_edges", 0),
            "path_queries": c.get("path_queries", 0), "decision_tables": c.get("decision_tables", 0), "table_rows": c.get("table_rows", 0),
            "files": res.stats["files"],
            "samples": samples,
            "findings_new": [f.__dict__ for f in new], "findings_known": [f.__dict__ for f in listed],
            "analysis_errors": ["%s: %s" % e for e in res.errors],
            "trusted_base": ["CPython ast / symtable / re._parser", "Arpeggio semantics as read from its installed source", "spec tables transcribed from docs/src/*.md", "callback table of the call graph (DESIGN 2.1 A2)"],
            "exhaustive": False,
        },
        "assumptions": ["decides structural necessary conditions only; the behavioural property over all inputs is not decided",
                        "rule instances are those the anchors' current shape exposes; a construct outside a rule's supported subset is an analysis error (exit 2), never a pass"],
        "wall_s": 0.0, "violations": len(new),
    }
    if thorough is not None:
        ev["coverage"]["selftest"] = dict(thorough.get("summary", {}), weak=thorough["weak"], noisy=thorough["noisy"])
        ev["coverage"]["evaluations"] += ts.get("mutants_total", 0) + ts.get("benign_total", 0) + ts.get("info_total", 0)
    ev["wall_s"] = round(time.time() - t0, 3)
    if write:
        os.makedirs(EVID, exist_ok=True)
        tmp = os.path.join(EVID, "." + prop + ".json.tmp")
        json.dump(ev, open(tmp, "w"), indent=1, default=str); os.replace(tmp, os.path.join(EVID, prop + ".json"))
    print("%s %s tier=%s: %d obligations, %d findings (%d known, %d new), %d analysis errors, %.2fs" % (
        {0: "OK", 1: "FAIL", 2: "ERROR"}[rc], prop, tier, n_ob, len(res.findings), len(listed), len(new), len(res.errors), time.time() - t0), file=out)
    return rc

