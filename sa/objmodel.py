"""Sample objects built by interpreting the analysed constructors (sa/pyeval.py; nothing of textX runs).

new_metamodel(root, **options)  ->  (self sample, base environment)
    TextXMetaModel.__init__ of the analysed tree is interpreted on an empty sample object: every field the constructor
    sets (option fields, the default conversion table, processor / provider tables, namespaces, whatever a change adds)
    is there afterwards, with the values the constructor computes.  _new_class is a stand-in that returns a class
    sample and registers it in the current namespace; super().__init__, ModelParamDefinitions and os.path are stubs.
    Methods of the class are then interpreted on that object with env = dict(base environment, <parameters>)."""
import ast, os
from sa.util import *
from sa import pyeval
MM = "textx/metamodel.py"
def new_metamodel(root, **options):
    t = load(root, MM); init = find(t, "TextXMetaModel.__init__")
    fns = {k: v for k, v in helper_functions(root, MM, "TextXMetaModel.__init__").items() if k not in ("__init__", "_new_class", "__getitem__", "__contains__", "__iter__")}
    self_ = {".kind": "metamodel", ".debug": False}
    def new_class(name, peg_rule=None, position=0, position_end=None, inherits=None, root=False, rule_type="match", **kw):
        c = {".kind": "cls", ".__name__": name, "._tx_fqn": name, "._tx_type": rule_type, "._tx_inh_by": list(inherits or []), "._tx_attrs": {}, "._tx_peg_rule": peg_rule, "._tx_metamodel": self_}
        ns = self_.get(".namespaces"); st = self_.get("._namespace_stack")
        if isinstance(ns, dict) and st: ns.setdefault(st[-1], {})[name] = c
        return c
    env = {"__functions__": fns, "__module__": t, "self._new_class": pyeval.PyFn(new_class),
           "super": pyeval.PyFn(lambda *a: {".__init__": pyeval.PyFn(lambda *a2, **k2: None)}),
           "ModelParamDefinitions": pyeval.PyFn(lambda *a, **k: {".kind": "param-defs", ".add": pyeval.PyFn(lambda *a2, **k2: None)}),
           "GlobalModelRepository": pyeval.PyFn(lambda *a, **k: {".kind": "global-repo", ".all_models": {}}),
           "os": {".path": {".abspath": pyeval.PyFn(lambda p_: p_ if p_.startswith("/") else "/cwd/" + p_), ".dirname": pyeval.PyFn(os.path.dirname), ".basename": pyeval.PyFn(os.path.basename),
                            ".splitext": pyeval.PyFn(lambda p_: tuple(os.path.splitext(p_))), ".relpath": pyeval.PyFn(lambda p_, start=None: os.path.relpath(p_, start)), ".split": pyeval.PyFn(lambda p_: tuple(os.path.split(p_))), ".join": pyeval.PyFn(os.path.join)}},
           "RULE_MATCH": "match", "RULE_COMMON": "common", "RULE_ABSTRACT": "abstract", "OrderedDict": pyeval.PyFn(lambda *a: {}),
           "__classes__": {"GlobalModelRepository": lambda v: isinstance(v, dict) and v.get(".kind") == "global-repo", "TextXError": lambda v: isinstance(v, dict) and str(v.get(".cls", "")).startswith("TextX"), "Exception": lambda v: True, "str": lambda v: isinstance(v, str)}}
    for nm in ("ID", "STRING", "BOOL", "INT", "FLOAT", "STRICTFLOAT", "NUMBER", "BASETYPE", "OBJECT"): env[nm] = {".kind": "peg-rule", ".rule_name": nm}
    ps = [a.arg for a in init.args.args]
    env[ps[0]] = self_
    defaults = dict(zip(ps[len(ps) - len(init.args.defaults):], init.args.defaults))
    for k_, d_ in defaults.items(): env[k_] = pyeval.evaluate(d_, {})
    extra = {}
    for k_, v_ in options.items():
        if k_ in ps: env[k_] = v_
        else: extra[k_] = v_
    if init.args.kwarg: env[init.args.kwarg.arg] = extra
    missing = [p_ for p_ in ps if p_ not in env]
    if missing: raise AnalysisError("TextXMetaModel.__init__: no value for parameter(s) %s" % missing)
    try: pyeval.run_block(init.body, env)
    except pyeval.Raised as r_: raise AnalysisError("TextXMetaModel.__init__ raises %s under evaluation" % r_.cls)
    except pyeval.Unsupported as u_: raise AnalysisError("TextXMetaModel.__init__: outside the evaluated subset: %s" % u_)
    self_[".__complete__"] = True
    base = {k_: v_ for k_, v_ in env.items() if k_ in ("__functions__", "__module__", "__classes__", "os", "RULE_MATCH", "RULE_COMMON", "RULE_ABSTRACT", "OrderedDict", "self._new_class", "super") or k_ in ("ID", "STRING", "BOOL", "INT", "FLOAT", "STRICTFLOAT", "NUMBER", "BASETYPE", "OBJECT")}
    base["__functions__"] = {k: v for k, v in helper_functions(root, MM, "TextXMetaModel.__init__").items() if k not in ("_new_class",)}
    return self_, base
def call_method(root, self_, base, name, *args, **kw):
    """interpret TextXMetaModel.<name>(self_, *args, **kw); returns ('ret', value) or ('raise', Raised)"""
    fn = find(load(root, MM), "TextXMetaModel." + name); ps = [a.arg for a in fn.args.args]
    env = dict(base); env[ps[0]] = self_
    defaults = dict(zip(ps[len(ps) - len(fn.args.defaults):], fn.args.defaults))
    for k_, d_ in defaults.items(): env[k_] = pyeval.evaluate(d_, {})
    for p_, a_ in zip(ps[1:], args): env[p_] = a_
    extra = {}
    for k_, v_ in kw.items():
        if k_ in ps: env[k_] = v_
        else: extra[k_] = v_
    if fn.args.kwarg: env[fn.args.kwarg.arg] = extra
    env["__functions__"] = {k: v for k, v in base["__functions__"].items() if k != name}
    try: return ("ret", pyeval.run_block(fn.body, env))
    except pyeval.Raised as r_: return ("raise", r_)
    except pyeval.Unsupported as u_: raise AnalysisError("TextXMetaModel.%s: outside the evaluated subset: %s" % (name, u_))
