"""Helper inlining: an analysis normal form that makes the rules insensitive to 'extract helper function' refactorings.

inline_function(fn, module_tree) returns a deep copy of `fn` in which calls of small, non-recursive private helpers
(nested functions, methods called through self/cls, module-level functions whose name starts with '_' or which are
nested) are replaced by the helper's body, for the statement forms
      h(...)                      (helper used as a procedure: no value returns, no early return)
      x = h(...)                  (value helper: every `return v` becomes `x = v`; code after a return-terminated
                                   `if` moves into its else branch)
      return h(...)               (returns stay returns)
      raise h(...)                (every `return v` becomes `raise v`)
Parameters are replaced by the argument expressions when these are simple (names, attribute chains, subscripts of
names, constants); other arguments are bound to a fresh local first.  Locals of the helper that clash with names of
the caller are renamed.  Anything outside this subset is simply not inlined (the rule then sees the call, as before)."""
import ast, copy, itertools
_counter = itertools.count(1)
def _clone_expr(e): return ast.parse(ast.unparse(e), mode="eval").body            # (deepcopy would follow the _parent links)
def _clone_stmt(st): return ast.parse(ast.unparse(st)).body[0]
def _simple(e):
    if isinstance(e, (ast.Name, ast.Constant)): return True
    if isinstance(e, ast.Attribute): return _simple(e.value)
    if isinstance(e, ast.Subscript): return _simple(e.value) and _simple(e.slice)
    return False
def _own(fn):
    stack = list(ast.iter_child_nodes(fn))
    while stack:
        n = stack.pop()
        if isinstance(n, (ast.FunctionDef, ast.AsyncFunctionDef, ast.ClassDef, ast.Lambda)): continue
        yield n
        stack.extend(ast.iter_child_nodes(n))
def _value_returns(h): return [n for n in _own(h) if isinstance(n, ast.Return) and n.value is not None]
def _bare_returns(h): return [n for n in _own(h) if isinstance(n, ast.Return) and n.value is None]
def _returns_in_loops_or_try(h):
    for n in _own(h):
        if isinstance(n, (ast.For, ast.While, ast.Try, ast.With)):
            if any(isinstance(x, ast.Return) for x in ast.walk(n)): return True
    return False
def _is_search_loop(h):
    """body = [docstring] simple statements, ONE for-loop (no else) whose returns are not inside a nested loop/try, then at most one final `return <expr>`"""
    body = [b for b in h.body if not (isinstance(b, ast.Expr) and isinstance(b.value, ast.Constant))]
    loops = [b for b in body if isinstance(b, ast.For)]
    if len(loops) != 1 or loops[0].orelse: return False
    i = body.index(loops[0])
    if any(isinstance(x, ast.Return) for b in body[:i] for x in ast.walk(b)): return False
    rest = body[i + 1:]
    if len(rest) > 1 or (rest and not isinstance(rest[0], ast.Return)): return False
    for x in ast.walk(loops[0]):
        if x is not loops[0] and isinstance(x, (ast.For, ast.While, ast.Try, ast.With)) and any(isinstance(y, ast.Return) for y in ast.walk(x)): return False
    return True
def _structured(body, conv):
    """rewrite `return v` by conv(v) (a list of statements) and move the statements following a return-terminated `if`
    into its else branch, so that no statement is executed after what used to be a return"""
    out = []
    for i, st in enumerate(body):
        if isinstance(st, ast.Return):
            out += conv(st.value); return out, True
        if isinstance(st, ast.If):
            b, bt = _structured(st.body, conv); o, ot = _structured(st.orelse, conv) if st.orelse else ([], False)
            rest = body[i + 1:]
            if bt and not ot:
                r, rt = _structured(rest, conv)
                out.append(ast.If(test=st.test, body=b or [ast.Pass()], orelse=(o + r))); return out, rt
            if ot and not bt:
                r, rt = _structured(rest, conv)
                out.append(ast.If(test=st.test, body=(b + r) or [ast.Pass()], orelse=o)); return out, rt
            out.append(ast.If(test=st.test, body=b or [ast.Pass()], orelse=o))
            if bt and ot: return out, True
            continue
        out.append(st)
    return out, False
class _Helpers:
    def __init__(s, fn, module_tree):
        s.mod = {n.name: n for n in module_tree.body if isinstance(n, ast.FunctionDef)}
        s.cls = {}
        p = getattr(fn, "_parent", None); s.nested = {}
        scopes = []
        q = fn
        while q is not None:
            if isinstance(q, ast.FunctionDef): scopes.append(q)
            if isinstance(q, ast.ClassDef) and not s.cls: s.cls = {n.name: n for n in q.body if isinstance(n, ast.FunctionDef)}; s.cls_name = q.name
            q = getattr(q, "_parent", None)
        for sc in scopes:
            for n in ast.walk(sc):
                if isinstance(n, ast.FunctionDef) and n is not sc and getattr(n, "_parent", None) is not None:
                    # nested function directly inside a scope function body (any depth of compound statements)
                    par = n._parent
                    while par is not None and not isinstance(par, (ast.FunctionDef, ast.ClassDef, ast.Module)): par = getattr(par, "_parent", None)
                    if par is sc: s.nested.setdefault(n.name, n)
        s.fn = fn
    def lookup(s, call):
        f = call.func
        if isinstance(f, ast.Name):
            if f.id in s.nested: return s.nested[f.id], False
            if f.id in s.mod and f.id.startswith("_"): return s.mod[f.id], False
        if isinstance(f, ast.Attribute) and isinstance(f.value, ast.Name) and f.attr in s.cls and f.attr.startswith("_") and not f.attr.startswith("__"):
            # a private method of the enclosing class, called on self/cls/the class, or on another local object of the class (e.g. a copy of self)
            if f.value.id in ("self", "cls", getattr(s, "cls_name", "")) or f.attr not in s.mod: return s.cls[f.attr], True
        return None, False
def _eligible(h, caller, max_stmts=40):
    if h is caller: return False
    if h.decorator_list and not all(isinstance(d, ast.Name) and d.id in ("staticmethod", "classmethod") for d in h.decorator_list): return False
    if h.args.vararg or h.args.kwarg or h.args.posonlyargs: return False
    n = 0
    for x in _own(h):
        if isinstance(x, (ast.Yield, ast.YieldFrom, ast.Global, ast.Nonlocal, ast.Await)): return False
        if isinstance(x, ast.Call) and ((isinstance(x.func, ast.Name) and x.func.id == h.name) or (isinstance(x.func, ast.Attribute) and x.func.attr == h.name)): return False
        if isinstance(x, ast.stmt): n += 1
    return n <= max_stmts
def _bind(h, call, is_method, caller_names):
    """(prefix statements, renaming map param/local -> AST expr or new name) or None"""
    params = [a.arg for a in h.args.args]
    static = any(isinstance(d, ast.Name) and d.id == "staticmethod" for d in h.decorator_list)
    if is_method and not static: params = params[1:]; self_name = h.args.args[0].arg
    else: self_name = None
    defaults = dict(zip([a.arg for a in h.args.args][len(h.args.args) - len(h.args.defaults):], h.args.defaults))
    for a, d in zip(h.args.kwonlyargs, h.args.kw_defaults):
        params.append(a.arg)
        if d is not None: defaults[a.arg] = d
    given = {}
    if len(call.args) > len(params) or any(isinstance(a, ast.Starred) for a in call.args): return None
    for p, a in zip(params, call.args): given[p] = a
    for k in call.keywords:
        if k.arg is None or k.arg not in params or k.arg in given: return None
        given[k.arg] = k.value
    for p in params:
        if p not in given:
            if p in defaults: given[p] = defaults[p]
            else: return None
    assigned = {t.id for x in _own(h) for t in ast.walk(x) if isinstance(t, ast.Name) and isinstance(t.ctx, ast.Store)}
    prefix = []; sub = {}
    k = next(_counter)
    for p, a in given.items():
        if _simple(a) and (p not in assigned or (isinstance(a, ast.Name))): sub[p] = a
        else:
            nm = "%s_inl%d" % (p, k); prefix.append(ast.Assign(targets=[ast.Name(id=nm, ctx=ast.Store())], value=a)); sub[p] = ast.Name(id=nm, ctx=ast.Load())
    if self_name:
        recv = call.func.value
        sub[self_name] = recv
    for loc in assigned - set(params):
        if loc in caller_names: sub[loc] = ast.Name(id="%s_inl%d" % (loc, k), ctx=ast.Load())
    return prefix, sub
class _Subst(ast.NodeTransformer):
    def __init__(s, sub): s.sub = sub
    def visit_Name(s, n):
        if n.id in s.sub:
            r = _clone_expr(s.sub[n.id])
            if isinstance(n.ctx, (ast.Store, ast.Del)):
                if isinstance(r, ast.Name): return ast.Name(id=r.id, ctx=n.ctx)
                if isinstance(r, (ast.Attribute, ast.Subscript)): r.ctx = n.ctx; return r
                return n
            return r
        return n
    def visit_FunctionDef(s, n): return n          # do not descend into nested defs of the helper
    def visit_Lambda(s, n):
        inner = {k: v for k, v in s.sub.items() if k not in {a.arg for a in n.args.args}}
        n.body = _Subst(inner).visit(n.body); return n
def _retarget(T):
    t = _clone_expr(T)
    for x in ast.walk(t):
        if hasattr(x, "ctx") and x is t: x.ctx = ast.Store()
    return t
def _expand_stmt(st, helpers, caller, caller_names, depth):
    """list of statements replacing st (st itself if nothing applies)"""
    call = None; form = None
    if isinstance(st, ast.Expr) and isinstance(st.value, ast.Call): call, form = st.value, "proc"
    elif isinstance(st, ast.Assign) and len(st.targets) == 1 and isinstance(st.value, ast.Call) and isinstance(st.targets[0], (ast.Name, ast.Attribute, ast.Tuple)): call, form = st.value, "assign"
    elif isinstance(st, ast.Return) and isinstance(st.value, ast.Call): call, form = st.value, "return"
    elif isinstance(st, ast.Raise) and isinstance(st.exc, ast.Call) and st.cause is None: call, form = st.exc, "raise"
    if call is None: return [st]
    h, is_m = helpers.lookup(call)
    if h is None or not _eligible(h, caller): return [st]
    loop_form = False
    if _returns_in_loops_or_try(h) and form != "return":
        if form == "assign" and _is_search_loop(h): loop_form = True
        else: return [st]
    vr, br = _value_returns(h), _bare_returns(h)
    if form == "proc" and (vr or (br and not (len(br) == 1 and br[0] is h.body[-1]))):
        if vr: return [st]
    if form in ("assign", "raise") and (not vr or br): return [st]
    b = _bind(h, call, is_m, caller_names)
    if b is None: return [st]
    prefix, sub = b
    body = [_clone_stmt(x) for x in h.body if not (isinstance(x, ast.Expr) and isinstance(x.value, ast.Constant) and isinstance(x.value.value, str))]
    body = [_Subst(sub).visit(x) for x in body]
    if loop_form:
        T = st.targets[0]
        body2 = [b for b in body]
        final = body2[-1].value if isinstance(body2[-1], ast.Return) else ast.Constant(value=None)
        loop = next(b for b in body2 if isinstance(b, ast.For))
        class RB(ast.NodeTransformer):
            def visit_Return(self, n): return [ast.Assign(targets=[_retarget(T)], value=n.value if n.value is not None else ast.Constant(value=None)), ast.Break()]
            def visit_FunctionDef(self, n): return n
        loop = RB().visit(loop)
        pre = [b for b in body2[:body2.index(next(b for b in body2 if isinstance(b, ast.For)))]]
        new = pre + [ast.Assign(targets=[_retarget(T)], value=final), loop]
    elif form == "return": new = body
    else:
        if form == "proc": conv = lambda v: []
        elif form == "assign": conv = lambda v, T=st.targets[0]: [ast.Assign(targets=[_retarget(T)], value=v)]
        else: conv = lambda v: [ast.Raise(exc=v, cause=None)]
        new, _ = _structured(body, conv)
    new = prefix + (new or [ast.Pass()])
    for x in new:
        ast.copy_location(x, st)
        for y in ast.walk(x):
            if not hasattr(y, "lineno"): ast.copy_location(y, st)
            y._inlined_from = h.name
    if depth > 1:
        out = []
        for x in new: out += _walk_stmt(x, helpers, caller, caller_names, depth - 1)
        return out
    return new
def _walk_block(stmts, helpers, caller, caller_names, depth):
    out = []
    for st in stmts: out += _walk_stmt(st, helpers, caller, caller_names, depth)
    return out
def _hoist_test(st, helpers, caller, caller_names, depth):
    """`if h(x): ...` / `if not h(x): ...` / `if A and h(x): ...` (no else) where h is an inlinable value helper:
    bind the helper's result to a fresh local by the assign form, then test the local"""
    t = st.test
    def is_helper_call(e):
        if not isinstance(e, ast.Call): return False
        h, _ = helpers.lookup(e)
        return h is not None and _eligible(h, caller) and _value_returns(h) and not _bare_returns(h) and not _returns_in_loops_or_try(h)
    neg = False; core = t
    if isinstance(core, ast.UnaryOp) and isinstance(core.op, ast.Not): neg = True; core = core.operand
    k = next(_counter); tmp = "cond_inl%d" % k
    def bind(call):
        asg = ast.Assign(targets=[ast.Name(id=tmp, ctx=ast.Store())], value=call); ast.copy_location(asg, st); ast.fix_missing_locations(asg)
        return _expand_stmt(asg, helpers, caller, caller_names, 1)
    if is_helper_call(core):
        pre = bind(core)
        if len(pre) == 1 and isinstance(pre[0], ast.Assign) and pre[0].value is core: return None
        newtest = ast.Name(id=tmp, ctx=ast.Load())
        st.test = ast.UnaryOp(op=ast.Not(), operand=newtest) if neg else newtest
        return pre + [st]
    if isinstance(t, ast.BoolOp) and isinstance(t.op, ast.And) and not st.orelse and is_helper_call(t.values[-1]):
        pre = bind(t.values[-1])
        if len(pre) == 1 and isinstance(pre[0], ast.Assign) and pre[0].value is t.values[-1]: return None
        inner = ast.If(test=ast.Name(id=tmp, ctx=ast.Load()), body=st.body, orelse=[])
        rest = t.values[:-1]
        outer = ast.If(test=rest[0] if len(rest) == 1 else ast.BoolOp(op=ast.And(), values=rest), body=pre + [inner], orelse=[])
        ast.copy_location(inner, st); ast.copy_location(outer, st)
        return [outer]
    return None
def _walk_stmt(st, helpers, caller, caller_names, depth):
    if isinstance(st, (ast.FunctionDef, ast.ClassDef)): return [st]
    if isinstance(st, ast.For) and isinstance(st.iter, ast.Call):
        hh, _m = helpers.lookup(st.iter)
        if hh is not None and _eligible(hh, caller) and _value_returns(hh) and not _bare_returns(hh):
            k = next(_counter); tmp = "iter_inl%d" % k
            asg = ast.Assign(targets=[ast.Name(id=tmp, ctx=ast.Store())], value=st.iter); ast.copy_location(asg, st); ast.fix_missing_locations(asg)
            pre = _expand_stmt(asg, helpers, caller, caller_names, 1)
            if not (len(pre) == 1 and pre[0] is asg):
                st.iter = ast.Name(id=tmp, ctx=ast.Load()); ast.copy_location(st.iter, st)
                for field in ("body", "orelse"):
                    v = getattr(st, field, None)
                    if isinstance(v, list) and v: setattr(st, field, _walk_block(v, helpers, caller, caller_names, depth))
                return pre + [st]
    if isinstance(st, ast.If):
        h = _hoist_test(st, helpers, caller, caller_names, depth)
        if h is not None:
            out = []
            for x in h:
                if x is st or isinstance(x, ast.If):
                    for field in ("body", "orelse"):
                        v = getattr(x, field, None)
                        if isinstance(v, list) and v: setattr(x, field, _walk_block(v, helpers, caller, caller_names, depth))
                out.append(x)
            for x in out:
                ast.fix_missing_locations(x)
            return out
    for field in ("body", "orelse", "finalbody"):
        v = getattr(st, field, None)
        if isinstance(v, list) and v and isinstance(v[0], ast.stmt): setattr(st, field, _walk_block(v, helpers, caller, caller_names, depth))
    if isinstance(st, ast.Try):
        for h in st.handlers: h.body = _walk_block(h.body, helpers, caller, caller_names, depth)
    return _expand_stmt(st, helpers, caller, caller_names, depth)
def inline_function(fn, module_tree, depth=2):
    helpers = _Helpers(fn, module_tree)
    new = _clone_stmt(fn)
    caller_names = {t.id for x in ast.walk(fn) for t in [x] if isinstance(t, ast.Name)} | {a.arg for a in fn.args.args}
    new.body = _walk_block(new.body, helpers, fn, caller_names, depth)
    ast.fix_missing_locations(new)
    for p in ast.walk(new):
        for c in ast.iter_child_nodes(p): c._parent = p
    new._parent = getattr(fn, "_parent", None)
    new._inlined = True
    return new
