"""Which rule functions decide which property, the hand-confirmed instance floors, and the per-property
text that goes into the evidence (clauses decided / clauses declined).  One entry per property C01..C34."""
import importlib

# property -> list of (module, function name).  A function may serve several properties; its findings and
# recorded obligations are filtered by property.
RULES = {
    "C01": [("sa.rules.b6", "r_C19a_C01"), ("sa.rules.c01", "r_C01ef"), ("sa.rules.c17", "r_C01h"), ("sa.rules.c01", "r_C01i"), ("sa.rules.c22", "r_rule_params_eval"), ("sa.rules.b6", "r_C23"), ("sa.rules.c04", "r_C04a"), ("sa.rules.c04", "r_C04num"), ("sa.rules.c03", "r_C03k"), ("sa.rules.c22", "r_C22jk"), ("sa.rules.cmeta", "r_initobj"), ("sa.rules.c21", "r_matchvisitors"), ("sa.rules.cmeta", "r_mmapi"), ("sa.rules.c02", "r_C02eval"), ("sa.rules.c03e", "r_C03eval"), ("sa.rules.c01e", "r_C01visitors"), ("sa.rules.cpn", "r_processnode"), ("sa.rules.b3", "r_C16a"), ("sa.rules.c25e", "r_resolverefs"), ("sa.rules.c25e", "r_resolvecls")],
    "C02": [("sa.rules.b3", "r_C08_C34"), ("sa.rules.c01", "r_C01ef"), ("sa.rules.cmeta", "r_initobj"), ("sa.rules.c02", "r_C02eval"), ("sa.rules.c01e", "r_C01visitors"), ("sa.rules.cres", "r_resolver"), ("sa.rules.cpn", "r_processnode"), ("sa.rules.c13", "r_C13eval"), ("sa.rules.cmisc", "r_C06bcd")],
    "C03": [("sa.rules.b1", "r_C03a"), ("sa.rules.b6", "r_C03bc"), ("sa.rules.b3", "r_C03de_C11a_C17bc"), ("sa.rules.c03", "r_C03fgh"), ("sa.rules.c03", "r_C03k"), ("sa.rules.c25", "r_C25efg"), ("sa.rules.cmeta", "r_initclass"), ("sa.rules.c03e", "r_C03eval"), ("sa.rules.cpn", "r_processnode"), ("sa.rules.c17", "r_C01h"), ("sa.rules.c02", "r_C02eval"), ("sa.rules.c01e", "r_C01visitors"), ("sa.rules.c25e", "r_resolvecls"), ("sa.rules.b2", "r_C25")],
    "C04": [("sa.rules.b2", "r_C04"), ("sa.rules.c04", "r_C04a"), ("sa.rules.c04", "r_C04num"), ("sa.rules.c04", "r_C04defaults"), ("sa.rules.c01", "r_C01ef"), ("sa.rules.cmisc", "r_C06bcd"), ("sa.rules.cmeta", "r_mmapi"), ("sa.rules.cpn", "r_processnode"), ("sa.rules.c14", "r_endconstruction"), ("sa.rules.cmeta", "r_initobj"), ("sa.rules.c16", "r_sharedbase")],
    "C05": [("sa.rules.b3", "r_C05_C10"), ("sa.rules.c05", "r_C05cde"), ("sa.rules.c14", "r_C14h"), ("sa.rules.c14", "r_C14inst"), ("sa.rules.b3", "r_C16a"), ("sa.rules.cpn", "r_processnode"), ("sa.rules.c05e", "r_C05children"), ("sa.rules.cmeta", "r_initobj"), ("sa.rules.c13", "r_C13eval")],
    "C06": [("sa.rules.b7", "r_origin"), ("sa.rules.cmisc", "r_C06bcd"), ("sa.rules.c05", "r_C05cde"), ("sa.rules.c17", "r_C01h"), ("sa.rules.cpn", "r_processnode"), ("sa.rules.cdrv", "r_driver"), ("sa.rules.c16", "r_cachekeys"), ("sa.rules.c01e", "r_C01visitors"), ("sa.rules.c21", "r_matchvisitors"), ("sa.rules.cmeta", "r_internalload"), ("sa.rules.c25e", "r_resolverefs"), ("sa.rules.b6", "r_C19a_C01"), ("sa.rules.c16", "r_parseroverrides")],
    "C07": [("sa.rules.b3", "r_C07"), ("sa.rules.b6", "r_C03bc"), ("sa.rules.c03", "r_C03fgh"), ("sa.rules.c07", "r_C07eval"), ("sa.rules.c05", "r_none_tests"), ("sa.rules.c01", "r_C01i"), ("sa.rules.c25", "r_who_writes"), ("sa.rules.b3", "r_C16a"), ("sa.rules.c01e", "r_C01visitors"), ("sa.rules.cres", "r_resolver"), ("sa.rules.cpn", "r_processnode"), ("sa.rules.c05e", "r_C05children"), ("sa.rules.c32", "r_C32"), ("sa.rules.c03e", "r_C03eval"), ("sa.rules.cmeta", "r_initclass")],
    "C08": [("sa.rules.b3", "r_C08_C34"), ("sa.rules.cmeta", "r_initobj"), ("sa.rules.cres", "r_resolver"), ("sa.rules.cpn", "r_processnode"), ("sa.rules.c09e", "r_extrel"), ("sa.rules.c02", "r_C02eval"), ("sa.rules.c05", "r_C05cde")],
    "C09": [("sa.rules.b3", "r_C09"), ("sa.rules.b3", "r_C07"), ("sa.rules.cmisc", "r_C13d_C34f_C09d"), ("sa.rules.b3", "r_C08_C34"), ("sa.rules.cres", "r_resolver"), ("sa.rules.c10e", "r_C10eval"), ("sa.rules.cpn", "r_processnode"), ("sa.rules.c11e", "r_C11eval"), ("sa.rules.cdrv", "r_driver"), ("sa.rules.c09e", "r_extrel"), ("sa.rules.c17", "r_C18i"), ("sa.rules.c17e", "r_C17eval")],
    "C10": [("sa.rules.b3", "r_C05_C10"), ("sa.rules.c05", "r_none_tests"), ("sa.rules.b6", "r_C03bc"), ("sa.rules.c03", "r_C03fgh"), ("sa.rules.c01", "r_C01i"), ("sa.rules.c01e", "r_C01visitors"), ("sa.rules.c10e", "r_C10eval"), ("sa.rules.c05e", "r_C05children"), ("sa.rules.c14", "r_C14inst"), ("sa.rules.cres", "r_resolver"), ("sa.rules.cpn", "r_processnode"), ("sa.rules.c17e", "r_C17eval"), ("sa.rules.c17e", "r_C17importuri"), ("sa.rules.c03e", "r_C03eval"), ("sa.rules.cmeta", "r_internalload")],
    "C11": [("sa.rules.b3", "r_C03de_C11a_C17bc"), ("sa.rules.c11", "r_C11b"), ("sa.rules.c11", "r_C11de"), ("sa.rules.c32", "r_C32c"), ("sa.rules.c05", "r_none_tests"), ("sa.rules.c12", "r_C12f"), ("sa.rules.c12e", "r_C12eval"), ("sa.rules.c11e", "r_C11eval"), ("sa.rules.c01e", "r_C01visitors"), ("sa.rules.c25e", "r_resolvecls"), ("sa.rules.c02", "r_C02eval")],
    "C12": [("sa.rules.b1", "r_C12a"), ("sa.rules.c12", "r_C12b"), ("sa.rules.c05", "r_C12c"), ("sa.rules.c11", "r_C11de"), ("sa.rules.c12", "r_C12f"), ("sa.rules.c12e", "r_C12eval"), ("sa.peg", "r_C24")],
    "C13": [("sa.rules.b3", "r_C13"), ("sa.rules.c13", "r_C13eval"), ("sa.rules.cmisc", "r_C13d_C34f_C09d"), ("sa.rules.cmisc", "r_C13e"), ("sa.rules.c04", "r_C04defaults"), ("sa.rules.c17", "r_C18i"), ("sa.rules.b3", "r_C28b_C33b_C30bc"), ("sa.rules.cmeta", "r_mmapi"), ("sa.rules.cpn", "r_processnode"), ("sa.rules.cdrv", "r_driver"), ("sa.rules.c14", "r_endconstruction"), ("sa.rules.c05", "r_C05cde"), ("sa.rules.c02", "r_C02eval"), ("sa.rules.c14", "r_C14inst")],
    "C14": [("sa.rules.b4", "r_ledger"), ("sa.rules.c14", "r_C14inst"), ("sa.rules.c14", "r_ledger2"), ("sa.rules.b3", "r_C13"), ("sa.rules.c14", "r_C14h"), ("sa.rules.c14", "r_C14d"), ("sa.rules.c14", "r_C14i"), ("sa.rules.c14", "r_C15h"), ("sa.rules.c14", "r_C15i"), ("sa.rules.cmeta", "r_initclass"), ("sa.rules.cmeta", "r_initobj"), ("sa.rules.cpn", "r_processnode"), ("sa.rules.cdrv", "r_driver"), ("sa.rules.cmisc", "r_C06bcd"), ("sa.rules.c14", "r_endconstruction"), ("sa.rules.c17e", "r_C15eval"), ("sa.rules.cmeta", "r_validateuc"), ("sa.rules.c01e", "r_C01visitors"), ("sa.rules.c17e", "r_C17eval")],
    "C15": [("sa.rules.b4", "r_ledger"), ("sa.rules.c14", "r_ledger2"), ("sa.rules.c14", "r_C14i"), ("sa.rules.c14", "r_C15h"), ("sa.rules.b3", "r_C16a"), ("sa.rules.c14", "r_C15i"), ("sa.rules.c17", "r_C17jkl"), ("sa.rules.c17", "r_C18i"), ("sa.rules.c14", "r_C14inst"), ("sa.rules.cmeta", "r_initclass"), ("sa.rules.c17e", "r_C17eval"), ("sa.rules.c17e", "r_C15eval"), ("sa.rules.cdrv", "r_driver"), ("sa.rules.c14", "r_endconstruction"), ("sa.rules.cmeta", "r_modelfromstr")],
    "C16": [("sa.rules.b3", "r_C16a"), ("sa.rules.c14", "r_ledger2"), ("sa.rules.c16", "r_cachekeys"), ("sa.rules.c16", "r_C16f"), ("sa.rules.c17", "r_C17i"), ("sa.rules.c25", "r_C27d"), ("sa.rules.b4", "r_ledger"), ("sa.rules.c14", "r_C14i"), ("sa.rules.c14", "r_C15h"), ("sa.rules.b6", "r_C19a_C01"), ("sa.rules.c14", "r_C14inst"), ("sa.rules.cmeta", "r_initclass"), ("sa.rules.c17", "r_C01h"), ("sa.rules.c17e", "r_C17eval"), ("sa.rules.c17e", "r_C15eval"), ("sa.rules.c17e", "r_C17importuri"), ("sa.rules.cdrv", "r_driver"), ("sa.rules.c17", "r_C18i"), ("sa.rules.c17e", "r_globalrepo"), ("sa.rules.cmeta", "r_internalload"), ("sa.rules.c16", "r_memo"), ("sa.rules.c16", "r_sharedbase"), ("sa.rules.cmeta", "r_modelfromstr")],
    "C17": [("sa.rules.b3", "r_C03de_C11a_C17bc"), ("sa.rules.b6", "r_C17ad_C22b"), ("sa.rules.c05", "r_none_tests"), ("sa.rules.c17", "r_C17fgh"), ("sa.rules.b4", "r_ledger"), ("sa.rules.c17", "r_C17i"), ("sa.rules.c17", "r_C17jkl"), ("sa.rules.c17", "r_C18i"), ("sa.rules.c17e", "r_C17eval"), ("sa.rules.c17e", "r_C15eval"), ("sa.rules.c17e", "r_C17importuri"), ("sa.rules.cdrv", "r_driver"), ("sa.rules.c17e", "r_globalrepo"), ("sa.rules.cmeta", "r_internalload")],
    "C18": [("sa.rules.b4", "r_ledger"), ("sa.rules.c14", "r_ledger2"), ("sa.rules.c14", "r_C15i"), ("sa.rules.c17", "r_C17jkl"), ("sa.rules.c17", "r_C18i"), ("sa.rules.c14", "r_C14inst"), ("sa.rules.c17e", "r_C17eval"), ("sa.rules.cdrv", "r_driver"), ("sa.rules.c17e", "r_C17importuri"), ("sa.rules.c17e", "r_C15eval"), ("sa.rules.c17e", "r_globalrepo"), ("sa.rules.cmeta", "r_internalload"), ("sa.rules.b3", "r_C16a"), ("sa.rules.cmeta", "r_modelfromstr")],
    "C19": [("sa.rules.b6", "r_C19a_C01"), ("sa.rules.c16", "r_cachekeys"), ("sa.rules.c22", "r_visitor"), ("sa.rules.c01e", "r_C01visitors"), ("sa.rules.cmisc", "r_C06bcd"), ("sa.rules.c21", "r_matchvisitors"), ("sa.rules.c16", "r_parseroverrides")],
    "C20": [("sa.rules.b1", "r_C20a"), ("sa.rules.b6", "r_C19a_C01"), ("sa.rules.c16", "r_cachekeys"), ("sa.rules.c22", "r_visitor"), ("sa.rules.c21", "r_matchvisitors"), ("sa.rules.cpn", "r_processnode"), ("sa.rules.c01e", "r_C01visitors"), ("sa.rules.cmeta", "r_mmfromstr"), ("sa.rules.c16", "r_sharedbase")],
    "C21": [("sa.rules.b6", "r_C19a_C01"), ("sa.rules.c16", "r_cachekeys"), ("sa.rules.c22", "r_visitor"), ("sa.rules.c21", "r_matchvisitors"), ("sa.rules.c01e", "r_C01visitors"), ("sa.rules.c02", "r_C02eval"), ("sa.rules.cmeta", "r_mmfromstr"), ("sa.rules.c25e", "r_resolverefs")],
    "C22": [("sa.rules.c22", "r_rule_params_eval"), ("sa.rules.b6", "r_C19a_C01"), ("sa.rules.b6", "r_C17ad_C22b"), ("sa.rules.c22", "r_visitor"), ("sa.rules.c22", "r_C22jk"), ("sa.rules.c21", "r_matchvisitors"), ("sa.rules.cpn", "r_processnode"), ("sa.rules.cmisc", "r_C06bcd"), ("sa.rules.cmeta", "r_internalload"), ("sa.rules.c01e", "r_C01visitors"), ("sa.rules.c02", "r_C02eval"), ("sa.rules.c25e", "r_resolverefs"), ("sa.rules.cmeta", "r_mmfromstr"), ("sa.rules.c12", "r_C12b")],
    "C23": [("sa.rules.b6", "r_C23"), ("sa.rules.c22", "r_rule_params_eval"), ("sa.rules.c22", "r_visitor"), ("sa.rules.c22", "r_C23g_C24d"), ("sa.rules.c21", "r_matchvisitors"), ("sa.rules.c02", "r_C02eval"), ("sa.rules.c01e", "r_C01visitors"), ("sa.rules.c03e", "r_C03eval"), ("sa.rules.cmisc", "r_C06bcd"), ("sa.rules.cmeta", "r_validateuc"), ("sa.rules.c25e", "r_resolverefs"), ("sa.rules.c25e", "r_resolvecls"), ("sa.peg", "r_C24"), ("sa.rules.b2", "r_C25")],
    "C24": [("sa.peg", "r_C24"), ("sa.rules.c16", "r_cachekeys"), ("sa.rules.c22", "r_C23g_C24d")],
    "C25": [("sa.rules.b2", "r_C25"), ("sa.rules.c25", "r_C25efg"), ("sa.rules.c01", "r_C01i"), ("sa.rules.c25", "r_who_writes"), ("sa.rules.cmeta", "r_initclass"), ("sa.rules.cmeta", "r_namespaces"), ("sa.rules.c01e", "r_C01visitors"), ("sa.peg", "r_C24"), ("sa.rules.b6", "r_C23"), ("sa.rules.c25e", "r_resolverefs"), ("sa.rules.cmeta", "r_mmfromstr"), ("sa.rules.c16", "r_memo"), ("sa.rules.c25e", "r_resolvecls")],
    "C26": [("sa.rules.b2", "r_C26a"), ("sa.rules.b2", "r_C26bcdef"), ("sa.rules.c26", "r_C26eval"), ("sa.rules.c26", "r_C26state"), ("sa.rules.c16", "r_memo"), ("sa.rules.gen", "r_records")],
    "C27": [("sa.rules.b1", "r_C27"), ("sa.rules.c25", "r_C27d"), ("sa.rules.c25", "r_who_writes"), ("sa.rules.cmeta", "r_modelparams"), ("sa.rules.c17e", "r_C17importuri"), ("sa.rules.cmeta", "r_modelfromfile"), ("sa.rules.c17e", "r_C15eval"), ("sa.rules.cmeta", "r_modelfromstr"), ("sa.rules.cmeta", "r_internalload")],
    "C28": [("sa.rules.b7", "r_origin"), ("sa.rules.b3", "r_C28b_C33b_C30bc"), ("sa.rules.cmisc", "r_C06bcd"), ("sa.rules.c25", "r_C28cd"), ("sa.rules.c25", "r_C28e"), ("sa.rules.c25", "r_C28f"), ("sa.rules.cmisc", "r_C13d_C34f_C09d"), ("sa.rules.cres", "r_resolver"), ("sa.rules.c17e", "r_C17importuri"), ("sa.rules.cpn", "r_processnode"), ("sa.rules.cdrv", "r_driver"), ("sa.rules.c16", "r_cachekeys"), ("sa.rules.c17e", "r_C17eval"), ("sa.rules.c17", "r_C18i"), ("sa.rules.cmeta", "r_modelfromstr"), ("sa.rules.c14", "r_C15i")],
    "C29": [("sa.rules.b5", "r_C29"), ("sa.rules.c29", "r_export2"), ("sa.rules.c29", "r_C29e"), ("sa.rules.c29", "r_C31d_C29f"), ("sa.rules.b4", "r_ledger"), ("sa.rules.b5", "r_modelexport")],
    "C30": [("sa.rules.c13", "r_C13eval"), ("sa.rules.b3", "r_C28b_C33b_C30bc"), ("sa.rules.c29", "r_cli2"), ("sa.rules.c26", "r_C26eval"), ("sa.rules.c26", "r_C26state"), ("sa.rules.b1", "r_C33a"), ("sa.rules.gen", "r_records"), ("sa.rules.c29", "r_signals")],
    "C31": [("sa.rules.b4", "r_ledger"), ("sa.rules.c14", "r_ledger2"), ("sa.rules.c29", "r_export2"), ("sa.rules.c29", "r_C31d_C29f"), ("sa.rules.c29", "r_signals")],
    "C32": [("sa.rules.c32", "r_C32"), ("sa.rules.c32", "r_C32c"), ("sa.rules.c32", "r_C32de"), ("sa.rules.c01e", "r_C01visitors"), ("sa.rules.cpn", "r_processnode"), ("sa.rules.cdrv", "r_driver"), ("sa.rules.c12", "r_C12b"), ("sa.rules.c25e", "r_resolvecls")],
    "C33": [("sa.rules.b1", "r_C33a"), ("sa.rules.b7", "r_origin"), ("sa.rules.c13", "r_C13eval"), ("sa.rules.b3", "r_C28b_C33b_C30bc"), ("sa.rules.c29", "r_C33c_C34g"), ("sa.rules.cmisc", "r_C06bcd"), ("sa.rules.cpn", "r_processnode"), ("sa.rules.cdrv", "r_driver"), ("sa.rules.cres", "r_resolver"), ("sa.rules.c16", "r_cachekeys"), ("sa.rules.c25", "r_C28f"), ("sa.rules.b4", "r_ledger"), ("sa.rules.c14", "r_ledger2"), ("sa.rules.cmeta", "r_modelfromstr"), ("sa.rules.c14", "r_C15i"), ("sa.rules.b3", "r_C16a")],
    "C34": [("sa.rules.b3", "r_C08_C34"), ("sa.rules.cmisc", "r_C13d_C34f_C09d"), ("sa.rules.c29", "r_C33c_C34g"), ("sa.rules.cmisc", "r_C06bcd"), ("sa.rules.c25", "r_who_writes"), ("sa.rules.c05", "r_C05cde"), ("sa.rules.cres", "r_resolver"), ("sa.rules.cpn", "r_processnode"), ("sa.rules.cdrv", "r_driver"), ("sa.rules.c14", "r_C14inst"), ("sa.rules.cmeta", "r_internalload")],
}

# registrations that exist only so that a shared clause (ALSO) is reported under the property: the function's instances that
# are counted without being recorded one by one stay with the properties it was written for
SHARED_ONLY = {("C18", "r_modelfromstr"), ("C15", "r_modelfromstr"), ("C16", "r_modelfromstr"), ("C14", "r_C17eval"), ("C23", "r_C25"), ("C03", "r_C25"), ("C08", "r_C05cde"), ("C25", "r_C24"), ("C25", "r_C23"), ("C29", "r_ledger"), ("C33", "r_ledger"), ("C33", "r_ledger2"), ("C33", "r_C15i"), ("C23", "r_C06bcd"), ("C07", "r_initclass"), ("C10", "r_C17importuri"), ("C27", "r_C15eval"), ("C10", "r_C03eval"), ("C06", "r_C19a_C01"), ("C22", "r_C12b"), ("C12", "r_C24"), ("C23", "r_C24"), ("C18", "r_internalload"), ("C18", "r_C16a"), ("C33", "r_C16a"), ("C13", "r_C14inst"), ("C10", "r_internalload")}
# findings of one property that are *also* reported under another (same defect, two properties)
ALSO = {
    "C21": {"C01": ("C01.a",)},
    "C32": {"C18": ("C18.k",), "C12": ("C12.e",)},
    "C23": {"C03": ("C03.m",), "C06": ("C06.c",), "C25": ("C25.o",)},   # C25.o: the existence test before every lookup of the grammar compiler must agree with the lookup, else an unknown rule is a bare KeyError      # a valid grammar whose rule kinds cannot be determined ends in a non-textX error
    "C03": {"C01": ("C01.h",), "C25": ("C25.o",)},   # C25.o: the rule-kind fixpoint visits the classes by iterating the meta-model
    "C18": {"C15": ("C15.k", "C15.m"), "C17": ("C17.n", "C17.o",), "C16": ("C16.a",)},
    "C20": {"C01": ("C01.k",)},
    # reference lists are attribute values too: the order clauses of C08 are clauses of C02 ("never reorder matched values")
    "C02": {"C08": ("C08.a", "C08.d", "C08.e"), "C01": ("C01.e", "C01.j"), "C13": ("C13.b",), "C06": ("C06.b",)},
    # "matching object of the right type": the conformance test textx_isinstance is part of C07's selector
    "C07": {"C01": ("C01.i",), "C03": ("C03.c", "C03.d", "C03.h", "C03.m", "C03.l",), "C16": ("C16.a",), "C34": ("C34.h",), "C05": ("C05.h",), "C32": ("C32.b",), "C13": ("C13.h",)},     # C03.m: the inheritor lists decide which objects conform to an abstract target rule; C34.h: a reference bound to a builtin (a plain object) must not break the round when tool support is on
    # C14: "__init__ ... runs before any object processor" is the ordering clause C13.a; instrumentation/storage clauses of C15
    "C14": {"C01": ("C01.j",), "C13": ("C13.a",), "C15": ("C15.h", "C15.c", "C15.d", "C15.e", "C15.f", "C15.k", "C15.m"), "C18": ("C18.k",), "C06": ("C06.b",)},
    "C15": {"C16": ("C16.a",), "C14": ("C14.a", "C14.f", "C14.e", "C14.i", "C14.j", "C14.c", "C14.k", "C14.q"), "C18": ("C18.a", "C18.g", "C18.c", "C18.d", "C18.j")},
    # C09 "a Postponed result is never bound/stored": the builtins fallback clause of C07.b
    "C09": {"C34": ("C34.h",), "C07": ("C07.b", "C07.e"), "C08": ("C08.a", "C08.d"), "C05": ("C05.g",), "C11": ("C11.h",), "C18": ("C18.k", "C18.j")},   # C18.j: a model of a failed load left in the shared repository is visited again by the fixpoint loop of every later load; "the result does not depend on the order taken": positional storage of list references
    # "a repeated load of the same file returns the cached model": cleanup of a failed load must not evict finished models
    "C17": {"C18": ("C18.a", "C18.b", "C18.j", "C18.k"), "C15": ("C15.j",)},
    # the reference spans of _pos_crossref_list are the (position, position_end) queued with each ObjCrossRef
    "C34": {"C08": ("C08.e"), "C06": ("C06.b", "C06.c", "C06.f", "C06.g"), "C05": ("C05.f",), "C14": ("C14.p", "C14.j", "C14.c",)},    # def_file_name / filename of a location: the model found by get_model
    # a user object's own position must replace the class-level one (C06.b) before a processor error is located with it
    "C33": {"C06": ("C06.b", "C06.a", "C06.f", "C06.g"), "C13": ("C13.h",), "C01": ("C01.k",), "C28": ("C28.h", "C28.i", "C28.f"), "C18": ("C18.a", "C18.d"), "C15": ("C15.b", "C15.i",), "C16": ("C16.a",)},     # C18.a/d: a model whose object processor failed must leave the repositories, or the next load of the file returns it without any error
    # the parent link of an object of a user class is a collected attribute: it is lost when the instrumentation ends while a load is still building objects
    "C05": {"C14": ("C14.j", "C14.m", "C14.p"), "C16": ("C16.a",), "C01": ("C01.j",), "C13": ("C13.b",)},     # C13.b: a replacement written into another slot leaves a contained object whose parent link does not match the list; C01.j: a list attribute left on the class is shared: every object 'contains' the children of all others
    # a reference list / an attribute a user class shadows at class level is shared by all objects (C08: order of one object's references; C14: __init__ arguments)
    "C08": {"C01": ("C01.j",), "C09": ("C09.f",)},
    "C06": {"C05": ("C05.f",), "C01": ("C01.h", "C01.c")},      # C01.c: a rule whose whitespace modifiers are dropped skips the blanks it should match: its object's span shrinks
    # the CLI prints file:line:col of the error it gets
    "C30": {"C33": ("C33.b", "C33.a",), "C28": ("C28.i",), "C26": ("C26.g",)},
    # error locations of list references come from the element positions (C08.e); line/col arithmetic (C06.d)
    # a failed model processor must evict the imported models too: a cached import keeps the parameters of the failed load
    "C27": {"C15": ("C15.j",)},
    "C28": {"C08": ("C08.e"), "C06": ("C06.c", "C06.d"), "C07": ("C07.e",), "C33": ("C33.d",), "C17": ("C17.m",), "C18": ("C18.j",)},   # C18.j: a failed model left in a shared repository makes the next load report that model's error location
    # eolterm/sep modifiers not installed -> the memoized and the plain parser disagree on the repetition's extent
    "C19": {"C01": ("C01.b", "C01.c"), "C06": ("C06.c",)},
    # base type conversion: with use_regexp_group the converted text is decided by C01.g
    "C04": {"C01": ("C01.k", "C01.j"), "C06": ("C06.c", "C06.b"), "C03": ("C03.n",), "C13": ("C13.h",), "C14": ("C14.q",)},     # C14.q / C06.b: converted values that are falsy (0, '', False) must reach objects of user classes too
    # C01.c (rule modifiers on an expression that ignores them) is the whitespace clause of C22 as well
    "C22": {"C01": ("C01.c", "C01.d"), "C21": ("C21.a",), "C03": ("C03.n",), "C06": ("C06.c",), "C12": ("C12.e",)},     # C12.e: the grammar visitor's string-value reader also reads the rule parameters (ws='...'): what it decodes changes the whitespace set
    "C01": {"C02": ("C02.e",), "C04": ("C04.a", "C04.d", "C04.g"), "C23": ("C23.c",), "C03": ("C03.k", "C03.m", "C03.n"), "C05": ("C05.g",), "C16": ("C16.a",)},
    # C23.c (subscripted terminal in the invalid-regex handler) is the node-kind clause C01.f as well
    # C13 'the object processor registered for a rule': a registration replaces the previous table, never the built-in one (C04.e)
    "C13": {"C04": ("C04.e",), "C01": ("C01.k",), "C18": ("C18.k",), "C14": ("C14.q", "C14.j", "C14.c",)},
    # C16 'each load ... equal to a fresh process state, also after failing loads': instrumentation / storage / repository cleanup clauses
    "C16": {"C01": ("C01.d", "C01.h",), "C15": ("C15.c", "C15.d", "C15.h", "C15.j", "C15.k", "C15.m"), "C14": ("C14.a", "C14.f", "C14.i", "C14.j", "C14.c", "C14.k"), "C18": ("C18.k", "C18.j")},
    # C10 'ending in an object of the target type': the conformance test textx_isinstance
    "C10": {"C03": ("C03.c", "C03.h", "C03.m"), "C01": ("C01.i",), "C14": ("C14.m", "C14.p"), "C05": ("C05.h", "C05.g"), "C07": ("C07.e",), "C17": ("C17.m", "C17.n", "C17.o",)},      # C17.m: which imported models are visible to the importing model decides which qualified names the import providers may resolve (alias-only imports stay invisible)
    # the type a (possibly qualified) reference names is kept over repeated assignments
    "C25": {"C01": ("C01.i",), "C23": ("C23.a",)},      # (the differ reports disagreements about the tokens of the import statement under C25 itself); C23.a: a rule of an imported grammar looked up by simple name raises KeyError
    "C29": {"C31": ("C31.a",)},      # the generator commands write their export through gen_file: a truncated file left behind is an ill-formed export
}

# general clause families (sa/rules/gen.py): registered for every property they can attribute a finding to
def _register_general():
    from sa.rules import gen
    fn_of = {"T": ("r_truth",), "M": ("r_memo",), "O": ("r_options",), "S": ("r_shallow", "r_intern"), "P": ("r_postponed",), "V": ("r_records",), "F": ("r_forward",), "I": ("r_oneshot",), "Q": ("r_postponed_exit",)}
    for fam, ps in gen.families().items():
        for p in sorted(ps):
            for f_ in fn_of[fam]:
                if ("sa.rules.gen", f_) not in RULES[p]: RULES[p].append(("sa.rules.gen", f_))
_register_general()

def rule_functions(prop):
    out = []
    for mod, name in RULES[prop]:
        try: m = importlib.import_module(mod)
        except ModuleNotFoundError as e:
            if e.name == mod: continue          # rule module not built yet
            raise
        fn = getattr(m, name, None)
        if fn is not None: out.append(fn)
    return out
