"""Per-property text for evidence and MANIFEST: the structural clauses a rule decides ([D]) and what is declined.
Each decided clause is a necessary condition of the behavioural property (breaking it yields a concrete
counterexample); the behaviour as a whole is NOT decided.  See DESIGN.md section 3."""

P = {
"C01": dict(
  decided={
    "C22.k": "no expression constructor call of the visitor carries a skipws= / ws= keyword (modifiers reach expressions through the rule's parameter table only)",
    "C22.j": "visit_rule_param by evaluation: explicit skipws / noskipws / ws modifiers are read the same whatever the metamodel-wide setting",
    "C22.h": "ws modifier: by evaluation over strings with and without escapes, the rule's whitespace set is exactly the characters the modifier names (newline iff \\n, carriage return iff \\r, tab iff \\t, blank iff a blank)",
    "C01.i": "attribute type over repeated assignments: the type recorded by the first assignment and the type later assignments are compared with are the same expression",
    "C01.j": "by evaluation of _init_obj_attrs on instances of a user class with class-level attributes named like grammar attributes: the object itself gets every attribute of its rule - a new empty list per list attribute (not shared between objects or attributes), False for ?=, None for references, None or (auto_init_attributes) the base type's default for base types",
    "C01.k": "by evaluation of parse_tree_to_objgraph.process_node / process_match on a sample parse tree: with use_regexp_group the match of a regex rule with exactly one group yields the group text, converted once under the rule's name with the position of the match; other matches are unchanged",
    "C01.a": "by evaluation of the grammar visitors on sample children: e? e* e+ (seq)# build Optional / ZeroOrMore / OneOrMore / UnorderedGroup, '-' sets suppress, !e / &e build Not / And; a= a+= a*= a?= build the documented root assignment rules with multiplicity, bool flag and type; a link makes a non-containment reference carrying provider, match rule and target; misuse (# on a non-sequence, second ?=) is a TextX error",
    "C01.b": "by evaluation of the modifier pipeline (visit_repeat_modifiers -> visit_repeat_operator -> visit_repeatable_expr / visit_assignment): a separator becomes the repetition's sep (named sep), eolterm its eolterm flag, each independent of the other; modifiers on ? = ?= are TextXSyntaxErrors",
    "C01.c": "rule modifiers (ws/skipws) are installed only on expressions whose _parse honours them (Sequence subclasses)",
    "C01.d": "by evaluation of visit_textx_model with a recording stand-in for get_model_parser: every parser option of the meta-model arrives under its own name (not the grammar parser's), the first rule and the Comment rule's expression are handed over, the parser gets the meta-model; the model parser wraps the start rule with EOF",
    "C01.e": "attribute default table of _init_obj_attrs agrees with the documented defaults; python_type covers the base types",
    "C23.c": "(shared with C23) visitor methods subscript/iterate only non-terminal nodes",
    "C01.h": "a suppressed rule reference is wrapped whether or not the referenced rule still had to be resolved",
  },
  declined="acceptance 'exactly when the PEG semantics accept', whitespace/comment skipping, backtracking, suppression and model equality over all grammars x inputs: properties of Arpeggio's interpreter, not of code shape",
  technique="decision-table extraction (path atoms) + writer/reader table agreement + class-capability check against the Arpeggio source"),
"C02": dict(
  decided={
    "C02.e": "by evaluation of visit_textx_rule on 34 sample rule bodies (parsing-expression trees; isinstance follows Arpeggio's class hierarchy): an attribute becomes a list iff assigned with += / *=, under a repetition, or more than once on one path (alternatives of a choice do not add up, members of an unordered group do); ?= under a repetition is a TextXSemanticError; rule modifiers and references to other rules change nothing",
    "C02.f": "by evaluation of parse_tree_to_objgraph.process_node / process_match on a sample parse tree (12 objects and values, sample meta-classes, recording meta-model stand-ins): = stores one value, ?= stores True (False when absent), += stores every element in input order; a second value for a single-valued attribute is a 'Multiple assignments' TextXSemanticError",
    "C01.e": "(shared with C01) many-valued attributes start as [] for every configuration; base-type defaults follow the documented table",
    "C08.a": "(shared with C08) list references are stored positionally, not in resolution order",
    "C08.d": "the resolver as a state machine, by evaluation (ReferenceResolver instantiated by interpreting __init__, resolve_one_step interpreted round after round with a provider stand-in that follows a postponement schedule): three references of one list postponed for 0-2 rounds each (27 schedules, a second list of the same object and the same attribute of a second object alongside) always end in textual order, each once",
    "C08.e": 'by evaluation of parse_tree_to_objgraph.process_node / process_match on a sample parse tree (12 objects and values, sample meta-classes, recording meta-model stand-ins): every queued reference carries name, target class, start and end of its own text and is queued for the object and attribute it was written in, in textual order; separators are skipped',
  },
  declined="'list exactly when more than one value can be collected' for every grammar (which alternatives co-occur) and absence of Multiple-assignment errors for accepted input",
  technique="def-use dataflow on the accumulator + decision-table extraction over process_node"),
"C03": dict(
  decided={
    "C03.k": "the visited set of the rule-kind fixpoint lives for one pass: it is re-created inside the change-driven loop before the classes are visited",
    "C03.l": "by evaluation of _init_class with sample classes (own vs inherited attributes): with inherits=None the class gets a new empty inheritor list of its own, also when it is a Python subclass of an initialised user class or was initialised before",
    "C03.m": "by evaluation of _determine_rule_types on 10 sample meta-models (rule bodies as parsing-expression trees), classes visited in grammar order and in reverse: rules with assignments are common; a rule without assignments referencing a non-match rule is abstract with exactly the non-match rules its alternatives yield as inheritors (match-rule references and syntactic predicates in front contribute nothing); all others are match rules",
    "C03.n": "by evaluation of parse_tree_to_objgraph.process_node / process_match on a sample parse tree (12 objects and values, sample meta-classes, recording meta-model stand-ins): an abstract rule yields the object of its first non-match alternative; a match rule yields its joined text converted once under the rule's own name",
    "C03.a": "every comparison with a RULE_*/MULT_* constant has a rule-kind / multiplicity operand (kind discipline)",
    "C03.b": "inside the change-driven fixpoint of _determine_rule_types every derived fact is recomputed each pass",
    "C03.c": "recursion over user-shaped cyclic graphs (_tx_inh_by, rule references) carries a visited set covering the recursive argument",
    "C03.d": "textx_isinstance decision table (OBJECT / instance / equal fqn / any inheritor)",
    "C03.e": "by evaluation of the statements of TextXMetaModel.__init__ that create the base classes (recording stand-in for _new_class): NUMBER / BASETYPE inherit exactly their ordered choices of lang.py, OBJECT is abstract over BASETYPE",
    "C03.g": "the fixpoint's change flag is sticky within a pass (only set to True) and reset once at the top of each pass",
    "C03.i": "(shared with C25.f) classes an alias/abstract rule is inherited by come from the referenced rule objects",
    "C03.h": "cycle guards are keyed by identity and a visited hit skips the element instead of ending the search",
  },
  declined="that the fixpoint computes the documented kinds for every reference graph; which alternative matched at run time",
  technique="kind-discipline lint over all RULE_*/MULT_* comparisons + control-dependence inside the fixpoint loop + table agreement"),
"C04": dict(
  decided={
    "C04.f": "no base-type pattern has exactly one capturing group unless it spans the whole match (use_regexp_group would convert only that group)",
    "C04.g": "by evaluation of TextXMetaModel.process on a meta-model object built by interpreting __init__: sample literals of BOOL, INT, FLOAT, STRICTFLOAT and STRING are converted to the documented Python value and type, independent of what was converted before (the same text as FLOAT, then as INT); a type without processor leaves the value unchanged",
    "C04.e": "the table of built-in conversions is written only in __init__: no other method mutates it (directly or through an alias) or binds another attribute to the table itself instead of a copy",
    "C04.d": "numeric regexes accept their writer: L(str(int)) within L(INT), L(repr(finite float)) within L(FLOAT) and L(STRICTFLOAT) (core languages, by automaton product); STRICTFLOAT accepts no digit-only word; both float patterns end in the same context assertions",
    "C04.a": "STRING: for each delimiter the regex's only escape alternative is backslash+delimiter and the converter strips one char per side and unescapes exactly that",
    "C04.b": "BOOL: finite language of the regex equals the documented spellings and the converter maps each to the documented boolean",
    "C04.c": "NUMBER tries STRICTFLOAT before INT, BASETYPE tries NUMBER first; INT/FLOAT/STRICTFLOAT converters are int/float of the whole match",
  },
  declined="numeric and string round-trip equality for all values (transducer equivalence), behaviour of adjacent strings",
  technique="regex AST (re._parser) structure queries + abstract evaluation of the converter lambdas over the finite spelling set"),
"C05": dict(
  decided={
    "C14.h": "postponed initialisation: the per-object record is removed from _tx_obj_attrs before the collected attributes are applied to the object and before __init__ runs (the instrumented __setattr__ routes by the record's presence)",
    "C05.a": "the walkers documented to follow containment only make every descent control-dependent on attr.cont",
    "C05.b": "get_children: append before/after descent by children_first, visited-by-id, should_follow dominates the descent; parent climb only through .parent; parent assigned after the children loop only when the stack is non-empty",
    "C05.c": "the single-valued descent of get_children is guarded by a None-test of the child, never by its truth value",
    "C05.d": "by evaluation over a sample containment chain (A in B in A in B in C): get_parent_of_type returns the nearest proper ancestor of the type, never the start object, None when there is none, and follows nothing but .parent",
    "C05.e": "by evaluation: a class passed as type argument (whose qualified name differs from its simple name) selects the same objects as its simple name, in get_parent_of_type and in the selector get_children_of_type builds",
    "C05.f": "by evaluation: get_model returns the root of the sample chain for every object of it and never consults equality (==, in) of model objects, which user classes may define by value",
    "C05.g": 'by evaluation of parse_tree_to_objgraph.process_node / process_match on a sample parse tree (12 objects and values, sample meta-classes, recording meta-model stand-ins): every created object has the object whose attribute contains it as parent, the root object has none; reference attributes stay None / [] until resolution',
    "C05.h": 'by evaluation of get_children / get_children_of_type on a sample object tree (11 searches): containment order with attributes in declaration order, parents or children first, every contained object once (also elements a user class keeps in a tuple), references and base-type values not followed, should_follow prunes a subtree, the selector only filters',
  },
  declined="exactly-once and ordering guarantees over arbitrary object graphs",
  technique="control-dependence (CFG post-dominators) on descent sites + sibling cross-check of the three walkers"),
"C06": dict(
  decided={
    "C06.a": "by evaluation of get_location on a sample object two levels below its model: keys line/col/nchar/filename, line/col of the object's start converted by the parser of the model that contains it, that model's file name, nchar = end - start",
    "C06.f": 'by evaluation of parse_tree_to_objgraph.process_node / process_match on a sample parse tree (12 objects and values, sample meta-classes, recording meta-model stand-ins): every object carries the start and end offset of the text its own rule matched (also objects sharing a span with their only child, and the object an abstract rule yields)',
    "C06.g": 'by evaluation of the driver parse_tree_to_objgraph (recording stand-ins for the tree walkers, resolver class, loaders and cleanup functions; _start/_end_model_construction interpreted) on 9 load scenarios: _tx_filename is the file name given by the caller, None for a model loaded from a string; the model carries the meta-model and parser of its load and no construction mark afterwards',
    "C06.b": "collected attributes (incl. _tx_position/_tx_position_end) are copied to user objects one by one; an unsettable attribute suppresses only itself",
    "C06.c": "the text handed to the parser is the caller's string, unmodified",
    "C06.d": "position arithmetic is Arpeggio's (a re-implementation in textX is an analysis error: numeric correctness is not decidable here)",
  },
  declined="exactness of spans under whitespace/comments/suppression (Arpeggio parse-tree positions), nesting and ordering of slices",
  technique="origin (ownership) dataflow on pos_to_linecol sites"),
"C07": dict(
  decided={
    "C07.e": "by evaluation of a resolver round: an unresolved reference takes the builtins entry of its name only if the type conforms; otherwise the round fails with a TextXSemanticError of type 'Unknown object' located by the model's own parser and file",
    "C07.f": "by evaluation of parse_tree_to_objgraph.process_node / process_match on a sample parse tree (12 objects and values, sample meta-classes, recording meta-model stand-ins): every named object is registered under its class in the parser's instance table that the default provider reads when multi-meta-model support is off",
    "C07.a": "by evaluation of PlainName.__call__ over sample models (stand-ins for get_children/get_model/textx_isinstance): 0 conforming objects of the name -> None, 1 -> that object, >= 2 -> TextXSemanticError; same-named objects of unrelated classes do not count; only the model containing the referencing object is searched",
    "C07.b": "resolve_one_step: builtins consulted only after the provider returned None, accepted only under textx_isinstance; still None -> UNKNOWN_OBJ_ERROR; Postponed never stored",
    "C03.c": "(shared with C03) the type-conformance test recurses over inheritors with a cycle guard",
    "C03.d": "(shared with C03) textx_isinstance decision table",
    "C03.h": "(shared with C03) the cycle guard is identity-keyed and skips, never ends, the search",
    "C07.c": "by evaluation: an object whose name is 0 or the empty string, and a matching object that is falsy (user class with __len__/__bool__), are found; without multi_metamodel_support the parser._instances lookup returns the first hit among the inheriting classes depth-first, by None-test",
  },
  declined="correctness of the search over all models and type hierarchies",
  technique="decision-table extraction with a cardinality domain {0,1,>=2}"),
"C08": dict(
  decided={
    "C08.a": "because a defer (Postponed) path exists in resolve_one_step, many-valued references must be stored positionally (index derived from the cross-reference) or re-ordered before exposure; a bare append in resolution order is a violation",
  },
  declined="nothing else: with C02.c the clause is the property",
  technique="defer-path / store-path analysis on the resolver loop (CFG + path atoms)"),
"C09": dict(
  decided={
    "C08.a": "(shared with C08) result independent of the resolution order: list references are stored positionally",
    "C09.a": "conservation: every cross-reference taken from the work list ends in exactly one of re-queued / counted+stored / exception (all paths of the loop body)",
    "C09.b": "driver loop: condition conjoins 'unresolved > 0' and 'resolved this round > 0'; counters reset each iteration and fed only by resolve_one_step",
    "C09.c": "the unresolved error is raised iff the counter is positive after the loop; by evaluation of that branch: references left over end in a TextXSemanticError",
    "C09.d": "by evaluation of the failure branch over three sample models (two with unresolved references of their own, one without): each unresolved reference of each model is named once, with the line/column its own model's parser gives",
    "C09.e": "by evaluation over the same schedules: in every round each reference taken from the work list is either re-queued and reported as delayed (exactly the postponed ones) or counted and stored; references of other models stay queued untouched; a Postponed answer is never stored",
    "C09.f": 'by evaluation of resolve_model_path, get_list_of_concatenated_objects and ExtRelativeName (constructor interpreted) on a sample model with an extension chain (30 cases): a reference that is not resolved yet gives Postponed at any step of a path, inside parent(T) navigation and along the extension chain; a Postponed link stays in the chain; the provider answers the most derived match, None when no class of the complete chain has the name, and Postponed (counted) whenever any link is unresolved - never a definite answer from a partial chain',
    "C07.b": "(shared with C07) a Postponed result is never replaced by a builtin nor stored",
  },
  declined="'succeeds exactly when some order resolves everything' and order independence (depend on provider semantics)",
  technique="path enumeration over the resolver loop body (lazy decision table) + ranking-argument shape of the driver loop"),
"C10": dict(
  decided={
    "C10.a": "FQN.find_obj restricts candidate attributes to containment (excludes parent and reference attributes)",
    "C10.b": "_find_referenced_obj tries the referencing object first, then climbs parent only (every search starts at that variable); textx_isinstance dominates the success return",
    "C10.c": "list-valued and scalar-valued descent branches agree (both test the name and return the match)",
    "C10.e": "the FQN search helpers never raise for a failed candidate; the candidate filter excludes by name only dunder and _tx_ names",
    "C10.g": "FQNImportURI installs the redirection through the models loaded by an import statement only under importAs",
    "C10.h": "by evaluation of FQN.__call__ on a sample package tree (references written inside a.b, inside a and at the root; 22 names): the dotted name is followed part by part through contained children only (lists, tuples, single values; never parent, references, dunder or _tx_ attributes), at the referencing object first and then at each ancestor; the first scope where the whole name ends in an object of the target type wins; redirected scopes are searched and a Postponed redirection is handed on",
    "C10.f": "the containment table consulted for the attributes of an object is the table of that object's own class",
    "C10.d": "objects found by the FQN search are recognised by None-test, not by truth value",
  },
  declined="correctness for all trees and names",
  technique="containment-only descent rule (control dependence / comprehension filters) + sibling-branch agreement"),
"C11": dict(
  decided={
    "C32.c": "(shared) by evaluation of create_rrel_scope_provider with recording stand-ins for parse() and the provider classes: for every flag combination the string form and the pre-parsed form of an expression give the same provider class (the model-loading one iff +m), the same use_proxy, the parsed tree and the caller's split string",
    "C11.a": "find_object_with_path acceptance table: Postponed returned as is; accepted iff no name part remains and (no class or textx_isinstance); alternatives iterated in stored order, first hit; ReferenceProxy iff use_proxy",
    "C11.b": "every node class built by RRELVisitor defines the interface the evaluator calls",
    "C11.e": "RRELDots yields the ancestor only if all parent steps could be taken, otherwise no match",
    "C11.c": "objects found by a navigation step are recognised by None-test, not by truth value",
    "C11.g": "by evaluation of RRELExpression.__init__ on the sample trees: the letter m anywhere in the flags turns importURI on, p turns use_proxy on (+m: +p: +mp: +pm:), no flags leave both off; every navigation node of the tree points to its expression",
    "C11.h": "by evaluation of find_object_with_path and the get_next_matches / apply methods of the RREL node classes (generators evaluated on demand) on visitor-built trees of 31 sample expressions over a sample model (nested packages, same-named classes, an inheritance chain, a reference cycle, an imported and a builtin model), compared for every (expression, start object, name, target class) of the grid with the analysis' own reference evaluator of the documented semantics: first match in written order, name consumption, fixed names, parent(T), dots, ^, zero-or-more with its recursion stopper, +m, postponement at an unresolved reference, other separators (quick: 1/18 of the 15 000-case grid, thorough: all)",
  },
  declined="soundness/completeness of the lazy search with the visited set over all expressions x models (the bulk of C11)",
  technique="decision-table extraction + interface-completeness check over the RREL node classes"),
"C12": dict(
  decided={
    "C12.f": "small RREL functions by evaluation: brackets always print '(' content ')'; the navigation visitor tells a fixed name by the presence of a string literal child (never by its text); a sequence starts locally / at the root iff one of its alternatives does",
    "C12.g": "by evaluation: for 34 sample expressions the tree the RRELVisitor methods build from the parse (node classes instantiated by interpreting their __init__) prints, through the classes' __repr__, as the canonical spelling of the expression - bracket groups keep their brackets, every * follows a bracket group, dots and flags are printed as written, ^ prints as (..)*",
    "C12.e": "fixed names round-trip: for every word of the string_value token language up to length 5 (enumerated from the regex automata), reading the literal, printing the name and reading the printed literal gives the same name, and the printed literal is a word of the token language (by abstract evaluation of visit_string_value and RRELNavigation.__repr__)",
    "C12.a": "no constructor field of an RREL node is dropped by its printer; RRELExpression prints its flags for every non-empty flag set",
    "C12.b": "every literal a printer emits can be segmented into terminals of the RREL grammar (string terminals and literal characters of its regex tokens)",
    "C12.d": "the path printer's branches depend on the node kind only (leading dots never get a separator)",
    "C12.c": "printers and evaluators distinguish 'no fixed name' from an empty fixed name by None-test",
  },
  declined="string-level round-trip equality for all trees",
  technique="field-coverage lint + decision table over the abstract flag domain + printer/grammar literal agreement"),
"C13": dict(
  decided={
    "C18.i": "ModelRepository.remove_model, evaluated on a three-entry repository (two files and a string model under a synthetic key): removing a stored model removes exactly its entry wherever it sits; a model that is not stored changes nothing",
    "C13.e": "the test that gates the descent of the processor walk looks the object's class up by its qualified name (_tx_fqn), the key under which every namespace of the meta-model is searched, not by the simple class name",
    "C13.f": "by evaluation of textxerror_wrap: the wrapper returns what the wrapped processor returns (the replacement value reaches the model)",
    "C13.g": "by evaluation on a meta-model object built by interpreting TextXMetaModel.__init__: after each register_obj_processors the processor that runs for a type is the one of the latest registration alone, the built-in conversion applies where it is not overridden, has_obj_processor agrees",
    "C13.h": 'by evaluation of parse_tree_to_objgraph.process_node / process_match on a sample parse tree: every match (terminal or match-rule subtree) is converted exactly once under the name of its own rule, with the file, line and col of the match',
    "C13.a": "by evaluation of call_obj_processors over a sample model: contained objects are processed before their container, an object's own-rule processor before the declared-rule processor, each registered processor exactly once per object; in parse_tree_to_objgraph processors run after the resolution loop, the unresolved check and _end_model_construction of all models",
    "C13.b": "by evaluation: a non-None processor result replaces the object in its list slot / single attribute, the own-rule result wins over the declared-rule result, a None result leaves the object in place",
    "C13.c": "by evaluation: the target of a non-containment reference is not descended into, match-rule values are not handed to the walker's processors",
    "C13.d": "whether a model's processors run is decided from that model's own metamodel",
  },
  declined="call counts over all containment shapes",
  technique="CFG dominance / must-pass-through + sibling-branch agreement"),
"C14": dict(
  decided={
    "C15.i": "releasing the per-object records, evaluated on a sample (records {1,2,9}, ids [1,2] recorded by this parser): exactly the parser's own records are removed, finished or not, and no others",
    "C15.j": "by evaluation of _cached_model_ids / _call_model_processors on a meta-model object with an interpreted global repository: when a model processor fails exactly the models this load added are removed and the error propagates, the models cached before stay (same objects); nothing is removed when no processor fails",
    "C15.k": 'by evaluation of the driver parse_tree_to_objgraph (recording stand-ins for the tree walkers, resolver class, loaders and cleanup functions; _start/_end_model_construction interpreted) on 9 load scenarios: a failure in resolution, in an object processor or in a model loader removes the models of this load from the repositories, abandons their user objects, removes the construction marks and re-raises the same error; no processor runs after a resolution failure, nothing is resolved after a loader failure',
    "C15.m": 'by evaluation of _call_model_processors: a model that the failure handler removes from the shared repository while it is still under construction (a model loaded on behalf of another one) has the user-class instrumentation of its parser restored and its collected attributes released there and then - the enclosing load finds the models to clean up through the repository; succeeding processors touch no parser (found F36)',
    "C14.i": "restore is idempotent per parser: the 'replaced' flag is cleared before any nesting counter is decremented, on every path and unconditionally (a repeated restore for the same parser does nothing)",
    "C14.h": "postponed initialisation: the per-object record is removed from _tx_obj_attrs before the collected attributes are applied to the object and before __init__ runs (the instrumented __setattr__ routes by the record's presence)",
    "C14.a": "obligation O1: attribute-method instrumentation of user classes is restored on every exit of every load for every model under construction; no release without acquire",
    "C14.c": "by evaluation with sample classes (own vs inherited attributes): _replace_user_attr_methods instruments every user class, also a subclass of a user class without dunder methods of its own, and replace followed by restore leaves every class's own attributes exactly as before",
    "C14.j": "by evaluation: instrumentation nests - a class stays instrumented until the restore of the outermost replacing parser; a repeated restore of one parser, and the restore of a parser that never replaced, change nothing",
    "C14.m": "by evaluation of parse_tree_to_objgraph.process_node / process_match on a sample parse tree: an object of a user class is allocated from the user's class without running __init__, its attribute store is reserved, it is queued once for initialisation after the model is built, and it gets its parent like any other object",
    "C14.n": 'by evaluation of the driver parse_tree_to_objgraph (recording stand-ins for the tree walkers, resolver class, loaders and cleanup functions; _start/_end_model_construction interpreted) on 9 load scenarios: a model of an immutable type (a match-rule result) restores the user-class instrumentation and releases the collected attributes at once, gets no resolver and is returned',
    "C14.p": 'by evaluation of the attribute methods the loader installs on user classes: for an object under construction reads and __dict__ answer from the collected attributes (scope providers enumerate obj.__dict__), writes and deletes go there; other objects of the class behave normally; a missing attribute is an AttributeError',
    "C14.q": "by evaluation of _end_model_construction with sample user classes (own and inherited constructors) and a recording parser: the instrumentation is restored first; every user object, in creation order, gets its collected attributes set, leaves the class's storage and has its constructor - own or inherited - called exactly once with exactly the attributes of its rule plus parent; a constructor raising TypeError propagates naming the class, the ids recorded for release and the collected attributes of objects not yet initialised are still there",
    "C14.d": "__init__ called once per created instance with kwargs filtered to grammar attributes, after restore and before processors",
    "C14.e": "on every normal path through parse_tree_to_objgraph the parser is handed over to the model or the user classes are restored at once (immutable models)",
    "C14.f": "cleanup-and-reraise handlers that restore the user classes are catch-all (KeyboardInterrupt/SystemExit abort a load too)",
    "C13.a": "(shared with C13) user __init__ of every model runs before any object processor",
    "C15.c": "(shared with C15) handlers releasing the per-object storage are catch-all", "C15.d": "(shared with C15) the storage release has no guard other than the ids recorded at creation",
    "C15.e": "(shared with C15) the id is recorded immediately when the storage is created", "C15.f": "(shared with C15) the handler protecting the end of construction discharges for every model",
  },
  declined="garbage-collectability in general, 'same as a fresh metamodel'",
  technique="obligation ledger over normal + exceptional CFG exits through the call graph"),
"C15": dict(
  decided={
    "C18.i": "ModelRepository.remove_model, evaluated on a three-entry repository (two files and a string model under a synthetic key): removing a stored model removes exactly its entry wherever it sits; a model that is not stored changes nothing",
    "C18.h": "entries leave a repository only through ModelRepository.remove_model (identity scan): no other function deletes from filename_to_model",
    "C15.i": "releasing the per-object records, evaluated on a sample (records {1,2,9}, ids [1,2] recorded by this parser): exactly the parser's own records are removed, finished or not, and no others",
    "C15.h": "_abandon_user_objects restores the classes and releases the per-object records for every abandoned model that has a parser; the two calls depend on nothing else (not on the parser's 'replaced' flag)",
    "C14.i": "(shared with C14) restore is idempotent per parser: the 'replaced' flag is cleared before any nesting counter is decremented, on every path and unconditionally (a repeated restore for the same parser does nothing)",
    "C15.b": "obligation O2: per-object attribute storage on user classes released on every failure exit",
    "C15.c": "handlers that release the per-object storage are catch-all",
    "C15.d": "_release_user_obj_attrs has no exit or guard depending on state other than the ids recorded at creation",
    "C15.e": "the id of a user object is recorded immediately when its storage is created (no may-raise statement in between)",
    "C15.f": "the handler that protects the end of the construction discharges for every model of the attempt (no filter on the already deleted marker); the marker is tested for existence",
    "C14.a": "(shared with C14) instrumentation restored on every exit", "C14.e": "(shared with C14) immutable-model path restores directly", "C14.f": "(shared with C14) restoring handlers are catch-all",
    "C18.c": "(shared with C18) handlers removing models are catch-all", "C18.d": "(shared with C18) inner handler removes every model of the attempt", "C18.f": "(shared with C18) remove_model scans the store",
  },
  declined="absence of leaks through tracebacks/user code; equality with a fresh metamodel",
  technique="obligation ledger over exceptional CFG exits through the call graph"),
"C16": dict(
  decided={
    "C16.f": "while objects are built, conversions and processors come from the metamodel of the parser that produced the tree (receiver of every process/has_obj_processor in parse_tree_to_objgraph); _tx_metamodel is never read through a rule or class object (base-type rule objects are shared by all metamodels)",
    "C17.i": "every model gets a repository object of its own: each store into <model>._tx_model_repository binds a GlobalModelRepository constructed there (only all_models is shared through the constructor)",
    "C16.h": "the GlobalRepo provider object is configuration, not state (by evaluation of GlobalRepo.__init__ / register_models / add_model / _load_referenced_models with a recording repository): every load resolves relative patterns against its own project_root and hands model, glob_args, encoding and parameters on; no load changes the provider",
    "C16.a": "every load obtains its parser by cloning the blueprint; clone() re-initialises every mutable container __init__ creates (writer/reader table agreement, copy.copy is shallow)",
    "C16.d": "no mutable default argument is stored or mutated anywhere in the package (process-wide shared state)",
    "C16.c": "a value stored in a process-wide (module- or class-level) cache is keyed by everything it was computed from (per-(cache,input) exceptions with a reason)",
    "C16.b": "models under construction are recognised by the existence of the marker (its value starts as None), so a failed import evicts the half-built importer",
  },
  declined="harmlessness of state that is shared on purpose (module-level base-type rules, parser cache, memo tables) — no sound 'no shared writes' shape rule without false alarms",
  technique="who-may-call check + __init__/clone container table agreement"),
"C17": dict(
  decided={
    "C18.i": "ModelRepository.remove_model, evaluated on a three-entry repository (two files and a string model under a synthetic key): removing a stored model removes exactly its entry wherever it sits; a model that is not stored changes nothing",
    "C17.j": "cross-file lookup goes through local_models: outside the repository module and metamodel.py, all_models is only handed to the GlobalModelRepository constructor (shared store), never iterated or searched",
    "C17.k": "every file matched by an import pattern is appended to the import's result list (no skip condition in the loop)",
    "C17.i": "every model gets a repository object of its own: each store into <model>._tx_model_repository binds a GlobalModelRepository constructed there (only all_models is shared through the constructor)",
    "C18.b": "(shared with C18) cleanup of an abandoned load removes only models still under construction: finished models stay cached",
    "C17.a": "the model is registered (pre_ref_resolution_callback) before any referenced model is loaded (cycle cut)",
    "C17.b": "load_model loads only when neither repository has the file, otherwise returns the cached model",
    "C17.c": "ImportURI lookup order: own model, local models, builtin models, first hit",
    "C17.d": "file keys are abspath-normalised on every store and lookup; synthetic keys are not looked up through a normalising API",
    "C17.f": "the repository loaders register the importing model before they load anything (dominance on the path with an importer)",
    "C17.h": "with a global repository the cache is consulted for every load, direct or nested",
    "C17.e": "ImportURI recognises an object found in the own / a loaded / a builtin model by None-test, so the documented lookup order is not skipped for falsy objects",
    "C17.o": "internal_model_from_file by evaluation with recording stand-ins: the text (read with the caller's encoding or given) reaches a parser clone unchanged with absolute file name, debug, encoding, is_main_model; every model gets the caller's parameters before the caller's callback; processors run afterwards with the snapshot; with a global repository a cached file (also a falsy model object) is returned without parsing and a newly parsed model is registered",
    "C17.m": "the repositories as a state machine, by evaluation (classes instantiated by interpreting their __init__, stand-in meta-model): a file is loaded once and later loads return the same object; the model is registered under its file whether or not the pre-reference-resolution callback ran; it is visible in local_models only when asked for; a loaded model's own repository shares all_models; string-loaded models get one invented name each",
    "C17.n": "the ImportURI provider by evaluation: lookup asks the own model, then the imported models in import order, then the builtin models, and returns the first answer; load_models gives a model without repository one of its own (sharing the meta-model's all_models when there is a global repository) and loads the imports with the encoding given; every import is loaded once with the encoding of the load, the importing model's parameters and add_to_local_models off exactly for named imports under importAs",
  },
  declined="identity of cross-file targets and file-open counts for arbitrary import graphs",
  technique="CFG dominance + decision table + key-normalisation dataflow"),
"C18": dict(
  decided={
    "C18.i": "ModelRepository.remove_model, evaluated on a three-entry repository (two files and a string model under a synthetic key): removing a stored model removes exactly its entry wherever it sits; a model that is not stored changes nothing",
    "C18.h": "entries leave a repository only through ModelRepository.remove_model (identity scan): no other function deletes from filename_to_model",
    "C15.i": "releasing the per-object records, evaluated on a sample (records {1,2,9}, ids [1,2] recorded by this parser): exactly the parser's own records are removed, finished or not, and no others",
    "C18.a": "obligation O3: from each registration of a model in a repository, every may-raise statement up to the public entry lies under a handler that removes the models of this attempt from both repositories",
    "C18.b": "only models carrying the construction marker are removed (earlier cached models stay)",
    "C18.c": "cleanup-and-reraise handlers that remove models are catch-all",
    "C18.d": "the handler protecting the object processors removes every model of the attempt, not only those that still carry the marker",
    "C18.e": "the construction marker is tested for existence, not for its value",
    "C18.g": "per-load snapshots used by failure handlers are frame-local (loads nest through imports)",
    "C18.j": "by evaluation: remove_model / remove_models remove exactly the given models from both tables, also a model without file name; after a failing load the file is not visible in local_models",
    "C18.k": "by evaluation of the driver parse_tree_to_objgraph (recording stand-ins for the tree walkers, resolver class, loaders and cleanup functions; _start/_end_model_construction interpreted) on 9 load scenarios: a successful main load runs build -> file name / meta-model / construction mark -> pre-resolution callback -> every ModelLoader provider with the caller's encoding -> resolver(parser, model, list) -> rounds over the included models still under construction (finished ones left alone) -> construction ended for all -> only then the object processors; a non-main load stops after attaching the resolver",
  },
  declined="'the next load succeeds with correct identities'",
  technique="obligation ledger over exceptional CFG exits through the call graph"),
"C19": dict(
  decided={
    "C19.a": "every site that installs a parser-context-changing attribute (ws/skipws/eolterm) on an expression while arpeggio's packrat key is the position only",
    "C19.b": "the memoization option is forwarded unchanged to the model parser",
    "C19.d": "an explicit whitespace modifier is never dropped (a rule stating its mode pins it)",
    "C01.b": "(shared with C01) repetition modifiers (sep, eolterm) are both installed on assignments and repetitions",
    "C19.e": "every occurrence of a match or predicate in a grammar becomes an expression object of its own (by evaluation of visit_re_match / visit_expression called twice on one visitor): per-occurrence state - suppression, rule name, memoization table - is not shared",
    "C19.c": "no process-wide cache shares an object built for one memoization setting with another",
  },
  declined="equality of models / error positions in general",
  technique="cache-key vs. dynamic-context rule, instances enumerated from lang.py and the Arpeggio source"),
"C20": dict(
  decided={"C20.a": "every Match construction in the grammar visitor passes ignore_case derived from metamodel.ignore_case",
           "C20.c": "no process-wide cache holds an object built with ignore_case under a key that omits it",
           "C20.d": "the ignore_case argument of every Match construction is metamodel.ignore_case on every reaching definition; by evaluation of visit_str_match / visit_re_match the match objects built carry the meta-model's ignore_case and regex patterns are handed on unchanged and compiled",
           "C20.b": "the ignore_case option of the metamodel is forwarded to the model parser under its own name"},
  declined="that case mutation never changes acceptance; value case preservation (Arpeggio terminals)",
  technique="must-pass keyword-argument rule with alias expansion over all Match constructions"),
"C21": dict(
  decided={"C21.a": "by evaluation of TextXVisitor.__init__ and visit_str_match on sample literals (re is the standard library's own): with autokwd on exactly the literals that are identifiers as a whole become a compiled RegExMatch of <text>\\b printed as the text, every other literal and every literal with autokwd off a StrMatch of the decoded text; the classifier regex is (word minus digit)(word)*",
           "C21.c": "no process-wide cache holds an object built with autokwd under a key that omits it",
           "C21.d": "by evaluation: escapes of a grammar literal are decoded before the keyword classification ('caf\\xe9' is the keyword café)",
           "C21.b": "the autokwd option of the metamodel is forwarded to the model parser under its own name"},
  declined="model equality with/without autokwd for all inputs",
  technique="regex category algebra + guard analysis on the RegExMatch construction"),
"C22": dict(
  decided={
    "C22.k": "no expression constructor call of the visitor carries a skipws= / ws= keyword (modifiers reach expressions through the rule's parameter table only)",
    "C22.j": "visit_rule_param by evaluation: explicit skipws / noskipws / ws modifiers are read the same whatever the metamodel-wide setting",
    "C01.c": "(shared with C01) rule modifiers (ws/skipws) are installed only on expressions whose _parse honours them",
    "C22.h": "ws modifier: by evaluation over strings with and without escapes, the rule's whitespace set is exactly the characters the modifier names (newline iff \\n, carriage return iff \\r, tab iff \\t, blank iff a blank)",
    "C22.d": "every rule parameter given in the grammar reaches the parameter table (no skip path in visit_rule_params)",
    "C22.e": "every root wrapper built while rule parameters may be present receives them",
    "C22.g": "the comment model handed to the parser is refreshed after rule references are resolved",
    "C22.i": "at least one wiring site hands the grammar's Comment rule to the parser under the sole condition that the grammar defines one (no dependence on skipws or on the kind of the current comment model)",
    "C22.m": "by evaluation of visit_re_match: a grammar regex is built with Arpeggio's default flags (re.MULTILINE, so that $ ends a line comment) whatever ignore_case is",
    "C22.c": "the skipws and ws options of the metamodel are forwarded to the model parser under their own names",
  },
  declined="invariance of the model under inserted whitespace/comments (Arpeggio)",
  technique="class-capability check against the Arpeggio source + table extraction"),
"C23": dict(
  decided={
    "C23.a": "every raise reachable from metamodel_from_str raises a TextXError subclass; asserts are listed",
    "C23.b": "library raisers (codecs.decode, re.compile, int, float, open) are converted or guarded; by evaluation a grammar literal with a broken escape and an invalid grammar regex end in a TextXSyntaxError, never in a bare Python exception",
    "C23.c": "error handlers do not crash (no subscript of a terminal node)",
    "C23.d": "kind errors in rule parameters: evaluated over {skipws, ws, split, other} x {True, False, strings}, visit_rule_params never fails with a Python-level error (a bool used as a string); it raises a TextX error or returns the table",
    "C23.e": "by evaluation: compiling the sample rule bodies of C02.e raises nothing but TextX errors",
    "C23.e": "recursion along rule cross-references carries a cycle check",
    "C23.f": "the handler around the compilation of a user regex is `except Exception` or wider",
    "C23.g": "a dict.get() result is not used as a container/object without a None test",
  },
  declined="absence of all implicit exceptions (KeyError/IndexError/AttributeError) from arbitrary malformed grammars: no sound static bound for untyped Python",
  technique="call-graph reachability + raise discipline + try/handler conversion check"),
"C24": dict(
  decided={
    "C24.a": "structural agreement of the PEG extracted from lang.py/rrel.py and the PEG read from textx.tx, modulo a stated normal form and a reasoned equivalence table",
    "C24.b": "terminal vocabulary agreement",
    "C24.d": "the self-hosted metamodel and the grammar compiler's parser use the same (default, constant) tokenisation options",
    "C24.c": "the cached grammar parser is built from nothing that is missing from its cache key (it must not inherit a metamodel's ignore_case etc.)",
  },
  declined="language equality beyond structure (undecidable in general); the model shape grammar_model_from_str yields",
  technique="PEG extraction from two notations + normal form + co-inductive structural diff"),
"C25": dict(
  decided={
    "C25.h": "the 'redefined imported rule' error for user classes depends only on the user class being found and its rule name having been used before",
    "C25.i": "by evaluation of _init_class: the class's own qualified name is <current namespace>.<rule name> and the current namespace maps the rule name to the class, whatever qualified name the class inherits or carried before",
    "C25.j": "by evaluation of _namespace_for_file_name on a meta-model object built by interpreting __init__: the namespace of the main grammar file is its file name without the extension, whatever letters the name ends in",
    "C25.k": "by evaluation of visit_reference_stm: a reference statement makes the language known under its alias (or, without alias, under its own name) and under nothing else",
    "C25.a": "unqualified lookup: current namespace first, then imported namespaces in list order, first hit",
    "C25.b": "import once; namespace registered before the imported file is loaded (cycle cut)",
    "C25.c": "imported namespaces are appended in import order",
    "C25.d": "class fqn includes the namespace except for the base namespace",
    "C25.e": "a relative import is resolved against the package of the importing grammar (expression evaluated on sample namespaces)",
    "C25.f": "inheriting classes are taken from the referenced rule objects, never looked up by name in the current namespace",
    "C25.g": "the list of imported namespaces is append-only",
  },
  declined="resolution results over arbitrary import graphs",
  technique="statement-order / dominance checks + decision table"),
"C26": dict(
  decided={
    "C26.g": "registry functions evaluated on a sample registry: languages_for_file (name equals or matches the pattern), generator_description (own generator, else 'any' with any_permitted, else TextXRegistrationError; names lower-cased), clear_generator_registrations (registry unset)",
    "C26.h": "the registry module as a state machine, by evaluation of sequences of API calls over one shared module state: names are case-insensitive in every function, duplicates refused, entry points discovered lazily and again after a clear, a clear forgets programmatic registrations and cached meta-models, a meta-model is built once and cached but built anew whenever keyword arguments are given (whatever their values), an instance is used as it is, file lookup needs exactly one matching language",
    "C26.a": "every registry subscript / membership / get uses a lower()-normalised key (reaching definitions)",
    "C26.b": "registry reads are dominated by lazy (re)discovery; clearing languages invalidates the metamodel cache",
    "C26.c": "duplicate registration raises",
    "C26.d": "language_for_file cardinality table 0/1/>=2",
    "C26.e": "metamodel_for_language rebuilds iff not cached or kwargs",
    "C26.f": "'any' generator only when permitted and the specific one is missing",
  },
  declined="behaviour over operation sequences (a model-checking question)",
  technique="key-normalisation dataflow on reaching definitions + decision tables"),
"C27": dict(
  decided={
    "C27.e": "_tx_model_params is assigned only inside the two kwargs_callback functions (a cached model keeps the parameters of the load that built it)",
    "C27.f": "by evaluation of the classes of model_params.py (instantiated by interpreting their __init__): a declared parameter is accepted by check_params in exactly its own spelling, another spelling or an undeclared name is a TextXError; ModelParams hands out the values it was given (also None and 0) under their own names and exposes all of them",
    "C27.g": "by evaluation of TextXMetaModel.model_from_file with recording stand-ins: the caller's parameters are checked against the declarations and handed to the model exactly as given (same names, same values: a relative project_root stays relative, None stays None), before the file is loaded with the caller's file name, encoding and debug flag; a rejected parameter stops the load",
    "C27.a": "every public load entry checks the parameters before any model is loaded",
    "C27.b": "every call of a loading API forwards model_params derived from the importing model / the caller's parameter",
    "C27.c": "_tx_model_params is set before the user callback and for every model",
    "C27.d": "no mutable default argument is stored into object state (parameter definitions are per metamodel)",
  },
  declined="'exposes exactly the given parameters' for all closures",
  technique="CFG must-pass-through + argument-forwarding lint over all loader call sites"),
"C28": dict(
  decided={
    "C28.f": "an error's location fields are assigned only by the exception constructors, TextXMetaModel.process and the resolver's handler (the sites that fill a location-less error completely)",
    "C28.a": "at every pos_to_linecol site the parser and the offset belong to the same model (ownership pairing); provider call sites hand over the owner of the reference",
    "C28.b": "each raise site passes line, col and filename of the owner",
    "C28.g": "by evaluation of TextXModelParser._parse with the exception classes of textx/exceptions.py interpreted: a NoMatch becomes a TextXSyntaxError carrying the NoMatch's message, line, col, context, expected rules and the file name of the parser that reported it (the attributes are read after eval_attrs()); a successful parse returns the tree",
    "C28.h": "by evaluation of the driver parse_tree_to_objgraph (recording stand-ins for the tree walkers, resolver class, loaders and cleanup functions; _start/_end_model_construction interpreted) on 9 load scenarios: the 'Unresolvable cross references' error names every unresolved reference with its class and is located (line, col, file) at one of them, converted by the parser of the model that contains it",
    "C28.j": "model_from_str by evaluation with recording stand-ins, on meta-models with and without scope providers / global repository: a text given with a file name is loaded as that file (file name, unchanged text, encoding, debug, callback, checked parameters reach internal_model_from_file); a text without file name is parsed unchanged by a parser clone, gets the parameters, then the model processors; non-strings are refused",
    "C28.i": "by evaluation of TextXError.__str__ (and its subclasses, classes of exceptions.py interpreted): an error prints as file:line:col: message [=> 'context'] as soon as any of line, col, file name is known, as the bare message otherwise",
    "C28.c": "the location fields of one raise are assigned in the same loop iteration; by evaluation of the unresolved-reference branch: line, col and filename of the error belong to one and the same reference",
    "C28.d": "the resolver fills a provider error's location only where it has none",
    "C28.e": "every scope-provider call of the resolver (attached, registered or default provider) lies inside the try whose TextXError handler fills line, col and filename from the reference and re-raises",
    "C06.c": "(shared with C06) the parsed text is the caller's text", "C06.d": "(shared with C06) position arithmetic is Arpeggio's",
  },
  declined="numerical correctness of line/column",
  technique="origin (ownership) dataflow + keyword coverage at raise sites"),
"C29": dict(
  decided={
    "C29.f": "html_escape evaluated on sample texts equals html.escape (every markup character escaped whatever else the text contains)",
    "C29.e": "dot_repr, which the taint rule treats as a sanitiser, returns in its string branch only text that went through dot_escape (whole or sliced), never the raw argument",
    "C29.f": "every output file of the exporters is opened with encoding utf-8 (labels carry arbitrary text; with the locale's encoding a non-ASCII label aborts the write and leaves an unbalanced file)",
    "C29.g": 'by evaluation of PlantUmlRenderer (constructor interpreted) for every linetype setting: the output starts with @startuml exactly once and ends with @enduml, the linetype line appears iff configured',
    "C29.a": "no model-derived text reaches a DOT/PlantUML write without passing an escaping function (taint with path atoms)",
    "C29.b": "dot_escape covers the record-label specials",
    "C29.c": "every model gets its nodes (empty own repository falls back to exporting the model); class boxes are not de-duplicated by short name",
    "C29.d": "dot_repr (which escapes strings only) is applied only to values known to be str/primitive on that path",
  },
  declined="syntactic validity of the whole output, PlantUML balance",
  technique="taint analysis (sources: model text; sanitizers: dot_escape/dot_repr/html_escape; sinks: f.write)"),
"C30": dict(
  decided={
    "C26.g": "registry functions evaluated on a sample registry: languages_for_file (name equals or matches the pattern), generator_description (own generator, else 'any' with any_permitted, else TextXRegistrationError; names lower-cased), clear_generator_registrations (registry unset)",
    "C30.d": "by evaluation of the check command body on 9 command lines: every file is checked with the meta-model of its own language (or the given grammar / language) and the command's debug flag; an invalid file or an unknown language exits 1, otherwise 0",
    "C30.g": "by evaluation of the generate command body on 15 command lines (recording stand-ins for the registry, the meta-models and the generators): custom arguments are parsed (--a-b v -> a_b='v', --flag -> True, quotes stripped), every file is loaded with the meta-model of its own language and only the declared model parameters, every generator call is validated against that generator's own declaration (missing mandatory / undeclared -> exit 1 before the call, for every file), generator errors and unknown languages exit 1, otherwise exit 0",
  },
  declined="end-to-end CLI behaviour (click parsing)",
  technique="key-normalisation dataflow + decision table + handler discipline"),
"C31": dict(
  decided={
    "C31.d": "by evaluation of every generator function of generators.py that mentions an exporter (overwrite on and off; gen_file and the exporters are recording stand-ins): exporters run only as gen_file's callback and write the very file gen_file guards","C31.a": "obligation O5: an output file opened for writing is removed on every exceptional exit up to gen_file (or written via temp + os.replace)",
           "C31.b": "the handler removing the partial output is catch-all",
           "C31.c": "the built-in export writers let I/O errors of write/close propagate (nothing swallowed, file managed by with)"},
  declined="nothing else",
  technique="obligation ledger over exceptional exits"),
"C32": dict(
  decided={
    "C32.e": "visit_assignment records the RREL provider and match rule of an object reference on the attribute under no further condition",
    "C32.f": 'by evaluation of parse_tree_to_objgraph.process_node / process_match on a sample parse tree (12 objects and values, sample meta-classes, recording meta-model stand-ins): a queued reference carries the grammar provider (RREL) and match rule of its attribute, None where the attribute has none',
    "C32.c": "(shared) by evaluation of create_rrel_scope_provider with recording stand-ins for parse() and the provider classes: for every flag combination the string form and the pre-parsed form of an expression give the same provider class (the model-loading one iff +m), the same use_proxy, the parsed tree and the caller's split string",
           "C32.b": "by evaluation of register_scope_providers on a sample table over an earlier registration: afterwards the table holds exactly the given keys, callables as given, every string replaced by the RREL provider made from it"},
  declined="nothing material",
  technique="abstract string classification of the key list + loop shape"),
"C33": dict(
  decided={
    "C33.a": "TextXMetaModel.process fills each location field of get_location into the error, guarded by 'is None', and re-raises",
    "C33.b": "by evaluation: the processor dispatch hands metamodel.process the location of the processed object (bound the way process declares its parameters); textxerror_wrap re-raises a TextXError of the processor unchanged (same object, same fields) and wraps other exceptions into a TextXError located at the object",
    "C33.d": "by evaluation of a resolver round whose scope provider raises a TextXError: the same error propagates; it is located at the reference (line/col by the model's own parser, the model's file) only when it carries no location at all; an error already located (also partially, e.g. inside a model loaded from a string) is left unchanged",
  },
  declined="numeric correctness of the location",
  technique="field-coverage table agreement between get_location and the handler"),
"C34": dict(
  decided={
    "C34.f": "every created object is entered into the span map (None-test, not truth value)",
    "C34.h": "by evaluation of a resolver round with tool support on and off: every resolved model reference is recorded once with the reference's own start/end offsets and the target's file and span; builtin targets (plain objects) are not recorded and do not break the load; nothing is recorded with tool support off",
    "C34.i": 'by evaluation of parse_tree_to_objgraph.process_node / process_match on a sample parse tree (12 objects and values, sample meta-classes, recording meta-model stand-ins): with tool support every object is registered under its span, the innermost object for a shared span',
    "C34.j": 'by evaluation of the driver parse_tree_to_objgraph (recording stand-ins for the tree walkers, resolver class, loaders and cleanup functions; _start/_end_model_construction interpreted) on 9 load scenarios: with tool support the model publishes the very list handed to its resolver, sorted by reference start after the last round, and its span map ordered by start descending / end ascending; without tool support nothing is attached',
  },
  declined="exactness of offsets",
  technique="origin dataflow + sort-key sign analysis + fill-order rule"),
}

# ---- general clause families (sa/rules/gen.py): the same rule applied to every function of the property's mechanism
GENERAL = {
    "T": "(general) values that may be model objects or converted match values (attribute values read through the metamodel, parent links, results of scope providers / object processors / lookups) are tested with `is None`, never for truth, in every function of this property's mechanism",
    "M": "(general) memo keys: wherever a computation is skipped because a key was seen before (dict / set / attribute used as a memo), every input of the skipped computation that can vary during the memo's lifetime is determined by the key",
    "O": "(general) every metamodel option is stored verbatim from the constructor parameter of the same name and read under that name",
    "P": "(general) navigation through an attribute named at run time (RREL steps, dotted paths): every use of getattr(obj, name)'s value lies where needs_to_be_resolved(obj, name) is known false",
    "Q": "(general) in the scoping code every branch that finds a value to be Postponed leaves the function with that value (return v, or yield v + return)",
    "I": "(general) a local bound to a one-shot iterator (filter, map, zip, iter, reversed, enumerate, generator expression) has at most one use and none inside a loop",
    "F": "(general) pass-through parameters: a function that takes a parameter p (or **kwargs) and calls a function or class of the code base that takes p (or **kwargs) hands it on, by keyword, position or **kwargs (two reasoned exceptions)",
    "V": "(general) record classes on this property's path (ObjCrossRef, RefRulePosition, TextXError and its subclasses) store every constructor parameter under its own name and unchanged; exception subclasses hand every location field to the base constructor under the base's name",
    "S": "(general) objects built per occurrence by the grammar / RREL compilers (parsing expressions, RREL nodes, scope providers) are never shallow-copied and never handed out again from a cache (no setdefault interning, no dict or class-attribute store of a freshly built one that is read back)",
}
def _add_general():
    from sa.rules import gen
    for fam, props_ in gen.families().items():
        for p in props_:
            P[p]["decided"].setdefault("%s.%s" % (p, fam), GENERAL[fam])
_add_general()

def _add_shared():
    """clauses reported under a property through registry.ALSO get their text from the property that owns them"""
    from sa import registry
    for prop, srcs in registry.ALSO.items():
        for src, clauses in srcs.items():
            for c in clauses:
                if c not in P[prop]["decided"] and c in P[src]["decided"]:
                    P[prop]["decided"][c] = "(shared with %s) %s" % (src, P[src]["decided"][c])
_add_shared()
