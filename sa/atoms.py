"""A4: path-atom interpreter (decision-table extraction), lazy version.

A region (list of statements) is walked depth-first. Branch conditions are decomposed into boolean atoms; when
an atom is met that has no value on the current path, the path forks. A row is one complete path: the partial
valuation that selects it, the statements passed (effects) and how the region is left. Nothing of the analysed
program is executed: conditions are evaluated by this module over the valuation only.
"""
import ast, copy
from sa.util import clone as _clone
from sa.util import AnalysisError
class Unsupported(AnalysisError): pass
class _Need(Exception):
    def __init__(s, atom): s.atom = atom
def _eval(test, val):
    if isinstance(test, ast.BoolOp):
        if isinstance(test.op, ast.And):
            for v in test.values:
                if not _eval(v, val): return False
            return True
        for v in test.values:
            if _eval(v, val): return True
        return False
    if isinstance(test, ast.UnaryOp) and isinstance(test.op, ast.Not): return not _eval(test.operand, val)
    if isinstance(test, ast.Constant): return bool(test.value)
    k, pol = canon(_EXPAND(test) if _EXPAND else test)
    if k not in val: raise _Need(k)
    return val[k] == pol
_EXPAND = None      # optional alias expansion applied to every atom (set by table(expand=...))
_NEG = {ast.NotEq: ast.Eq, ast.NotIn: ast.In, ast.IsNot: ast.Is}
def canon(test):
    """canonical atom text and polarity: a != b  ->  ('a == b', False) etc."""
    if isinstance(test, ast.Compare) and len(test.ops) == 1 and type(test.ops[0]) in _NEG:
        pos = ast.Compare(left=test.left, ops=[_NEG[type(test.ops[0])]()], comparators=test.comparators)
        return ast.unparse(pos), False
    return ast.unparse(test), True
class _Exit(Exception):
    def __init__(s, kind, node): s.kind, s.node = kind, node
class Row:
    def __init__(s, val, effects, exit_kind, exit_node): s.val, s.effects, s.exit_kind, s.exit_node = val, effects, exit_kind, exit_node
    def exit_text(s): return " ".join(ast.unparse(s.exit_node).split()) if s.exit_node is not None else ""
    def get(s, atom, default=None): return s.val.get(atom, default)
def _has_ifexp(node): return any(isinstance(n, ast.IfExp) for n in ast.walk(node))
def resolve_ifexp(node, val):
    if not _has_ifexp(node): return node
    class T(ast.NodeTransformer):
        def visit_IfExp(self, n):
            n = self.generic_visit(n)
            return n.body if _eval(n.test, val) else n.orelse
    return ast.fix_missing_locations(T().visit(_clone(node)))
def _walk(stmts, val, eff):
    for s in stmts:
        if isinstance(s, ast.If): _walk(s.body if _eval(s.test, val) else s.orelse, val, eff)
        elif isinstance(s, ast.Return): raise _Exit("return", resolve_ifexp(s, val))
        elif isinstance(s, ast.Raise): raise _Exit("raise", s)
        elif isinstance(s, ast.Break): raise _Exit("break", s)
        elif isinstance(s, ast.Continue): raise _Exit("continue", s)
        elif isinstance(s, (ast.Assign, ast.AugAssign, ast.AnnAssign, ast.Expr, ast.Delete, ast.Assert)):
            if isinstance(s, ast.Expr) and isinstance(s.value, ast.Constant) and isinstance(s.value.value, str): continue
            eff.append(resolve_ifexp(s, val))
        elif isinstance(s, ast.For):
            eff.append(ast.Expr(value=s.iter))
            broke = False
            try: _walk(s.body, val, eff)
            except _Exit as e:
                if e.kind == "break": broke = True
                elif e.kind != "continue": raise
            if not broke: _walk(s.orelse, val, eff)
        elif isinstance(s, ast.While):
            if _eval(s.test, val):
                try: _walk(s.body, val, eff)
                except _Exit as e:
                    if e.kind not in ("break", "continue"): raise
        elif isinstance(s, ast.With): _walk(s.body, val, eff)
        elif isinstance(s, ast.Try):
            _walk(s.body, val, eff); _walk(s.orelse, val, eff); _walk(s.finalbody, val, eff)
        elif isinstance(s, (ast.Import, ast.ImportFrom, ast.Pass, ast.FunctionDef, ast.ClassDef, ast.Global, ast.Nonlocal)): pass
        else: raise Unsupported(type(s).__name__)
_parsed = {}
def _parse_atom(k):
    if k not in _parsed:
        try: _parsed[k] = ast.parse(k, mode="eval").body
        except SyntaxError: _parsed[k] = None
    return _parsed[k]
import operator as _op
_OPS = {ast.Eq: _op.eq, ast.NotEq: _op.ne, ast.Lt: _op.lt, ast.LtE: _op.le, ast.Gt: _op.gt, ast.GtE: _op.ge}
def len_atom(k):
    t = _parse_atom(k)
    if isinstance(t, ast.Compare) and len(t.ops) == 1 and isinstance(t.left, ast.Call) and getattr(t.left.func, "id", "") == "len" \
       and isinstance(t.comparators[0], ast.Constant) and isinstance(t.comparators[0].value, int) and type(t.ops[0]) in _OPS:
        return ast.unparse(t.left.args[0]), t.ops[0], t.comparators[0].value
    return None
def len_feasible(val):
    groups = {}
    for k, v in val.items():
        la = len_atom(k)
        if la: groups.setdefault(la[0], []).append((la[1], la[2], v))
    for x, cs in groups.items():
        if not any(all(_OPS[type(o)](n, k) == v for o, k, v in cs) for n in range(0, 6)): return False
    return True
def table(stmts, feasible=len_feasible, max_rows=4096, expand=None):
    global _EXPAND
    _EXPAND = expand
    try: return _table(stmts, feasible, max_rows)
    finally: _EXPAND = None
def _table(stmts, feasible, max_rows):
    rows = []; stack = [{}]
    while stack:
        val = stack.pop()
        if feasible and not feasible(val): continue
        eff = []
        try:
            _walk(stmts, val, eff); rows.append(Row(val, eff, "fall", None))
        except _Need as n:
            for b in (True, False):
                v2 = dict(val); v2[n.atom] = b; stack.append(v2)
            continue
        except _Exit as e: rows.append(Row(val, eff, e.kind, e.node))
        if len(rows) > max_rows: raise Unsupported("too many paths")
    names = sorted({a for r in rows for a in r.val})
    from sa import util as _u; _u.STATS.counters["decision_tables"] += 1; _u.STATS.counters["table_rows"] += len(rows)
    return names, rows
def card_row(rows, var, n):
    """the rows consistent with len(var) == n (for atoms of the form len(var) <op> k or plain truthiness of var)"""
    out = []
    for r in rows:
        ok = True
        for a, v in r.val.items():
            la = len_atom(a)
            if la and la[0] == var: ok = ok and (_OPS[type(la[1])](n, la[2]) == v)
            elif a == var: ok = ok and ((n > 0) == v)
        if ok: out.append(r)
    return out
def group(rows, key):
    g = {}
    for r in rows: g.setdefault(key(r), []).append(r)
    return g

def consistent(row, want):
    """want: callable atom -> bool (may raise for unknown atoms). True if every atom decided on this path agrees."""
    return all(want(a) == v for a, v in row.val.items())
def select(rows, want):
    return [r for r in rows if consistent(r, want)]
