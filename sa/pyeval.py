"""A small evaluator for pure string expressions of the analysed program (AST in, value out) — used to decide what a
normalisation / conversion expression computes on sample inputs without importing or running any textX code.
Whitelisted subset: constants, names from the given environment, conditional expressions, and/or/not, +, ==, !=, in,
slicing/indexing, f-strings, and str methods (whose semantics are Python's own: trusted base).
Anything else raises Unsupported (an analysis error for the caller)."""
import ast
from sa.util import AnalysisError
class Unsupported(AnalysisError): pass
def _class_constant(name, env, cls_name=None):
    """a class-level constant (`NAME = <literal table>` in the body of a class of the analysed module): looked up through self / cls /
    the class name.  The classes are those whose methods are in env["__functions__"] or env["__classdefs__"]."""
    classes = {}
    for f_ in (env.get("__functions__") or {}).values():
        p_ = getattr(f_, "_parent", None)
        if isinstance(p_, ast.ClassDef): classes.setdefault(p_.name, p_)
    for n_, c_ in (env.get("__classdefs__") or {}).items(): classes.setdefault(n_, c_)
    for cn_, c_ in classes.items():
        if cls_name is not None and cn_ != cls_name: continue
        for st_ in c_.body:
            if isinstance(st_, (ast.Assign, ast.AnnAssign)) and st_.value is not None and any(isinstance(t_, ast.Name) and t_.id == name for t_ in (st_.targets if isinstance(st_, ast.Assign) else [st_.target])):
                mod_ = c_
                while mod_ is not None and not isinstance(mod_, ast.Module): mod_ = getattr(mod_, "_parent", None)
                env2 = dict(TRUSTED); env2["__module__"] = mod_ if mod_ is not None else env.get("__module__")
                for k_ in ("__classes__",):
                    if k_ in env: env2[k_] = env[k_]
                for k_, v_ in env.items():          # names the table may mention: constructors / classes the analysis stands in for
                    if isinstance(v_, (PyFn, ClassRef)) and isinstance(k_, str) and "." not in k_: env2.setdefault(k_, v_)
                try: return True, evaluate(st_.value, env2)
                except (Unsupported, Raised): return False, None
    return False, None
import types
def close_generators(): pass        # generators of the analysed code are Python generators of the interpreter: nothing to release
def _own_yield(fn_):
    r_ = getattr(fn_, "_own_yield", None)
    if r_ is None: r_ = fn_._own_yield = _own_yield0(fn_)
    return r_
def _own_yield0(fn_):
    todo = list(fn_.body)
    while todo:
        n_ = todo.pop()
        if isinstance(n_, (ast.Yield, ast.YieldFrom)): return True
        if isinstance(n_, (ast.FunctionDef, ast.Lambda, ast.ClassDef)): continue
        todo.extend(ast.iter_child_nodes(n_))
    return False
def _gen_call(body, env2):
    """a call of a generator function of the analysed code: on demand (env["__lazygen__"]: a Python generator that interprets the body
    as far as the consumer asks, so side effects happen in the order Python gives them) or eagerly (the list of the yielded values)"""
    if env2.get("__lazygen__"): return _exec(body, env2, 20000)
    env2["__yield__"] = []; run_block(body, env2); return env2["__yield__"]
def _iterate(v, env):
    """the items a for-loop / comprehension / list() sees: an interpreted instance iterates through its __iter__"""
    if isinstance(v, Inst) and env.get("__classdefs__"):
        c_, f_ = find_method(env["__classdefs__"], v[".__cls__"], "__iter__")
        if f_ is None: raise Raised("TypeError")
        r_ = call_method_of(v, c_, f_, [], {}, env)
        return r_ if isinstance(r_, types.GeneratorType) else list(r_)
    if isinstance(v, types.GeneratorType): return v
    return list(v)
def _native(f, args):
    """a builtin applied to values of the evaluated program: its TypeError / ValueError is the program's"""
    try: return f(*args)
    except (TypeError, ValueError) as x_: raise Raised(type(x_).__name__, str(x_))
def _kwargs(keywords, env):
    """keyword arguments of a call, `**mapping` expanded"""
    out_ = {}
    for k in keywords:
        if k.arg is None:
            m_ = evaluate(k.value, env)
            if not isinstance(m_, dict): raise Unsupported("** of a non-dict")
            out_.update(m_)
        else: out_[k.arg] = evaluate(k.value, env)
    return out_
def _args(args, env):
    out_ = []
    for a in args:
        if isinstance(a, ast.Starred): out_.extend(_iterate(evaluate(a.value, env), env))
        else: out_.append(evaluate(a, env))
    return out_
def evaluate(e, env):
    if isinstance(e, ast.Constant): return e.value
    if isinstance(e, ast.Attribute):
        key = ast.unparse(e)
        if key in env: return env[key]
        try: base = evaluate(e.value, env)
        except Unsupported: raise Unsupported("attribute %s" % key)
        if isinstance(base, dict) and ("." + e.attr) in base: return base["." + e.attr]      # sample object: {'.attr': value}
        if isinstance(base, SList) and e.attr in base.sample_attrs: return base.sample_attrs[e.attr]
        if isinstance(base, Inst) and ("." + e.attr) not in base and env.get("__classdefs__"):
            c_, f_ = find_method(env["__classdefs__"], base[".__cls__"], e.attr)
            if f_ is not None and any(isinstance(d_, ast.Name) and d_.id == "property" for d_ in f_.decorator_list): return call_method_of(base, c_, f_, [], {}, env)
            if f_ is not None: return PyFn(lambda *a, _c=c_, _f=f_, _b=base, **k: call_method_of(_b, _c, _f, list(a), k, env))       # a bound method used as a value
            for cn_ in _mro(env["__classdefs__"], base[".__cls__"]):            # a class-level constant of the instance's class or a base class
                fc_, vc_ = _class_constant(e.attr, env, cn_)
                if fc_: return vc_
            if e.attr != "__dict__" and e.attr != "__class__": raise Raised("AttributeError")
        if isinstance(base, dict) and e.attr == "__dict__" and (isinstance(base, Inst) or any(isinstance(k_, str) and k_.startswith(".") for k_ in base)): return _AttrDict(base)
        if isinstance(base, Inst) and e.attr == "__class__": return {".__name__": base[".__cls__"], ".kind": "cls"}
        if isinstance(base, (dict, ClassRef)) and not isinstance(base, Inst):
            f_, v_ = _class_constant(e.attr, env, base.name if isinstance(base, ClassRef) else None)
            if f_: return v_
        h_ = (env.get("__functions__") or {}).get(e.attr)
        if isinstance(base, (dict, ClassRef)) and not isinstance(base, Inst) and h_ is not None and isinstance(getattr(h_, "_parent", None), ast.ClassDef) and not any(isinstance(d_, ast.Name) and d_.id == "property" for d_ in h_.decorator_list):
            # a method of the sample's class used as a value (e.g. a staticmethod put into a table): calling it interprets the method
            static_ = any(isinstance(d_, ast.Name) and d_.id == "staticmethod" for d_ in h_.decorator_list)
            def _bound(*a, _h=h_, _b=base, _st=static_, **k):
                ps_ = [x.arg for x in _h.args.args]
                env2 = dict(env); env2["__depth__"] = env.get("__depth__", 0) + 1; env2["__global_names__"] = set()
                if env2["__depth__"] > env.get("__maxdepth__", 12): raise Unsupported("recursion depth")
                if not _st and ps_: env2[ps_[0]] = _b; ps_ = ps_[1:]
                dfl = dict(zip([x.arg for x in _h.args.args][len(_h.args.args) - len(_h.args.defaults):], _h.args.defaults))
                for n_, d_ in dfl.items(): env2[n_] = evaluate(d_, env)
                if len(a) > len(ps_): raise Raised("TypeError")
                env2.update(zip(ps_, a)); env2.update(k)
                return run_block(_h.body, env2)
            return PyFn(_bound)
        if isinstance(base, dict) and h_ is not None and any(isinstance(d_, ast.Name) and d_.id == "property" for d_ in h_.decorator_list) and h_.args.args and env.get("__depth__", 0) < 6:
            env2 = dict(env); env2["__depth__"] = env.get("__depth__", 0) + 1; env2[h_.args.args[0].arg] = base       # a property of the sample's class: its getter is interpreted
            for k_ in [k_ for k_ in env2 if isinstance(k_, str) and k_.startswith(h_.args.args[0].arg + ".")]: del env2[k_]
            return run_block(h_.body, env2)
        if isinstance(base, dict) and (base.get(".__complete__") == "all" or (base.get(".__complete__") and e.attr.startswith("_") and not e.attr.startswith("__") and e.attr not in (env.get("__functions__") or {}))):
            raise Raised("AttributeError")           # the sample was built by interpreting its constructor: a private field the constructor does not set does not exist
        if isinstance(base, PyFn) and base.fn is str and e.attr == "maketrans": return PyFn(str.maketrans)
        if isinstance(base, str) and e.attr in ("format", "join", "startswith", "endswith", "lower", "upper", "strip", "replace", "split"): return PyFn(getattr(base, e.attr))
        if isinstance(base, Trusted):
            if e.attr not in base.names: raise Unsupported("%s.%s is outside the trusted part of the standard library" % (getattr(base.obj, "__name__", "?"), e.attr))
            v_ = getattr(base.obj, e.attr)
            if isinstance(v_, type) and not issubclass(v_, BaseException): return PyFn(lambda *a, _f=v_, **k: _trusted_call(_f, [(x.fn if isinstance(x, PyFn) else x) for x in a], k))
            if isinstance(v_, _BoundedItertools._Chain):
                f_ = PyFn(lambda *a, _f=v_, **k: _trusted_call(_f, a, k)); f_.from_iterable = PyFn(lambda its_: _BoundedItertools._Chain.from_iterable(_iterate(its_, env) if isinstance(its_, Inst) else its_)); return f_
            return PyFn(lambda *a, _f=v_, **k: _trusted_call(_f, a, k)) if callable(v_) and not isinstance(v_, type) else v_
        if isinstance(base, _re.Pattern) and e.attr in ("pattern", "flags"): return getattr(base, e.attr)
        if e.attr == "__class__" and (base is None or isinstance(base, (str, int, float, tuple, list, set, frozenset, bytes))) and not isinstance(base, SList): return PyFn(type(base))      # the class of a primitive value
        if isinstance(base, PyFn) and e.attr == "from_iterable" and isinstance(getattr(base, "from_iterable", None), PyFn): return base.from_iterable
        if isinstance(base, PyFn) and isinstance(base.fn, type) and e.attr == "__name__": return base.fn.__name__
        if isinstance(base, type) and base in (int, float, str, bool, list, dict, tuple, set, type(None)) and e.attr == "__name__": return base.__name__
        if isinstance(base, InstObj):
            if e.attr == "__dict__": return base.own
            if e.attr == "__class__": return base.cls
            f_, v_ = base.lookup(e.attr)
            if f_: return v_
            raise Raised("AttributeError")
        if isinstance(base, ClassObj):
            if e.attr == "__dict__": return base.own
            if e.attr == "__name__": return base.name
            f_, v_ = base.lookup(e.attr)
            if f_: return v_
            raise Raised("AttributeError")
        raise Unsupported("attribute %s" % key)
    if isinstance(e, (ast.ListComp, ast.GeneratorExp, ast.SetComp, ast.DictComp)):
        out = []
        def gen(i, env2):
            if i == len(e.generators): out.append((evaluate(e.key, env2), evaluate(e.value, env2)) if isinstance(e, ast.DictComp) else evaluate(e.elt, env2)); return
            g = e.generators[i]
            def bind(tg, v, env3):
                if isinstance(tg, ast.Name): env3[tg.id] = v
                elif isinstance(tg, (ast.Tuple, ast.List)):
                    v = list(v)
                    if len(v) != len(tg.elts): raise Unsupported("comprehension unpacking arity")
                    for t_, x_ in zip(tg.elts, v): bind(t_, x_, env3)
                else: raise Unsupported("comprehension target")
            for v in _iterate(evaluate(g.iter, env2), env2):
                env3 = dict(env2); bind(g.target, v, env3)
                if all(evaluate(c, env3) for c in g.ifs): gen(i + 1, env3)
        gen(0, env); return dict(out) if isinstance(e, ast.DictComp) else (set(out) if isinstance(e, ast.SetComp) else out)
    if isinstance(e, ast.Name):
        if e.id in env and e.id not in env.get("__global_names__", ()): return env[e.id]
        if e.id in (env.get("__globals__") or {}): return env["__globals__"][e.id]      # module-level state shared by all interpreted functions
        if e.id in env: return env[e.id]
        if e.id in (env.get("__functions__") or {}): return DefClosure(env["__functions__"][e.id], env)      # a function of the analysed module used as a value
        if any(isinstance(getattr(f_, "_parent", None), ast.ClassDef) and f_._parent.name == e.id for f_ in (env.get("__functions__") or {}).values()): return ClassRef(e.id)
        if e.id in TRUSTED: return TRUSTED[e.id]            # a whitelisted standard-library module the analysed file imports under its own name
        if e.id in ("list", "dict", "set", "tuple", "str", "int", "float", "bool", "frozenset"): return PyFn({"list": list, "dict": dict, "set": set, "tuple": tuple, "str": str, "int": int, "float": float, "bool": bool, "frozenset": frozenset}[e.id])    # a builtin type used as a value (e.g. defaultdict(list))
        if e.id == "object": return ClassRef("object")
        if e.id in ("id", "len", "str", "repr", "callable"): return PyFn({"id": id, "len": len, "str": str, "repr": repr, "callable": callable}[e.id])      # a builtin used as a value (map(id, ...))
        if e.id in ("staticmethod", "classmethod"): return PyFn(lambda f: f)        # as a call in a class body: the wrapped callable itself
        if e.id in ("defaultdict", "OrderedDict"): return PyFn(lambda *a, _n=e.id, **k: getattr(__import__("collections"), _n)(*[(x.fn if isinstance(x, PyFn) else x) for x in a], **k))
        # a module-level constant of the analysed file (env["__module__"]: its ast.Module): literal tables and strings
        mod = env.get("__module__")
        if mod is None:
            for f_ in (env.get("__functions__") or {}).values():
                mod = f_
                while mod is not None and not isinstance(mod, ast.Module): mod = getattr(mod, "_parent", None)
                if mod is not None: break
        if mod is not None:
            for st_ in mod.body:
                # `from operator import attrgetter`, `import operator as op` at module level: a name of the trusted standard-library part
                if isinstance(st_, ast.ImportFrom) and st_.module in TRUSTED:
                    for a_ in st_.names:
                        if (a_.asname or a_.name) == e.id: return evaluate(ast.Attribute(value=ast.Name(id=st_.module, ctx=ast.Load()), attr=a_.name, ctx=ast.Load()), dict(TRUSTED))
                if isinstance(st_, ast.Import):
                    for a_ in st_.names:
                        if a_.asname == e.id and a_.name in TRUSTED: return TRUSTED[a_.name]
                if isinstance(st_, (ast.Assign, ast.AnnAssign)) and st_.value is not None and any(isinstance(t_, ast.Name) and t_.id == e.id for t_ in (st_.targets if isinstance(st_, ast.Assign) else [st_.target])):
                    cenv_ = dict(TRUSTED)
                    for k_, x_ in env.items():          # constants / stand-ins the analysis supplied (imported names such as MULT_ONE, constructors)
                        if isinstance(k_, str) and (k_.isupper() or isinstance(x_, (PyFn, ClassRef)) or k_ in ("__classes__", "__functions__", "__classdefs__")) and "." not in k_: cenv_[k_] = x_
                    cenv_.update({"__module__": mod, "__depth_const__": env.get("__depth_const__", 0) + 1})
                    try: v_ = evaluate(st_.value, cenv_) if env.get("__depth_const__", 0) < 10 else None
                    except (Unsupported, Raised): break
                    return v_
        if e.id in env.get("__assigned__", ()): raise Raised("UnboundLocalError", "local variable %r referenced before assignment" % e.id)      # a local of the interpreted function read before it is bound
        raise Unsupported("name %s " % e.id)
    if isinstance(e, ast.IfExp): return evaluate(e.body, env) if evaluate(e.test, env) else evaluate(e.orelse, env)
    if isinstance(e, ast.BoolOp):
        v = None
        for x in e.values:
            v = evaluate(x, env)
            if isinstance(e.op, ast.And) and not v: return v
            if isinstance(e.op, ast.Or) and v: return v
        return v
    if isinstance(e, ast.UnaryOp) and isinstance(e.op, ast.Not): return not evaluate(e.operand, env)
    if isinstance(e, ast.UnaryOp) and isinstance(e.op, ast.USub): return -evaluate(e.operand, env)
    if isinstance(e, ast.BinOp) and isinstance(e.op, (ast.BitOr, ast.BitAnd)):
        l_, r_ = evaluate(e.left, env), evaluate(e.right, env)
        try: return l_ | r_ if isinstance(e.op, ast.BitOr) else l_ & r_
        except TypeError: raise Raised("TypeError")
    if isinstance(e, ast.BinOp) and isinstance(e.op, (ast.Add, ast.Sub, ast.Mult)):
        l_, r_ = evaluate(e.left, env), evaluate(e.right, env)
        try: return l_ + r_ if isinstance(e.op, ast.Add) else (l_ - r_ if isinstance(e.op, ast.Sub) else l_ * r_)
        except TypeError: raise Raised("TypeError")
    if isinstance(e, ast.Compare) and len(e.ops) == 1:
        a, b = evaluate(e.left, env), evaluate(e.comparators[0], env); op = e.ops[0]
        if isinstance(op, ast.Eq): return a == b
        if isinstance(op, ast.NotEq): return a != b
        if isinstance(op, (ast.In, ast.NotIn)) and isinstance(b, Inst) and env.get("__classdefs__"):
            c_, f_ = find_method(env["__classdefs__"], b[".__cls__"], "__contains__")
            if f_ is not None: r_ = bool(call_method_of(b, c_, f_, [a], {}, env))
            else:
                c_, f_ = find_method(env["__classdefs__"], b[".__cls__"], "__iter__")
                if f_ is None: raise Raised("TypeError")
                r_ = any(x_ is a or x_ == a for x_ in list(call_method_of(b, c_, f_, [], {}, env)))
            return r_ if isinstance(op, ast.In) else not r_
        if isinstance(op, (ast.In, ast.NotIn)) and isinstance(b, dict) and not isinstance(b, Inst) and b is env.get("self") and any(isinstance(k_, str) and k_.startswith(".") for k_ in b):
            # `x in self` inside a method of a class whose object is a sample: the class's own __contains__ decides
            f_ = (env.get("__functions__") or {}).get("__contains__")
            if f_ is not None and isinstance(getattr(f_, "_parent", None), ast.ClassDef):
                env["__in_left__"] = a
                try: r_ = bool(evaluate(ast.Call(func=ast.Attribute(value=ast.Name(id="self", ctx=ast.Load()), attr="__contains__", ctx=ast.Load()), args=[ast.Name(id="__in_left__", ctx=ast.Load())], keywords=[]), env))
                finally: env.pop("__in_left__", None)
                return r_ if isinstance(op, ast.In) else not r_
            raise Unsupported("membership test on the sample object self")
        if isinstance(op, ast.In): return _native(lambda: a in b, ())          # an unhashable sample looked up in a set / dict: the program's TypeError
        if isinstance(op, ast.NotIn): return _native(lambda: a not in b, ())
        if isinstance(op, (ast.Is, ast.IsNot)):
            # a builtin type is the same object however it was reached: the name tuple (a PyFn around the type) and type(x)
            a_ = a.fn if isinstance(a, PyFn) and isinstance(a.fn, type) else a; b_ = b.fn if isinstance(b, PyFn) and isinstance(b.fn, type) else b
            return (a_ is b_) if isinstance(op, ast.Is) else (a_ is not b_)
        if isinstance(op, ast.Lt): return a < b
        if isinstance(op, ast.LtE): return a <= b
        if isinstance(op, ast.Gt): return a > b
        if isinstance(op, ast.GtE): return a >= b
    if isinstance(e, (ast.Tuple, ast.List)):
        out_ = []
        for x in e.elts:
            if isinstance(x, ast.Starred): out_.extend(list(evaluate(x.value, env)))
            else: out_.append(evaluate(x, env))
        return tuple(out_) if isinstance(e, ast.Tuple) else out_
    if isinstance(e, ast.Lambda): return Closure(e, env)
    if isinstance(e, ast.Dict):
        d_ = {}
        for k, v in zip(e.keys, e.values):
            if k is None: d_.update(evaluate(v, env))
            else: d_[evaluate(k, env)] = evaluate(v, env)
        return d_
    if isinstance(e, ast.Subscript):
        v = evaluate(e.value, env)
        if isinstance(v, Inst) and env.get("__classdefs__") and not isinstance(e.slice, ast.Slice):
            c_, f_ = find_method(env["__classdefs__"], v[".__cls__"], "__getitem__")
            if f_ is not None: return call_method_of(v, c_, f_, [evaluate(e.slice, env)], {}, env)
        if isinstance(v, dict) and not isinstance(v, Inst) and v is env.get("self") and not isinstance(e.slice, ast.Slice) and any(isinstance(k_, str) and k_.startswith(".") for k_ in v):
            # `self[key]` inside a method of a class whose object is a sample: the class's own __getitem__
            f_ = (env.get("__functions__") or {}).get("__getitem__")
            if f_ is not None and isinstance(getattr(f_, "_parent", None), ast.ClassDef):
                env["__sub_key__"] = evaluate(e.slice, env)
                try: return evaluate(ast.Call(func=ast.Attribute(value=ast.Name(id="self", ctx=ast.Load()), attr="__getitem__", ctx=ast.Load()), args=[ast.Name(id="__sub_key__", ctx=ast.Load())], keywords=[]), env)
                finally: env.pop("__sub_key__", None)
        if isinstance(e.slice, ast.Slice):
            lo = evaluate(e.slice.lower, env) if e.slice.lower else None; hi = evaluate(e.slice.upper, env) if e.slice.upper else None
            st = evaluate(e.slice.step, env) if e.slice.step else None
            return v[lo:hi:st]
        try: return v[evaluate(e.slice, env)]
        except KeyError: raise Raised("KeyError")
        except IndexError: raise Raised("IndexError")
        except TypeError as te: raise Unsupported("subscript: %s" % te)
    if isinstance(e, ast.JoinedStr):
        return "".join(text_of(evaluate(v.value, env), env) if isinstance(v, ast.FormattedValue) else v.value for v in e.values)
    if isinstance(e, ast.Call):
        if isinstance(e.func, ast.Attribute) and isinstance(e.func.value, ast.Call) and not (isinstance(e.func.value.func, ast.Name) and e.func.value.func.id == "super"):
            # a call on the result of a call (blueprint.clone().get_model_from_str(...)): the receiver is evaluated exactly once,
            # whichever of the cases below looks at it
            key_ = "__recv_%d__" % id(e)
            if key_ not in env:
                try: rv_ = evaluate(e.func.value, env); have_ = True
                except Unsupported: have_ = False
                if have_:
                    e2_ = ast.Call(func=ast.Attribute(value=ast.Name(id=key_, ctx=ast.Load()), attr=e.func.attr, ctx=ast.Load()), args=e.args, keywords=e.keywords)
                    ast.copy_location(e2_, e); ast.copy_location(e2_.func, e.func); ast.copy_location(e2_.func.value, e.func.value)
                    env[key_] = rv_
                    try: return evaluate(e2_, env)
                    finally: env.pop(key_, None)
        if isinstance(e.func, ast.Attribute) and e.func.attr in ("replace", "strip", "lstrip", "rstrip", "removeprefix", "removesuffix", "startswith", "endswith", "lower", "upper", "casefold", "join", "split", "rsplit", "partition", "rpartition", "format", "translate", "count", "find", "rfind", "index", "isdigit", "isalpha", "isalnum", "isidentifier", "isupper", "islower", "isspace", "title", "capitalize", "zfill", "splitlines", "expandtabs", "ljust", "rjust", "center", "swapcase"):
            recv = evaluate(e.func.value, env)
            if isinstance(recv, str): return getattr(recv, e.func.attr)(*_args(e.args, env))      # Python's own str semantics (trusted base)
        if isinstance(e.func, ast.Attribute) and e.func.attr in ("read", "getvalue", "readline", "readlines", "write", "seek", "close"):
            try: recv_ = evaluate(e.func.value, env)
            except Unsupported: recv_ = None
            if isinstance(recv_, _io.StringIO): return _trusted_call(getattr(recv_, e.func.attr), _args(e.args, env), _kwargs(e.keywords, env))       # an in-memory text buffer of the trusted standard library
        if isinstance(e.func, ast.Attribute) and e.func.attr in _PATTERN_METHODS + _MATCH_METHODS:
            try: recv_ = evaluate(e.func.value, env)
            except Unsupported: recv_ = None
            if (isinstance(recv_, _re.Pattern) and e.func.attr in _PATTERN_METHODS) or (isinstance(recv_, _re.Match) and e.func.attr in _MATCH_METHODS):
                r_ = _trusted_call(getattr(recv_, e.func.attr), _args(e.args, env), _kwargs(e.keywords, env))
                return list(r_) if e.func.attr == "finditer" else r_
        if isinstance(e.func, ast.Name) and e.func.id in ("list", "tuple", "set", "sorted") and len(e.args) == 1 and not e.keywords and env.get("__classdefs__") and e.func.id not in env:
            v_ = evaluate(e.args[0], env)
            if isinstance(v_, Inst): return {"list": list, "tuple": tuple, "set": set, "sorted": sorted}[e.func.id](_iterate(v_, env))
        if isinstance(e.func, ast.Name) and e.func.id == "len" and len(e.args) == 1 and env.get("__classdefs__"):
            v_ = evaluate(e.args[0], env)
            if isinstance(v_, Inst):
                c_, f_ = find_method(env["__classdefs__"], v_[".__cls__"], "__len__")
                if f_ is None: raise Raised("TypeError")
                return call_method_of(v_, c_, f_, [], {}, env)
            return _native(len, [v_])
        if isinstance(e.func, ast.Name) and e.func.id == "iter" and len(e.args) == 1 and "iter" not in env: return list(evaluate(e.args[0], env))
        if isinstance(e.func, ast.Name) and e.func.id == "dict" and "dict" not in env and e.keywords:
            d_ = dict(*_args(e.args, env))
            for k in e.keywords:
                if k.arg is None: d_.update(evaluate(k.value, env))
                else: d_[k.arg] = evaluate(k.value, env)
            return d_
        if isinstance(e.func, ast.Name) and e.func.id in ("str", "repr") and len(e.args) == 1 and not e.keywords and e.func.id not in env and env.get("__classdefs__"):
            v_ = evaluate(e.args[0], env)
            return text_of(v_, env) if isinstance(v_, (Inst, list)) else (str(v_) if e.func.id == "str" else repr(v_))
        if isinstance(e.func, ast.Name) and e.func.id in ("len", "str", "bool", "list", "tuple", "sorted", "set", "dict", "id", "type", "any", "all", "sum", "min", "max") and not e.keywords: return _native({"any": any, "all": all, "sum": sum, "min": min, "max": max, "len": len, "str": str, "bool": bool, "list": list, "tuple": tuple, "sorted": sorted, "set": set, "dict": dict, "id": id, "type": lambda o: o.cls if isinstance(o, InstObj) else (o.get(".__class__") if isinstance(o, dict) and ".__class__" in o else type(o))}[e.func.id], _args(e.args, env))
        if isinstance(e.func, ast.Attribute) and e.func.attr == "__new__" and e.args:
            c_ = evaluate(e.func.value, env)
            if isinstance(c_, ClassObj): return InstObj(c_)
        if isinstance(e.func, ast.Name) and e.func.id == "callable" and len(e.args) == 1 and "callable" not in env:
            v_ = evaluate(e.args[0], env); return isinstance(v_, (PyFn, Closure, DefClosure, ClassObj, Callee)) or (isinstance(v_, dict) and v_.get(".kind") == "callable")
        if isinstance(e.func, ast.Name) and e.func.id in ("int", "float") and e.func.id not in env and len(e.args) == 1 and not e.keywords:
            return _trusted_call({"int": int, "float": float}[e.func.id], [evaluate(e.args[0], env)], {})
        if isinstance(e.func, ast.Attribute) and e.func.attr in ("items", "keys", "values", "get", "pop", "clear", "setdefault", "update", "copy") and not e.keywords:
            recv = evaluate(e.func.value, env)
            if isinstance(recv, dict) and not any(isinstance(k_, str) and k_.startswith(".") for k_ in recv):
                try: r_ = getattr(recv, e.func.attr)(*_args(e.args, env))
                except KeyError: raise Raised("KeyError")
                return list(r_) if e.func.attr in ("items", "keys", "values") else r_
        if isinstance(e.func, ast.Attribute) and e.func.attr in ("append", "extend", "remove", "insert", "clear", "pop", "index", "count", "sort", "reverse", "copy") and not e.keywords:
            recv = evaluate(e.func.value, env)
            if isinstance(recv, list):
                try: return getattr(recv, e.func.attr)(*_args(e.args, env))
                except ValueError: raise Raised("ValueError")
                except IndexError: raise Raised("IndexError")
        if (isinstance(e.func, ast.Attribute) and e.func.attr == "sort" or isinstance(e.func, ast.Name) and e.func.id == "sorted" and "sorted" not in env) and e.keywords and all(k.arg in ("key", "reverse") for k in e.keywords):
            # list.sort(key=..., reverse=...) / sorted(x, key=..., reverse=...): the key function is the interpreted closure
            kw_ = {k.arg: evaluate(k.value, env) for k in e.keywords}
            if "key" in kw_ and not callable(kw_["key"]): raise Unsupported("sort key")
            try:
                if isinstance(e.func, ast.Attribute):
                    recv = evaluate(e.func.value, env)
                    if isinstance(recv, list) and not e.args: recv.sort(**kw_); return None
                elif len(e.args) == 1: return sorted(list(_iterate(evaluate(e.args[0], env), env)), **kw_)
            except TypeError as x_: raise Raised("TypeError", str(x_))
        if isinstance(e.func, ast.Attribute) and e.func.attr in ("add", "discard", "remove", "update", "union", "issubset", "copy") and not e.keywords:
            recv = evaluate(e.func.value, env)
            if isinstance(recv, set):
                try: return getattr(recv, e.func.attr)(*_args(e.args, env))
                except KeyError: raise Raised("KeyError")
                except TypeError: raise Raised("TypeError")
        if isinstance(e.func, ast.Name) and e.func.id in ("setattr", "delattr", "hasattr", "getattr") and e.args and isinstance(evaluate(e.args[0], env), (ClassObj, InstObj)):
            c_ = evaluate(e.args[0], env); n_ = evaluate(e.args[1], env)
            if e.func.id == "setattr": c_.own[n_] = evaluate(e.args[2], env); return None
            if e.func.id == "delattr":
                if n_ not in c_.own: raise Raised("AttributeError")
                del c_.own[n_]; return None
            f_, v_ = c_.lookup(n_)
            if e.func.id == "hasattr": return f_
            if f_: return v_
            if len(e.args) == 3: return evaluate(e.args[2], env)
            raise Raised("AttributeError")
        if isinstance(e.func, ast.Name) and e.func.id == "locals" and not e.args: return env
        if isinstance(e.func, ast.Name) and e.func.id == "vars" and len(e.args) == 1 and "vars" not in env:
            o_ = evaluate(e.args[0], env)
            if isinstance(o_, (ClassObj, InstObj)): return o_.own
            if isinstance(o_, dict) and any(isinstance(k_, str) and k_.startswith(".") for k_ in o_): return {k_[1:]: v_ for k_, v_ in o_.items() if isinstance(k_, str) and k_.startswith(".") and not k_.startswith(".__")}
            raise Raised("TypeError", "vars() argument must have __dict__ attribute")
        if isinstance(e.func, ast.Name) and e.func.id == "delattr" and len(e.args) == 2:
            base = evaluate(e.args[0], env); key = "." + evaluate(e.args[1], env)
            if not isinstance(base, dict) or key not in base: raise Raised("AttributeError")
            del base[key]; return None
        if isinstance(e.func, ast.Name) and e.func.id == "setattr" and len(e.args) == 3:
            base = evaluate(e.args[0], env)
            if not isinstance(base, dict): raise Unsupported("setattr on " + type(base).__name__)
            base["." + evaluate(e.args[1], env)] = evaluate(e.args[2], env); return None
        if isinstance(e.func, ast.Name) and e.func.id in ("hasattr", "getattr") and len(e.args) in (2, 3):
            base = evaluate(e.args[0], env); key = "." + evaluate(e.args[1], env)
            has = isinstance(base, dict) and key in base
            if e.func.id == "hasattr": return has
            if has: return base[key]
            if len(e.args) == 3: return evaluate(e.args[2], env)
            raise Raised("AttributeError")
        if isinstance(e.func, ast.Name) and e.func.id in ("map", "filter") and len(e.args) == 2 and e.func.id not in env:
            f_ = evaluate(e.args[0], env); it_ = list(_iterate(evaluate(e.args[1], env), env))
            if f_ is None and e.func.id == "filter": return [x_ for x_ in it_ if x_]
            if not callable(f_): raise Unsupported("%s with a non-callable" % e.func.id)
            if isinstance(f_, PyFn) and f_.fn in (str, repr): f_ = (lambda x_, _env=env: text_of(x_, _env) if isinstance(x_, (Inst, list)) else str(x_))        # str of an interpreted instance goes through its own __str__ / __repr__
            return [f_(x_) for x_ in it_] if e.func.id == "map" else [x_ for x_ in it_ if f_(x_)]
        if isinstance(e.func, ast.Name) and e.func.id == "object" and not e.args and not e.keywords and "object" not in env: return _Sentinel()      # a private sentinel
        if isinstance(e.func, ast.Attribute) and e.func.attr == "fromkeys" and isinstance(e.func.value, ast.Name) and e.func.value.id == "dict" and "dict" not in env and 1 <= len(e.args) <= 2 and not e.keywords:
            a_ = _args(e.args, env); return _native(dict.fromkeys, [list(_iterate(a_[0], env))] + a_[1:])
        if isinstance(e.func, ast.Name) and e.func.id == "next" and 1 <= len(e.args) <= 2 and not e.keywords:
            it_ = evaluate(e.args[0], env)
            if isinstance(it_, types.GeneratorType):
                try: return next(it_)
                except StopIteration:
                    if len(e.args) == 2: return evaluate(e.args[1], env)
                    raise Raised("StopIteration")
            if not isinstance(it_, list): raise Unsupported("next() on " + type(it_).__name__)
            if it_: return it_[0]                      # generator expressions are evaluated eagerly to lists: next() takes the first element
            if len(e.args) == 2: return evaluate(e.args[1], env)
            raise Raised("StopIteration")
        if isinstance(e.func, ast.Name) and e.func.id in ("enumerate", "zip", "reversed") and e.func.id not in env and not e.keywords:
            a_ = _args(e.args, env)
            if e.func.id == "enumerate": return [(i_, x_) for i_, x_ in enumerate(list(a_[0]), *(a_[1:2]))]
            if e.func.id == "zip": return [tuple(x_) for x_ in zip(*[list(v_) for v_ in a_])]
            return list(reversed(list(a_[0])))
        if isinstance(e.func, ast.Name) and e.func.id == "range" and 1 <= len(e.args) <= 3 and not e.keywords: return list(range(*_args(e.args, env)))
        if isinstance(e.func, ast.Name) and e.func.id == "isinstance" and len(e.args) == 2:
            T = {"str": str, "bool": bool, "int": int, "float": float, "list": list, "tuple": tuple, "dict": dict, "set": set}
            sample_classes = dict(env.get("__classes__") or {})
            for cn_ in (env.get("__classdefs__") or {}):
                sample_classes.setdefault(cn_, (lambda v_, cn_=cn_: isinstance(v_, Inst) and cn_ in _mro(env["__classdefs__"], v_[".__cls__"])))
            if isinstance(e.args[1], ast.Name) and e.args[1].id in sample_classes: return bool(sample_classes[e.args[1].id](evaluate(e.args[0], env)))
            if isinstance(e.args[1], ast.Tuple) and e.args[1].elts and all(isinstance(x_, ast.Name) and x_.id in sample_classes for x_ in e.args[1].elts):
                v_ = evaluate(e.args[0], env); return any(bool(sample_classes[x_.id](v_)) for x_ in e.args[1].elts)
            if not (isinstance(e.args[1], ast.Name) and e.args[1].id in T):
                try: cv_ = evaluate(e.args[1], env)
                except Unsupported: cv_ = None
                refs_ = [cv_] if isinstance(cv_, ClassRef) else (list(cv_) if isinstance(cv_, (tuple, list)) and cv_ and all(isinstance(x_, ClassRef) for x_ in cv_) else None)
                if refs_ is not None:
                    if not all(r_.name in sample_classes for r_ in refs_): raise Unsupported("isinstance against " + ast.unparse(e.args[1]))
                    v_ = evaluate(e.args[0], env); return any(bool(sample_classes[r_.name](v_)) for r_ in refs_)
            def ty(x):
                if isinstance(x, ast.Name) and x.id in T: return T[x.id]
                if isinstance(x, ast.Tuple): return tuple(ty(y) for y in x.elts)
                raise Unsupported("isinstance against " + ast.unparse(x))
            return isinstance(evaluate(e.args[0], env), ty(e.args[1]))
        cds = env.get("__classdefs__") or {}
        if cds:
            if isinstance(e.func, ast.Name) and e.func.id in cds and e.func.id not in env:
                return instantiate(e.func.id, _args(e.args, env), _kwargs(e.keywords, env), env)
            if isinstance(e.func, ast.Name) and e.func.id in ("str", "repr") and len(e.args) == 1 and not e.keywords:
                v_ = evaluate(e.args[0], env)
                if isinstance(v_, (Inst, list)): return text_of(v_, env)
            if isinstance(e.func, ast.Attribute) and isinstance(e.func.value, ast.Name) and (e.func.value.id in cds and e.func.value.id not in env or isinstance(env.get(e.func.value.id), ClassRef) and env[e.func.value.id].name in cds):
                # a method called on the class itself: classmethod / staticmethod (alternative constructors)
                cn_ = e.func.value.id if e.func.value.id in cds and e.func.value.id not in env else env[e.func.value.id].name
                c_, f_ = find_method(cds, cn_, e.func.attr)
                if f_ is not None and any(isinstance(d_, ast.Name) and d_.id in ("classmethod", "staticmethod") for d_ in f_.decorator_list):
                    return call_method_of(None, cn_, f_, _args(e.args, env), _kwargs(e.keywords, env), env)
                if f_ is not None and e.args and not isinstance(e.args[0], ast.Starred):
                    # Base.method(self, ...): the plain function of the class applied to an instance
                    a0_ = _args(e.args, env)
                    if isinstance(a0_[0], Inst): return call_method_of(a0_[0], c_, f_, a0_[1:], _kwargs(e.keywords, env), env)
            if isinstance(e.func, ast.Attribute):
                # super().method(...)
                if isinstance(e.func.value, ast.Call) and isinstance(e.func.value.func, ast.Name) and e.func.value.func.id == "super" and env.get("__class__") in cds:
                    self_name = next((k_ for k_, v_ in env.items() if isinstance(v_, Inst) and k_ in ("self",)), None)
                    inst_ = env.get("self")
                    c_, f_ = find_method(cds, inst_[".__cls__"], e.func.attr, after=env["__class__"]) if isinstance(inst_, Inst) else (None, None)
                    if f_ is not None: return call_method_of(inst_, c_, f_, _args(e.args, env), _kwargs(e.keywords, env), env)
                    if e.func.attr == "__init__": return None                     # object.__init__ / a base class outside the module
                    raise Unsupported("super().%s outside the interpreted classes" % e.func.attr)
                try: recv_ = evaluate(e.func.value, env)
                except Unsupported: recv_ = None
                if isinstance(recv_, Inst) and ("." + e.func.attr) not in recv_:
                    c_, f_ = find_method(cds, recv_[".__cls__"], e.func.attr)
                    if f_ is not None: return call_method_of(recv_, c_, f_, _args(e.args, env), _kwargs(e.keywords, env), env)
        # a helper of the analysed module (env["__functions__"]: name -> FunctionDef): interpreted with its parameters bound
        fns = env.get("__functions__") or {}
        hn = e.func.id if isinstance(e.func, ast.Name) else (e.func.attr if isinstance(e.func, ast.Attribute) and isinstance(e.func.value, ast.Name) and (e.func.value.id in ("self", "cls") or (e.func.value.id[:1].isupper() and e.func.value.id not in env)) else None)
        if hn in fns and isinstance(e.func, ast.Attribute) and isinstance(env.get(e.func.value.id), dict) and isinstance(env[e.func.value.id].get("." + hn), PyFn): hn = None      # the sample object supplies this method itself (a recording stand-in)
        if hn in fns and env.get("__depth__", 0) < env.get("__maxdepth__", 6):
            h = fns[hn]
            params = [a.arg for a in h.args.args]
            static_ = any(isinstance(d_, ast.Name) and d_.id == "staticmethod" for d_ in h.decorator_list)
            if params and params[0] in ("self", "cls") and not static_ and (isinstance(e.func, ast.Attribute) or isinstance(getattr(h, "_parent", None), ast.ClassDef)): params = params[1:]
            if h.args.vararg or len(e.args) > len(params) or any(isinstance(a, ast.Starred) for a in e.args) or (any(k.arg is None for k in e.keywords) and not h.args.kwarg): raise Unsupported("call of helper %s with star arguments" % hn)
            env2 = dict(env); env2["__depth__"] = env.get("__depth__", 0) + 1; env2["__global_names__"] = set()
            params = params + [a.arg for a in h.args.kwonlyargs]
            # dotted sample keys rooted at a parameter name of the helper must not leak in from the caller
            for k_ in [k_ for k_ in env2 if isinstance(k_, str) and k_.split(".")[0].split("(")[-1] in params]: del env2[k_]
            defaults = dict(zip(params[len(params) - len(h.args.defaults):], h.args.defaults))
            for name_, dflt in defaults.items(): env2[name_] = evaluate(dflt, env)
            for name_, a in zip(params, e.args): env2[name_] = evaluate(a, env)
            extra_kw = {}
            for a_, d_ in zip(h.args.kwonlyargs, h.args.kw_defaults):
                if d_ is not None: env2[a_.arg] = evaluate(d_, env)
            for k in e.keywords:
                if k.arg is None: extra_kw.update(evaluate(k.value, env)); continue
                if k.arg not in params:
                    if h.args.kwarg: extra_kw[k.arg] = evaluate(k.value, env); continue
                    raise Unsupported("unknown keyword %s for helper %s" % (k.arg, hn))
                env2[k.arg] = evaluate(k.value, env)
            for k_ in list(extra_kw):
                if k_ in params: env2[k_] = extra_kw.pop(k_)
            if h.args.kwarg: env2[h.args.kwarg.arg] = extra_kw
            elif extra_kw: raise Unsupported("unknown keywords %s for helper %s" % (sorted(extra_kw), hn))
            missing = [x for x in params if x not in env2]
            if missing: raise Unsupported("helper %s called without %s" % (hn, missing))
            if _own_yield(h): return _gen_call(h.body, env2)        # eagerly (the list of the yielded values) unless env["__lazygen__"]
            return run_block(h.body, env2)
        # a call of a sample callable supplied by the analysis (tagged stand-in for a provider / processor object)
        evaluated_ = True
        try: fv = evaluate(e.func, env)
        except Unsupported: fv = None; evaluated_ = False
        if evaluated_ and (fv is None or (isinstance(fv, (str, int, float, tuple, list, dict)) and not isinstance(fv, (Inst, SList)) and not (isinstance(fv, dict) and any(isinstance(k_, str) and k_.startswith(".") for k_ in fv)))):
            raise Raised("TypeError", "'%s' object is not callable" % type(fv).__name__)          # calling a value that is not callable
        if isinstance(fv, Callee) and not e.keywords: return fv(*_args(e.args, env))
        if isinstance(fv, PyFn):
            kw_ = {}
            for k in e.keywords:
                if k.arg: kw_[k.arg] = evaluate(k.value, env)
                else: kw_.update(evaluate(k.value, env))
            args_ = []
            for a in e.args:
                if isinstance(a, ast.Starred): args_.extend(list(evaluate(a.value, env)))
                else: args_.append(evaluate(a, env))
            return fv.fn(*args_, **kw_)
        if isinstance(fv, ClassRef) and fv.name in (env.get("__classdefs__") or {}):
            return instantiate(fv.name, _args(e.args, env), _kwargs(e.keywords, env), env)
        if isinstance(fv, Closure) and not e.keywords: return fv(*_args(e.args, env))
        if isinstance(fv, DefClosure): return fv(*_args(e.args, env), **_kwargs(e.keywords, env))
    if isinstance(e, ast.Call) and isinstance(e.func, ast.Attribute):
        try: recv_ = evaluate(e.func.value, env)
        except Unsupported: recv_ = e
        if recv_ is None: raise Raised("AttributeError", "'NoneType' object has no attribute %r" % e.func.attr)
        if isinstance(recv_, dict) and recv_.get(".__complete__") == "all" and ("." + e.func.attr) not in recv_: raise Raised("AttributeError", "object has no attribute %r" % e.func.attr)       # a sample that lists all it has
        if isinstance(recv_, (int, float)) and not isinstance(recv_, bool) and not hasattr(recv_, e.func.attr): raise Raised("AttributeError", "'%s' object has no attribute %r" % (type(recv_).__name__, e.func.attr))
    raise Unsupported("expression outside the supported subset : " + ast.unparse(e)[:80])
import re as _re, codecs as _codecs, unicodedata as _ud
class Trusted:
    """a whitelisted part of the standard library whose semantics are Python's own (trusted base, like the str methods):
    attribute access yields constants or callables; calls run the real function; compiled patterns and match objects
    returned by `re` answer their usual methods.  A Python exception raised inside becomes Raised(<class name>) with the
    names of its base classes, so that handlers of the evaluated code catch it as they would at run time."""
    def __init__(s, obj, names): s.obj, s.names = obj, set(names)
import itertools as _it
import io as _io
class _AttrDict(dict):
    """obj.__dict__ of a sample object: the attributes by name; stores and deletions go through to the object"""
    def __init__(s, o):
        dict.__init__(s, {k_[1:]: v_ for k_, v_ in o.items() if isinstance(k_, str) and k_.startswith(".") and not k_.startswith(".__") and k_ != ".kind"}); s._o = o
    def __setitem__(s, k, v): dict.__setitem__(s, k, v); s._o["." + k] = v
    def __delitem__(s, k): dict.__delitem__(s, k); del s._o["." + k]
    def setdefault(s, k, d=None):
        if k not in s: s[k] = d
        return s[k]
    def update(s, *a, **k):
        for k_, v_ in dict(*a, **k).items(): s[k_] = v_
    def pop(s, k, *d):
        if k in s:
            v_ = dict.pop(s, k); del s._o["." + k]; return v_
        if d: return d[0]
        raise KeyError(k)
    def clear(s):
        for k_ in list(s): del s[k_]
class _Sentinel:
    """the value of object(): equal to nothing but itself"""
    __slots__ = ()
class _BoundedItertools:
    """itertools with the infinite generators cut at 1000 items (generators are evaluated eagerly)"""
    __name__ = "itertools"
    @staticmethod
    def count(start=0, step=1): return list(range(start, start + 1000 * step, step)) if step else [start] * 1000
    class _Chain:
        """itertools.chain: chain(a, b) gives the list of all items; chain.from_iterable consumes its iterables on demand, one after the other"""
        def __call__(s, *its): return [x for it in its for x in it]
        @staticmethod
        def from_iterable(its):
            for it in its: yield from it
    chain = _Chain()
    @staticmethod
    def repeat(x, times=1000): return [x] * times
    @staticmethod
    def islice(it, *a): return list(_it.islice(list(it), *a))
    @staticmethod
    def product(*its, **kw): return list(_it.product(*[list(i) for i in its], **kw))
TRUSTED = {
    "re": Trusted(_re, ("compile", "match", "fullmatch", "search", "sub", "escape", "findall", "split", "error", "IGNORECASE", "I", "MULTILINE", "M", "UNICODE", "U", "VERBOSE", "X", "DOTALL", "S")),
    "codecs": Trusted(_codecs, ("decode", "encode")),
    "unicodedata": Trusted(_ud, ("lookup", "name", "normalize", "category")),
    "bisect": Trusted(__import__("bisect"), ("bisect", "bisect_left", "bisect_right", "insort", "insort_left", "insort_right")),
    "collections": Trusted(__import__("collections"), ("OrderedDict", "defaultdict", "namedtuple", "deque", "Counter")),
    "itertools": Trusted(_BoundedItertools, ("count", "chain", "repeat", "islice", "product")),
    # the pure string functions of os.path (nothing that looks at the file system or the working directory)
    "io": Trusted(_io, ("StringIO",)),
    "os": {".path": Trusted(__import__("os").path, ("basename", "dirname", "splitext", "join", "normpath", "split", "isabs", "sep")), ".sep": __import__("os").sep, ".linesep": "\n"},
    "operator": Trusted(__import__("operator"), ("attrgetter", "itemgetter", "eq", "ne", "lt", "gt", "le", "ge", "add", "sub", "not_", "is_", "is_not", "contains")),
}
_PATTERN_METHODS = ("match", "fullmatch", "search", "sub", "findall", "split", "finditer")
_MATCH_METHODS = ("span", "group", "groups", "start", "end", "groupdict", "expand")
def _trusted_call(f, args, kw):
    try: return f(*args, **kw)
    except (Raised, Unsupported): raise
    except Exception as ex:
        r_ = Raised(type(ex).__name__, str(ex)); r_.bases = [c.__name__ for c in type(ex).__mro__]; raise r_
class SList(list):
    """a list sample that also has attributes (e.g. Arpeggio's SemanticActionResults: the children plus .results by rule name)"""
    def __init__(s, items=(), **attrs): list.__init__(s, items); s.sample_attrs = dict(attrs)
class Inst(dict):
    """instance of a class of the analysed module, built by interpreting its __init__ (env["__classdefs__"]: name -> ClassDef):
    '.attr' keys are its fields, '.__cls__' its class name; compared and hashed by identity"""
    __hash__ = object.__hash__
    def __eq__(s, o): return s is o
    def __ne__(s, o): return s is not o
    def __bool__(s):
        # truth of an instance is its class's business (__bool__, else __len__, else True), as in Python: an empty ModelRepository is falsy
        env = getattr(s, "_env", None)
        if env is None: return True
        cds = env.get("__classdefs__") or {}
        for m_ in ("__bool__", "__len__"):
            c_, f_ = find_method(cds, s[".__cls__"], m_)
            if f_ is not None: return bool(call_method_of(s, c_, f_, [], {}, env))
        return True
def _mro(cds, name):
    out_ = []; todo = [name]
    while todo:
        n_ = todo.pop(0)
        if n_ in out_ or n_ not in cds: continue
        out_.append(n_); todo += [b.id for b in cds[n_].bases if isinstance(b, ast.Name)]
    return out_
def find_method(cds, cls_name, meth, after=None):
    """(defining class name, FunctionDef) of the method as Python's attribute lookup finds it (single inheritance chains)"""
    mro = _mro(cds, cls_name)
    if after is not None and after in mro: mro = mro[mro.index(after) + 1:]
    for n_ in mro:
        for st_ in cds[n_].body:
            if isinstance(st_, ast.FunctionDef) and st_.name == meth: return n_, st_
    return None, None
def call_method_of(inst_, cls_name, fn_, args, kw, env):
    if env.get("__depth__", 0) > max(40, env.get("__maxdepth__", 40)): raise Unsupported("recursion depth")
    params = [a.arg for a in fn_.args.args]
    static_ = any(isinstance(d_, ast.Name) and d_.id == "staticmethod" for d_ in fn_.decorator_list)
    classm_ = any(isinstance(d_, ast.Name) and d_.id == "classmethod" for d_ in fn_.decorator_list)
    if static_: params = ["__no_self__"] + params
    if len(args) + 1 > len(params) and not fn_.args.vararg: raise Unsupported("call of %s.%s with too many arguments" % (cls_name, fn_.name))
    env2 = {k_: v_ for k_, v_ in env.items() if isinstance(k_, str) and k_.startswith("__")}
    for k_, v_ in env.items():
        if isinstance(v_, (PyFn, ClassRef, Trusted)) or k_ in (env.get("__keep__") or ()): env2.setdefault(k_, v_)
    env2["__depth__"] = env.get("__depth__", 0) + 1; env2["__class__"] = cls_name; env2["__global_names__"] = set()
    defaults = dict(zip(params[len(params) - len(fn_.args.defaults):], fn_.args.defaults))
    given_ = set(params[1:1 + len(args)]) | set(kw)
    for name_, dflt in defaults.items():
        if name_ in given_: continue            # the default of a parameter the caller supplies is not needed (it may be a typing expression)
        env2[name_] = evaluate(dflt, env2)
    env2[params[0]] = ClassRef(cls_name) if classm_ else inst_
    for p_, a_ in zip(params[1:], args): env2[p_] = a_
    if fn_.args.vararg: env2[fn_.args.vararg.arg] = tuple(args[len(params) - 1:])
    for k_, v_ in kw.items():
        if k_ not in params:
            if fn_.args.kwarg: continue
            raise Unsupported("unknown keyword %s for %s.%s" % (k_, cls_name, fn_.name))
        env2[k_] = v_
    if fn_.args.kwarg: env2[fn_.args.kwarg.arg] = {k_: v_ for k_, v_ in kw.items() if k_ not in params}
    missing = [x for x in params if x not in env2]
    if missing: raise Unsupported("%s.%s called without %s" % (cls_name, fn_.name, missing))
    if _own_yield(fn_): return _gen_call(fn_.body, env2)
    return run_block(fn_.body, env2)
def instantiate(cls_name, args, kw, env):
    cds = env.get("__classdefs__") or {}
    o = Inst({".__cls__": cls_name}); o._env = env
    _c, init_ = find_method(cds, cls_name, "__init__")
    if init_ is not None: call_method_of(o, _c, init_, args, kw, env)
    elif args or kw: raise Raised("TypeError")
    return o
def text_of(v, env):
    """str(v) for a value of the evaluated program (an instance prints through its __str__ / __repr__)"""
    if isinstance(v, Inst):
        cds = env.get("__classdefs__") or {}
        for m_ in ("__str__", "__repr__"):
            c_, f_ = find_method(cds, v[".__cls__"], m_)
            if f_ is not None: return call_method_of(v, c_, f_, [], {}, env)
        return "<%s object>" % v[".__cls__"]
    if isinstance(v, list): return "[" + ", ".join(text_of(x, env) if isinstance(x, Inst) else repr(x) for x in v) + "]"
    return str(v)
class ClassRef:
    """a class of the analysed program used as a value (stored in a tuple, passed on): isinstance against it is answered by env["__classes__"][name]"""
    def __init__(s, name): s.name = name
class Closure:
    """value of a lambda expression of the analysed program: its body is evaluated over the defining environment when called
    (also by a stand-in supplied by the analysis, e.g. a modelled get_children that applies the selector to sample objects)"""
    def __init__(s, node, env): s.node, s.env = node, env
    def __call__(s, *args):
        ps = [a.arg for a in s.node.args.args]
        if len(args) != len(ps) or s.node.args.vararg or s.node.args.kwarg: raise Unsupported("lambda arity")
        env2 = dict(s.env); env2.update(zip(ps, args))
        return evaluate(s.node.body, env2)
class Method:
    """a function stored in a sample class that binds the instance it is looked up through (like a Python method)"""
    def __init__(s, fn): s.fn = fn
class InstObj:
    """sample instance of a sample class: its own attributes, then the class's (and its bases')"""
    def __init__(s, cls, own=None): s.cls, s.own = cls, dict(own or {})
    def lookup(s, n):
        if n in s.own: return True, s.own[n]
        f_, v_ = s.cls.lookup(n)
        if f_ and isinstance(v_, Method): return True, PyFn(lambda *a, _m=v_, **k: _m.fn(s, *a, **k))
        return f_, v_
    def __repr__(s): return "<%s object>" % s.cls.name
class ClassObj:
    """sample Python class: own attributes (its __dict__) and base classes; hasattr/getattr see inherited attributes,
    setattr/delattr and __dict__ only the class's own"""
    def __init__(s, name, own=None, bases=()): s.name, s.own, s.bases = name, dict(own or {}), list(bases)
    def lookup(s, n):
        if n in s.own: return True, s.own[n]
        for b in s.bases:
            f_, v_ = b.lookup(n)
            if f_: return f_, v_
        return False, None
    def __repr__(s): return "<class %s>" % s.name
class DefClosure:
    """value of a nested `def` of the evaluated code: called with the (live) environment of its definition"""
    def __init__(s, node, env): s.node, s.env = node, env
    def __call__(s, *args, **kw):
        h = s.node; params = [a.arg for a in h.args.args]
        if h.args.vararg or h.args.kwarg or len(args) > len(params): raise Unsupported("call of nested function %s with star arguments" % h.name)
        env2 = dict(s.env); env2["__depth__"] = s.env.get("__depth__", 0) + 1; env2["__defenv__"] = s.env; env2["__nonlocal_names__"] = set()
        if env2["__depth__"] > s.env.get("__maxdepth__", 12): raise Unsupported("recursion depth")
        defaults = dict(zip(params[len(params) - len(h.args.defaults):], h.args.defaults))
        for name_, dflt in defaults.items(): env2[name_] = evaluate(dflt, s.env)
        env2.update(zip(params, args)); env2.update(kw)
        missing = [x for x in params if x not in env2]
        if missing: raise Unsupported("nested function %s called without %s" % (h.name, missing))
        if _own_yield(h): return _gen_call(h.body, env2)
        return run_block(h.body, env2)
class PyFn:
    """a Python function supplied by the analysis as the meaning of a name of the analysed program (a stub for a library call or
    for a function whose effect is modelled, e.g. fnmatch.fnmatch, language_descriptions)"""
    def __init__(s, fn): s.fn = fn
    def __call__(s, *a, **k): return s.fn(*a, **k)
    def __eq__(s, o): return s is o or (isinstance(o, PyFn) and s.fn is o.fn) or (isinstance(s.fn, type) and s.fn is o)      # a builtin type used as a value equals the type (type(x) in [int, str])
    def __ne__(s, o): return not s.__eq__(o)
    def __hash__(s): return hash(s.fn)
class Callee:
    """stand-in for a callable object of the analysed program: calling it records its tag and returns ('result', tag)"""
    def __init__(s, tag, log, ret="result"): s.tag, s.log, s.ret = tag, log, ret
    def __call__(s, *args): s.log.append(s.tag); return None if s.ret is None else (s.ret, s.tag)

class _ExcSample(dict):
    def __str__(s): return str(s.get(".msg", ""))
class Raised(Exception):
    """the evaluated code raised (class name, message)"""
    def __init__(s, cls, msg=""): s.cls, s.msg, s.value, s.bases = cls, msg, None, [cls]
class _Return(Exception):
    def __init__(s, v): s.v = v
def run_block(stmts, env, max_steps=2000):
    g_ = _exec(stmts, env, max_steps)
    try:
        while True:
            v_ = next(g_)
            if "__yield__" not in env: raise Unsupported("yield outside a generator")
            env["__yield__"].append(v_)
    except StopIteration as e_: return e_.value
def _exec(stmts, env, max_steps=2000):
    """interpret a block of simple statements (assignments incl. tuple unpacking, if/elif/else, for over a finite list
    or dict, return, raise, pass, docstrings) with `evaluate` for the expressions; returns the returned value (None if the
    block falls off its end).  The environment maps names and dotted attribute chains ('self.x.y') to sample values."""
    steps = [0]
    if stmts:          # names the interpreted body binds somewhere (own statements, not nested functions): reading one before it is bound is an UnboundLocalError
        names_ = set(); todo_ = list(stmts)
        while todo_:
            n_ = todo_.pop()
            if isinstance(n_, (ast.FunctionDef, ast.Lambda, ast.ClassDef)):
                if isinstance(n_, (ast.FunctionDef, ast.ClassDef)): names_.add(n_.name)
                continue
            if isinstance(n_, ast.Name) and isinstance(n_.ctx, ast.Store): names_.add(n_.id)
            if isinstance(n_, (ast.ListComp, ast.SetComp, ast.DictComp, ast.GeneratorExp)): continue
            todo_.extend(ast.iter_child_nodes(n_))
        env["__assigned__"] = frozenset(names_)
    if "__module__" not in env and stmts:          # the module the interpreted statements stand in (ASTs loaded by sa.util carry parent links): its constants and trusted imports are visible
        m_ = stmts[0]
        while m_ is not None and not isinstance(m_, ast.Module): m_ = getattr(m_, "_parent", None)
        if m_ is not None: env["__module__"] = m_
    def assign(tg, v):
        if isinstance(tg, ast.Name):
            if tg.id in env.get("__global_names__", ()) and env.get("__globals__") is not None: env["__globals__"][tg.id] = v
            else:
                env[tg.id] = v
                if tg.id in env.get("__nonlocal_names__", ()):        # rebinding a variable of the enclosing function: visible there (and in its other closures)
                    d_ = env.get("__defenv__")
                    while isinstance(d_, dict):
                        d_[tg.id] = v
                        if tg.id not in d_.get("__nonlocal_names__", ()): break
                        d_ = d_.get("__defenv__")
        elif isinstance(tg, (ast.Tuple, ast.List)):
            v = list(_iterate(v, env)) if isinstance(v, Inst) else list(v)
            st_ = [i_ for i_, t_ in enumerate(tg.elts) if isinstance(t_, ast.Starred)]
            if st_:
                i_ = st_[0]; after = len(tg.elts) - i_ - 1
                if len(st_) > 1: raise Unsupported("two starred targets")
                if len(v) < len(tg.elts) - 1: raise Raised("ValueError", "not enough values to unpack")
                for t, x in zip(tg.elts[:i_], v[:i_]): assign(t, x)
                assign(tg.elts[i_].value, v[i_:len(v) - after])
                for t, x in zip(tg.elts[i_ + 1:], v[len(v) - after:] if after else []): assign(t, x)
                return
            if len(v) != len(tg.elts): raise Unsupported("unpacking arity")
            for t, x in zip(tg.elts, v): assign(t, x)
        elif isinstance(tg, ast.Attribute):
            try: base = evaluate(tg.value, env)
            except Unsupported: base = None
            if isinstance(base, (ClassObj, InstObj)): base.own[tg.attr] = v
            elif isinstance(base, (str, int, float, tuple, frozenset, bytes)) and not isinstance(base, bool): raise Raised("AttributeError", "'%s' object has no attribute %r" % (type(base).__name__, tg.attr))
            elif isinstance(base, dict) and any(isinstance(k_, str) and k_.startswith(".") for k_ in base) and ast.unparse(tg) not in env: base["." + tg.attr] = v      # a sample object
            else: env[ast.unparse(tg)] = v
        elif isinstance(tg, ast.Subscript) and not isinstance(tg.slice, ast.Slice):
            base = evaluate(tg.value, env)
            if isinstance(base, Inst) and env.get("__classdefs__"):
                c_, f_ = find_method(env["__classdefs__"], base[".__cls__"], "__setitem__")
                if f_ is None: raise Raised("TypeError")
                call_method_of(base, c_, f_, [evaluate(tg.slice, env), v], {}, env); return
            if not isinstance(base, (dict, list)): raise Unsupported("item assignment on " + type(base).__name__)
            base[evaluate(tg.slice, env)] = v
        else: raise Unsupported("assignment target " + ast.unparse(tg))
    def block(ss):
        for s in ss:
            steps[0] += 1
            if steps[0] > max_steps: raise Unsupported("too many steps")
            if isinstance(s, ast.Expr) and isinstance(s.value, ast.Constant): continue
            if isinstance(s, ast.ImportFrom) and s.module in TRUSTED:         # a function-local import of the trusted standard-library part binds its names
                for a_ in s.names:
                    if (a_.asname or a_.name) not in env: env[a_.asname or a_.name] = evaluate(ast.Attribute(value=ast.Name(id=s.module, ctx=ast.Load()), attr=a_.name, ctx=ast.Load()), dict(TRUSTED))
                continue
            if isinstance(s, ast.Import):
                for a_ in s.names:
                    if a_.name in TRUSTED and (a_.asname or a_.name) not in env: env[a_.asname or a_.name] = TRUSTED[a_.name]
                continue
            if isinstance(s, (ast.Pass, ast.Import, ast.ImportFrom)): continue
            if isinstance(s, ast.Return): raise _Return(evaluate(s.value, env) if s.value is not None else None)
            if isinstance(s, ast.Raise) and s.exc is None and env.get("__exc__") is not None: raise env["__exc__"]
            if isinstance(s, ast.Raise):
                c = s.exc
                if isinstance(c, ast.Call) and isinstance(c.func, ast.Name) and isinstance(env.get(c.func.id), PyFn):
                    r_ = Raised(c.func.id); r_.value = evaluate(c, env); raise r_        # the analysis models the exception class: keep the constructed value
                if c is not None and not (isinstance(c, ast.Call) and isinstance(c.func, ast.Name) and c.func.id not in env and c.func.id not in (env.get("__functions__") or {})):
                    # an exception object computed by the evaluated code (a helper that builds the error, a variable): its sample value names the class
                    try: v_ = evaluate(c, env)
                    except Unsupported: v_ = None
                    if isinstance(v_, dict) and (v_.get(".cls") or v_.get(".exc")):
                        r_ = Raised(v_.get(".cls") or v_.get(".exc")); r_.value = v_; raise r_
                    if isinstance(v_, Inst) and env.get("__classdefs__"):           # an instance of an exception class of the analysed module
                        r_ = Raised(v_[".__cls__"]); r_.value = v_; r_.bases = _mro(env["__classdefs__"], v_[".__cls__"]) + ["Exception"]; raise r_
                raise Raised(c.func.id if isinstance(c, ast.Call) and isinstance(c.func, ast.Name) else ast.unparse(c) if c is not None else "re-raise")
            if isinstance(s, ast.Assign):
                v = evaluate(s.value, env)
                for tg in s.targets: assign(tg, v)
                continue
            if isinstance(s, ast.AnnAssign):           # x: T = v  (the annotation is not evaluated; a bare declaration binds nothing)
                if s.value is not None: assign(s.target, evaluate(s.value, env))
                continue
            if isinstance(s, ast.Delete):
                for tg in s.targets:
                    if isinstance(tg, ast.Subscript) and not isinstance(tg.slice, ast.Slice):
                        base = evaluate(tg.value, env)
                        if not isinstance(base, (dict, list)): raise Unsupported("del on " + type(base).__name__)
                        try: del base[evaluate(tg.slice, env)]
                        except (KeyError, IndexError): raise Raised("KeyError")
                    elif isinstance(tg, ast.Name): env.pop(tg.id, None)
                    elif isinstance(tg, ast.Attribute):
                        base = evaluate(tg.value, env)
                        if isinstance(base, (ClassObj, InstObj)):
                            if tg.attr not in base.own: raise Raised("AttributeError", tg.attr)
                            del base.own[tg.attr]
                        elif isinstance(base, dict) and any(isinstance(k_, str) and k_.startswith(".") for k_ in base):
                            if "." + tg.attr not in base: raise Raised("AttributeError", tg.attr)
                            del base["." + tg.attr]
                        else: raise Unsupported("del target " + ast.unparse(tg))
                    else: raise Unsupported("del target " + ast.unparse(tg))
                continue
            if isinstance(s, ast.Assert):
                if not evaluate(s.test, env): raise Raised("AssertionError")
                continue
            if isinstance(s, ast.AugAssign) and isinstance(s.op, (ast.Add, ast.Sub)) and isinstance(s.target, (ast.Attribute, ast.Subscript)):
                cur_ = evaluate(s.target, env); d_ = evaluate(s.value, env)
                if isinstance(cur_, list) and isinstance(s.op, ast.Add): cur_.extend(list(d_)); assign(s.target, cur_); continue       # list += ... extends the list in place (aliases see it)
                assign(s.target, cur_ + d_ if isinstance(s.op, ast.Add) else cur_ - d_); continue
            if isinstance(s, ast.AugAssign) and isinstance(s.op, (ast.BitOr, ast.BitAnd)) and isinstance(s.target, (ast.Name, ast.Attribute, ast.Subscript)):
                cur_ = evaluate(s.target, env); d_ = evaluate(s.value, env)
                assign(s.target, (cur_ | d_) if isinstance(s.op, ast.BitOr) else (cur_ & d_)); continue
            if isinstance(s, ast.AugAssign) and isinstance(s.op, (ast.Add, ast.Sub)) and isinstance(s.target, ast.Name):
                cur_ = evaluate(s.target, env)
                if isinstance(cur_, list) and isinstance(s.op, ast.Add): cur_.extend(list(evaluate(s.value, env))); assign(s.target, cur_); continue      # in place, as Python does
                assign(s.target, cur_ + evaluate(s.value, env) if isinstance(s.op, ast.Add) else cur_ - evaluate(s.value, env)); continue
            if isinstance(s, ast.While):
                broke = False
                while evaluate(s.test, env):
                    steps[0] += 1
                    if steps[0] > max_steps: raise Unsupported("too many steps")
                    try: yield from block(s.body)
                    except _Break: broke = True; break
                    except _Continue: continue
                if not broke: yield from block(s.orelse)
                continue
            if isinstance(s, ast.If):
                yield from block(s.body if evaluate(s.test, env) else s.orelse); continue
            if isinstance(s, ast.For):
                it = evaluate(s.iter, env)
                if isinstance(it, Inst) and env.get("__classdefs__"):
                    c_, f_ = find_method(env["__classdefs__"], it[".__cls__"], "__iter__")
                    if f_ is None: raise Raised("TypeError")
                    it = call_method_of(it, c_, f_, [], {}, env)
                broke = False
                for x in (it if isinstance(it, types.GeneratorType) else list(it)):
                    assign(s.target, x)
                    try: yield from block(s.body)
                    except _Break: broke = True; break
                    except _Continue: continue
                if not broke: yield from block(s.orelse)
                continue
            if isinstance(s, ast.Try):
                try:
                    try: yield from block(s.body)
                    except Raised as r:
                        def names(t):
                            if t is None: return None
                            if isinstance(t, ast.Tuple): return [n_ for x in t.elts for n_ in names(x)]
                            return [t.attr if isinstance(t, ast.Attribute) else getattr(t, "id", "?")]
                        h = next((h_ for h_ in s.handlers if names(h_.type) is None or r.cls in names(h_.type) or any(b_ in names(h_.type) for b_ in getattr(r, "bases", ())) or any(n_ in ("Exception", "BaseException") for n_ in names(h_.type)) or ("TextXError" in names(h_.type) and r.cls.startswith("TextX"))), None)
                        if h is None: raise
                        if h.name:
                            if isinstance(r.value, dict): r.value.setdefault(".cls", r.cls); env[h.name] = r.value
                            else:
                                if getattr(r, "bound", None) is None: r.bound = _ExcSample({".cls": r.cls, ".msg": r.msg})
                                env[h.name] = r.bound        # one sample object per raised exception: changes made by a handler stay visible
                        prev = env.get("__exc__"); env["__exc__"] = r
                        try: yield from block(h.body)
                        finally: env["__exc__"] = prev
                    else: yield from block(s.orelse)
                finally: yield from block(s.finalbody)
                continue
            if isinstance(s, ast.With) and len(s.items) == 1 and isinstance(s.items[0].context_expr, ast.Call) and isinstance(s.items[0].context_expr.func, ast.Name) and s.items[0].context_expr.func.id == "suppress" and "suppress" not in env:
                # contextlib.suppress(E, ...): the body runs; an exception of one of the classes ends it silently
                names_ = [a_.attr if isinstance(a_, ast.Attribute) else getattr(a_, "id", "?") for a_ in s.items[0].context_expr.args]
                try: yield from block(s.body)
                except Raised as r:
                    if not (r.cls in names_ or any(b_ in names_ for b_ in getattr(r, "bases", ())) or any(n_ in ("Exception", "BaseException") for n_ in names_)): raise
                continue
            if isinstance(s, ast.With) and all(isinstance(it_.context_expr, ast.Call) for it_ in s.items) and all(isinstance(evaluate(it_.context_expr.func, env) if isinstance(it_.context_expr.func, ast.Name) and it_.context_expr.func.id in env else None, PyFn) for it_ in s.items):
                # a context manager supplied by the analysis (a stand-in for open()): a sample with .__enter__ / .__exit__
                cms_ = []
                for it_ in s.items:
                    cm_ = evaluate(it_.context_expr, env)
                    if not (isinstance(cm_, dict) and isinstance(cm_.get(".__enter__"), PyFn) and isinstance(cm_.get(".__exit__"), PyFn)): raise Unsupported("with over a value that is no sample context manager")
                    v_ = cm_[".__enter__"](); cms_.append(cm_)
                    if it_.optional_vars is not None: assign(it_.optional_vars, v_)
                try: yield from block(s.body)
                except Raised as r:
                    for cm_ in reversed(cms_): cm_[".__exit__"](r.cls, r, None)
                    raise
                except BaseException:          # a return / break / continue leaving the block
                    for cm_ in reversed(cms_): cm_[".__exit__"](None, None, None)
                    raise
                else:
                    for cm_ in reversed(cms_): cm_[".__exit__"](None, None, None)
                continue
            if isinstance(s, ast.Global):
                env["__global_names__"] = set(env.get("__global_names__", ())) | set(s.names); continue
            if isinstance(s, ast.Nonlocal):
                env["__nonlocal_names__"] = set(env.get("__nonlocal_names__", ())) | set(s.names); continue
            if isinstance(s, ast.ClassDef) and isinstance(env.get(s.name), PyFn): continue       # a local class the analysis supplies a recording stand-in for
            if isinstance(s, ast.FunctionDef):
                env[s.name] = DefClosure(s, env)
                if s.name in (env.get("__functions__") or {}):       # the nearer definition wins over a same-named helper of an outer scope
                    env["__functions__"] = {k_: v_ for k_, v_ in env["__functions__"].items() if k_ != s.name}
                continue
            if isinstance(s, ast.Expr) and isinstance(s.value, (ast.Call, ast.Subscript, ast.Attribute, ast.Name, ast.Compare)):
                evaluate(s.value, env); continue       # an expression evaluated for its effect (or for the exception it may raise: self[name])
            if isinstance(s, ast.Expr) and isinstance(s.value, ast.Yield):
                yield (evaluate(s.value.value, env) if s.value.value is not None else None); continue
            if isinstance(s, ast.Expr) and isinstance(s.value, ast.YieldFrom):
                yield from _iterate(evaluate(s.value.value, env), env); continue
            if isinstance(s, ast.Break): raise _Break()
            if isinstance(s, ast.Continue): raise _Continue()
            raise Unsupported("statement " + type(s).__name__)
    try: yield from block(stmts)
    except _Return as r: return r.v
    return None
class _Break(Exception): pass
class _Continue(Exception): pass
