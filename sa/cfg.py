"""Prototype A3: statement-level CFG with exception edges for the Python subset used in textx/."""
import ast
class Node:
    __slots__ = ("id", "kind", "ast", "succ", "label")
    def __init__(s, i, kind, a=None, label=""):
        s.id, s.kind, s.ast, s.succ, s.label = i, kind, a, [], label   # succ: list of (edge_kind, Node)
    def __repr__(s): return "<%d %s %s>" % (s.id, s.kind, s.label or (ast.unparse(s.ast)[:50] if s.ast is not None else ""))
class Ctx:
    def __init__(s, exc, ret, brk=None, cont=None): s.exc, s.ret, s.brk, s.cont = exc, ret, brk, cont
    def with_(s, **k):
        c = Ctx(s.exc, s.ret, s.brk, s.cont)
        for a, b in k.items(): setattr(c, a, b)
        return c
MAY_RAISE_NODES = (ast.Call, ast.Subscript, ast.Attribute, ast.BinOp, ast.Compare, ast.Await)
NO_RAISE_CALLS = {"hasattr", "isinstance", "len", "id", "type", "callable", "set", "list", "dict", "tuple", "bool", "print"}
def may_raise(a):
    if isinstance(a, (ast.Raise, ast.Assert)): return True
    if isinstance(a, (ast.FunctionDef, ast.ClassDef, ast.Lambda)): return False
    for n in ast.walk(a):
        if isinstance(n, (ast.FunctionDef, ast.Lambda)) and n is not a: continue
        if isinstance(n, ast.Call) and isinstance(n.func, ast.Name) and n.func.id in NO_RAISE_CALLS: continue
        if isinstance(n, (ast.Call, ast.Subscript, ast.Await)): return True
        if isinstance(n, ast.Attribute) and isinstance(n.ctx, ast.Del): return True
    return False
class CFG:
    def __init__(s, fn):
        s.nodes = []; s.fn = fn
        from sa import util as _u
        s.entry = s.new("entry"); s.exit = s.new("exit"); s.raise_exit = s.new("raise-exit")
        ctx = Ctx(exc=s.raise_exit, ret=s.exit)
        outs = s.block(fn.body, [s.entry], ctx)
        for o in outs:
            if isinstance(o, tuple): s.edge(o[0], s.exit, o[1])
            else: s.edge(o, s.exit, "fall")
        _u.STATS.counters["cfgs"] += 1; _u.STATS.counters["cfg_nodes"] += len(s.nodes)
        _u.STATS.counters["cfg_edges"] += sum(len(n.succ) for n in s.nodes)
    def new(s, kind, a=None, label=""):
        n = Node(len(s.nodes), kind, a, label); s.nodes.append(n); return n
    def edge(s, a, b, kind="n"):
        if (kind, b) not in a.succ: a.succ.append((kind, b))
    def block(s, stmts, preds, ctx):
        for st in stmts:
            preds = s.stmt(st, preds, ctx)
        return preds
    def link(s, preds, n):
        for p in preds:
            if isinstance(p, tuple): s.edge(p[0], n, p[1])
            else: s.edge(p, n)
    def stmt(s, st, preds, ctx):
        if isinstance(st, ast.If):
            c = s.new("cond", st.test); s.link(preds, c)
            if may_raise(st.test): s.edge(c, ctx.exc, "exc")
            t = s.block(st.body, [(c, "T")], ctx)
            f = s.block(st.orelse, [(c, "F")], ctx) if st.orelse else [(c, "F")]
            return t + f
        if isinstance(st, (ast.For, ast.While)):
            h = s.new("loop", st.iter if isinstance(st, ast.For) else st.test); s.link(preds, h)
            if may_raise(h.ast): s.edge(h, ctx.exc, "exc")
            after = s.new("join", label="after-loop")
            body_out = s.block(st.body, [h], ctx.with_(brk=after, cont=h))
            if body_out:
                le = s.new("join", label="loop-end"); s.link(body_out, le); s.edge(le, h, "back")
            els = s.block(st.orelse, [h], ctx) if st.orelse else [h]
            s.link(els, after)
            return [after]
        if isinstance(st, ast.Try):
            after = s.new("join", label="after-try")
            # handlers
            hentries = []
            fin = st.finalbody
            def run_finally(preds_, target_kind, target):
                """inline finally body then continue to target"""
                if not fin:
                    for p in preds_:
                        if isinstance(p, tuple): s.edge(p[0], target, p[1])
                        else: s.edge(p, target, target_kind)
                    return
                outs = s.block(fin, preds_, ctx)
                for o in outs:
                    if isinstance(o, tuple): s.edge(o[0], target, o[1])
                    else: s.edge(o, target, target_kind)
            # exception dispatch node for the try body
            disp = s.new("dispatch", label="except-dispatch")
            # context inside try body: exceptions go to dispatch; return/break/continue must run finally
            if fin:
                retj = s.new("join", label="finally-then-return"); run_finally([retj], "ret", ctx.ret)
                inner_ret = retj
            else: inner_ret = ctx.ret
            body_ctx = ctx.with_(exc=disp, ret=inner_ret)
            body_out = s.block(st.body, preds, body_ctx)
            else_out = s.block(st.orelse, body_out, ctx.with_(ret=inner_ret)) if st.orelse else body_out
            # handlers: exceptions raised inside handlers go to outer exc (after finally)
            if fin:
                excj = s.new("join", label="finally-then-reraise"); run_finally([excj], "exc", ctx.exc)
                h_exc = excj
            else: h_exc = ctx.exc
            catch_all = False
            houts = []
            for h in st.handlers:
                hn = s.new("handler", h, label="except " + (ast.unparse(h.type) if h.type else "<bare>"))
                s.edge(disp, hn, "catch")
                if h.type is None or (isinstance(h.type, ast.Name) and h.type.id in ("BaseException", "Exception")): catch_all = True
                houts += s.block(h.body, [hn], ctx.with_(exc=h_exc, ret=inner_ret))
            if not catch_all: s.edge(disp, h_exc, "exc")   # uncaught
            run_finally(else_out + houts, "n", after)
            return [after]
        if isinstance(st, ast.With):
            n = s.new("with", st, label="with " + ", ".join(ast.unparse(i.context_expr) for i in st.items)); s.link(preds, n)
            s.edge(n, ctx.exc, "exc")
            sup = any(isinstance(i.context_expr, ast.Call) and getattr(i.context_expr.func, "id", "") == "suppress" for i in st.items)
            if sup:
                after = s.new("join", label="after-suppress")
                outs = s.block(st.body, [n], ctx.with_(exc=after))
                s.link(outs, after)
                return [after]
            return s.block(st.body, [n], ctx)
        if isinstance(st, ast.Return):
            n = s.new("return", st); s.link(preds, n)
            if st.value is not None and may_raise(st.value): s.edge(n, ctx.exc, "exc")
            s.edge(n, ctx.ret, "ret"); return []
        if isinstance(st, ast.Raise):
            n = s.new("raise", st); s.link(preds, n); s.edge(n, ctx.exc, "exc"); return []
        if isinstance(st, ast.Break):
            n = s.new("break", st); s.link(preds, n); s.edge(n, ctx.brk, "brk"); return []
        if isinstance(st, ast.Continue):
            n = s.new("continue", st); s.link(preds, n); s.edge(n, ctx.cont, "cont"); return []
        if isinstance(st, (ast.FunctionDef, ast.ClassDef)):
            n = s.new("def", st, label="def " + st.name); s.link(preds, n); return [n]
        if isinstance(st, (ast.Assign, ast.AugAssign, ast.AnnAssign, ast.Expr, ast.Assert, ast.Delete, ast.Import, ast.ImportFrom, ast.Pass, ast.Global, ast.Nonlocal)):
            n = s.new("stmt", st); s.link(preds, n)
            if may_raise(st): s.edge(n, ctx.exc, "exc")
            return [n]
        from sa.util import AnalysisError
        raise AnalysisError("statement kind outside the supported subset: " + type(st).__name__)
    # ---- queries
    def paths_avoiding_consistent(s, start, goal, avoid, val=None):
        """like paths_avoiding, but prunes paths that take contradictory branches on the same (pure) condition text"""
        import ast as _a
        from sa import util as _u; _u.STATS.counters["path_queries"] += 1
        def atoms(test, pol, acc):
            if isinstance(test, _a.UnaryOp) and isinstance(test.op, _a.Not): return atoms(test.operand, not pol, acc)
            if isinstance(test, _a.BoolOp):
                if (isinstance(test.op, _a.And) and pol) or (isinstance(test.op, _a.Or) and not pol):
                    for v in test.values:
                        if not atoms(v, pol, acc): return False
                return True
            k = _a.unparse(test)
            if k in acc and acc[k] != pol: return False
            acc[k] = pol; return True
        stack = [(start, [start], dict(val or {}))]; seen = set()
        while stack:
            n, path, v = stack.pop()
            if n is goal: return path
            for k, m in n.succ:
                if avoid(m): continue
                v2 = v
                if n.kind == "cond" and k in ("T", "F"):
                    v2 = dict(v)
                    if not atoms(n.ast, k == "T", v2): continue
                key = (m.id, tuple(sorted(v2.items())))
                if key in seen: continue
                seen.add(key); stack.append((m, path + [m], v2))
        return None
    def paths_avoiding(s, start, goal, avoid):
        """is there a path start ->* goal that never visits a node satisfying avoid()? returns one witness path or None"""
        from sa import util as _u; _u.STATS.counters["path_queries"] += 1
        stack = [(start, [start])]; seen = {start.id}
        while stack:
            n, path = stack.pop()
            if n is goal: return path
            for k, m in n.succ:
                if m.id in seen or avoid(m): continue
                seen.add(m.id); stack.append((m, path + [m]))
        return None
def find_fn(tree, qual):
    cur = tree
    for part in qual.split("."):
        cur = next(n for n in ast.walk(cur) if isinstance(n, (ast.FunctionDef, ast.ClassDef)) and n.name == part and n is not cur)
    return cur
def calls_in(a):
    out = []
    for n in ast.walk(a):
        if isinstance(n, ast.Call):
            f = n.func
            out.append(f.attr if isinstance(f, ast.Attribute) else getattr(f, "id", "?"))
    return out
if __name__ == "__main__":
    import sys
    t = ast.parse(open("/repo/textx/model.py").read())
    for q in ["get_model_from_str", "parse_tree_to_objgraph", "_end_model_construction", "resolve_one_step"]:
        g = CFG(find_fn(t, q)); print(q, "nodes", len(g.nodes), "edges", sum(len(n.succ) for n in g.nodes))
    # query 1: get_model_from_str: from the _replace_user_attr_methods() call, can we reach raise-exit without passing _restore_user_attr_methods?
    fn = find_fn(t, "get_model_from_str"); g = CFG(fn)
    acq = [n for n in g.nodes if n.ast is not None and n.kind == "stmt" and "_replace_user_attr_methods" in calls_in(n.ast)]
    rel = lambda n: n.ast is not None and n.kind in ("stmt",) and "_restore_user_attr_methods" in calls_in(n.ast)
    print("O1 local: acquire nodes", acq)
    print("  path to raise-exit avoiding restore:", g.paths_avoiding(acq[0], g.raise_exit, rel))
    print("  path to normal exit avoiding restore:", [repr(x) for x in (g.paths_avoiding(acq[0], g.exit, rel) or [])][-4:])
    # query 1b: is there a path from entry to a restore that does not pass acquire? (release-without-acquire)
    acqf = lambda n: n.ast is not None and n.kind == "stmt" and "_replace_user_attr_methods" in calls_in(n.ast)
    for r in [n for n in g.nodes if rel(n)]:
        p = g.paths_avoiding(g.entry, r, acqf)
        print("  release reachable without acquire:", [repr(x) for x in p][-5:] if p else None)
    # query 2: parse_tree_to_objgraph: from the callback call to raise-exit avoiding cleanup
    fn = find_fn(t, "parse_tree_to_objgraph"); g = CFG(fn)
    cb = [n for n in g.nodes if n.kind == "stmt" and ast.unparse(n.ast).startswith("pre_ref_resolution_callback(model)")]
    cleanup = lambda n: n.ast is not None and n.kind == "stmt" and any(c in ("remove_models_from_repositories", "_remove_all_affected_models_in_construction") for c in calls_in(n.ast))
    print("O3: creation", cb, "-> escape w/o cleanup:", g.paths_avoiding(cb[0], g.raise_exit, cleanup))
    restore = lambda n: n.ast is not None and n.kind == "stmt" and "_restore_user_attr_methods" in calls_in(n.ast)
    p = g.paths_avoiding(g.entry, g.raise_exit, restore)
    print("O1 in parse_tree_to_objgraph: exceptional exit without any restore:", [repr(x) for x in p][-6:] if p else None)
    # metamodel.internal_model_from_file
    t2 = ast.parse(open("/repo/textx/metamodel.py").read())
    fn = find_fn(t2, "internal_model_from_file"); g = CFG(fn)
    created = [n for n in g.nodes if n.kind == "stmt" and "get_model_from_str" in calls_in(n.ast)]
    anyclean = lambda n: n.ast is not None and any(c in ("remove_model", "remove_models", "remove_models_from_repositories") for c in calls_in(n.ast))
    p = g.paths_avoiding(created[0], g.raise_exit, anyclean)
    print("O3 in internal_model_from_file: after load, escape w/o cleanup:", [repr(x) for x in p] if p else None)

# ---------------------------------------------------------------- post-dominators and control dependence
def _postdom(cfg):
    nodes = cfg.nodes; N = len(nodes)
    VEXIT = N                       # virtual exit joining normal and exceptional exit
    # normal, forward flow only: exception edges and loop back edges would destroy post-dominance
    succ = {n.id: [m.id for k, m in n.succ if k not in ("exc", "back", "cont")] for n in nodes}
    succ[cfg.exit.id] = [VEXIT]; succ[cfg.raise_exit.id] = [VEXIT]; succ[VEXIT] = []
    for i in range(N):
        if not succ[i] and i not in (cfg.exit.id, cfg.raise_exit.id): succ[i] = [VEXIT]   # dead ends
    FULL = (1 << (N + 1)) - 1
    pdb = [FULL] * (N + 1); pdb[VEXIT] = 1 << VEXIT          # bitsets
    preds = {i: [] for i in range(N + 1)}
    for i, ss in succ.items():
        for t_ in ss: preds[t_].append(i)
    work = list(range(N)); inw = set(work)
    while work:
        i = work.pop(); inw.discard(i)
        new = FULL
        for s_ in succ[i]: new &= pdb[s_]
        new |= 1 << i
        if new != pdb[i]:
            pdb[i] = new
            for p_ in preds[i]:
                if p_ not in inw and p_ != VEXIT: work.append(p_); inw.add(p_)
    pd = {}
    for i in range(N + 1):
        b = pdb[i]; st = set(); k = 0
        while b:
            if b & 1: st.add(k)
            b >>= 1; k += 1
        pd[i] = st
    return pd, succ, VEXIT
def control_dependence(cfg):
    """node id -> list of (cond node, edge kind) the node is control dependent on (Ferrante-Ottenstein-Warren via post-dominator sets)"""
    pd, succ, VEXIT = _postdom(cfg)
    cd = {n.id: [] for n in cfg.nodes}
    for a in cfg.nodes:
        if len([1 for k, _ in a.succ if k not in ("exc", "back", "cont")]) < 2: continue
        for kind, b in a.succ:
            if kind in ("exc", "back", "cont"): continue            # not branch decisions
            # nodes that post-dominate b (incl. b) but do not strictly post-dominate a
            for x in pd[b.id]:
                if x == VEXIT or x == a.id: continue
                if x not in pd[a.id] or x == a.id:
                    cd[x].append((a, kind))
    return cd
_guard_cache = {}
def guards_of(cfg, cd, ast_node):
    """[(test AST, polarity)] of the branch decisions that are NECESSARY for the statement containing ast_node to execute:
    a condition node c with outcome p is listed iff (in the flow graph without exception, back and continue edges) every path
    from the entry to the statement passes c, and the statement is reachable from c's p-successor but not from the other one.
    (Control dependence alone is not enough: after `if a: if b: raise` the following statement depends on the edges (a,F) and
    (b,F), but neither `not a` nor `not b` holds on every path that reaches it.)  Innermost decisions first."""
    target = None
    for n in cfg.nodes:
        if n.ast is not None and any(x is ast_node for x in ast.walk(n.ast)) and n.kind not in ("def",):
            if target is None or len(ast.unparse(n.ast)) < len(ast.unparse(target.ast)): target = n
    if target is None: return None
    key = (id(cfg), target.id)
    if key in _guard_cache: return list(_guard_cache[key])
    skip = ("exc", "back", "cont")
    succ = {n.id: [(k, m.id) for k, m in n.succ if k not in skip] for n in cfg.nodes}
    pred = {n.id: [] for n in cfg.nodes}
    for a, lst in succ.items():
        for k, b in lst: pred[b].append(a)
    # nodes from which the target is reachable
    R = {target.id}; work = [target.id]
    while work:
        x = work.pop()
        for p in pred[x]:
            if p not in R: R.add(p); work.append(p)
    def reach_avoiding(c):
        """is the target reachable from the entry without passing node c?"""
        if cfg.entry.id == c: return False
        seen = {cfg.entry.id}; w = [cfg.entry.id]
        while w:
            x = w.pop()
            if x == target.id: return True
            for _k, m in succ[x]:
                if m != c and m not in seen and m in R: seen.add(m); w.append(m)
        return False
    out = []
    for c in sorted((n for n in cfg.nodes if n.kind == "cond" and n.id in R and n.id != target.id), key=lambda n: -n.id):
        rt = any(k == "T" and m in R for k, m in succ[c.id]); rf = any(k == "F" and m in R for k, m in succ[c.id])
        if rt == rf: continue
        if reach_avoiding(c.id): continue
        out.append((c.ast, rt))
    _guard_cache[key] = list(out)
    return out
