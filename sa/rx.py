"""A9: regular-expression analysis on the AST of re._parser (nothing is compiled or matched).
   - Nfa: Thompson construction for the lookaround-free subset (literals, classes, categories, ., repeats, groups, |)
   - signature classes: a finite representative alphabet on which two regexes cannot be told apart elsewhere
   - equal_languages / is_prefix_free / included: subset construction on the product, on the representative alphabet
   - keyword_alt_with_boundary: recognise  (w1|w2|...)\\b  with word-only literals
Anything outside the subset raises Unsupported (an analysis error for the caller, never a silent pass)."""
import re._parser as sre, re._constants as sc
from sa.util import AnalysisError
class Unsupported(AnalysisError): pass

UNIVERSE = [chr(i) for i in range(0, 128)] + ["\xe9", "\xb7", "٠", " ", "中"]   # ascii + word/non-word/digit/space/cjk samples
def _cat(av, ch):
    import unicodedata
    if av is sc.CATEGORY_DIGIT: return ch.isdigit() and unicodedata.category(ch) == "Nd"
    if av is sc.CATEGORY_NOT_DIGIT: return not _cat(sc.CATEGORY_DIGIT, ch)
    if av is sc.CATEGORY_WORD: return ch.isalnum() or ch == "_"
    if av is sc.CATEGORY_NOT_WORD: return not _cat(sc.CATEGORY_WORD, ch)
    if av is sc.CATEGORY_SPACE: return ch.isspace()
    if av is sc.CATEGORY_NOT_SPACE: return not ch.isspace()
    raise Unsupported("regex category %s" % av)
def _in_pred(items):
    neg = any(op is sc.NEGATE for op, _ in items)
    def p(ch):
        hit = False
        for op, av in items:
            if op is sc.NEGATE: continue
            if op is sc.LITERAL: hit = hit or ord(ch) == av
            elif op is sc.RANGE: hit = hit or av[0] <= ord(ch) <= av[1]
            elif op is sc.CATEGORY: hit = hit or _cat(av, ch)
            else: raise Unsupported("regex class item %s" % op)
        return hit != neg
    return p
class Nfa:
    """states are ints; trans[state] = list of (pred|None, target)   (None = epsilon)"""
    def __init__(s, pattern, flags=0, drop_trailing_boundary=False, drop_trailing_assertions=False):
        s.trans = []; s.preds = []; s.dropped = []
        try: tree = sre.parse(pattern, flags)
        except Exception as e: raise Unsupported("regex does not parse: %r (%s)" % (pattern, e))
        items = list(tree)
        if drop_trailing_boundary and items and items[-1] == (sc.AT, sc.AT_BOUNDARY): items = items[:-1]   # only for first-character queries
        if drop_trailing_assertions:        # the *core* language: what the pattern consumes, without the zero-width context conditions at its end
            while items and (items[-1][0] in (sc.ASSERT, sc.ASSERT_NOT) or items[-1] == (sc.AT, sc.AT_BOUNDARY)): s.dropped.insert(0, repr(items.pop()))
        s.pattern = pattern; s.start = s.new(); s.accept = s.new()
        end = s.build(items, s.start); s.eps(end, s.accept)
    def new(s): s.trans.append([]); return len(s.trans) - 1
    def eps(s, a, b): s.trans[a].append((None, b))
    def sym(s, a, pred): b = s.new(); s.trans[a].append((pred, b)); s.preds.append(pred); return b
    def build(s, items, cur):
        for op, av in items:
            if op is sc.LITERAL: cur = s.sym(cur, (lambda c, v=av: ord(c) == v))
            elif op is sc.NOT_LITERAL: cur = s.sym(cur, (lambda c, v=av: ord(c) != v))
            elif op is sc.ANY: cur = s.sym(cur, (lambda c: c != "\n"))
            elif op is sc.IN: cur = s.sym(cur, _in_pred(av))
            elif op is sc.SUBPATTERN: cur = s.build(list(av[3]), cur)
            elif op is sc.BRANCH:
                out = s.new()
                for br in av[1]:
                    st = s.new(); s.eps(cur, st); s.eps(s.build(list(br), st), out)
                cur = out
            elif op in (sc.MAX_REPEAT, sc.MIN_REPEAT):
                lo, hi, sub = av; sub = list(sub)
                if lo > 8 or (hi is not sc.MAXREPEAT and hi > 8): raise Unsupported("large bounded repeat")
                for _ in range(lo): cur = s.build(sub, cur)
                if hi is sc.MAXREPEAT:
                    loop = s.new(); s.eps(cur, loop); e = s.build(sub, loop); s.eps(e, loop); cur = loop
                else:
                    out = s.new(); s.eps(cur, out)
                    for _ in range(hi - lo):
                        cur = s.build(sub, cur); s.eps(cur, out)
                    cur = out
            else: raise Unsupported("regex construct %s in %r" % (op, s.pattern))
        return cur
    def closure(s, states):
        stack = list(states); seen = set(states)
        while stack:
            q = stack.pop()
            for p, t in s.trans[q]:
                if p is None and t not in seen: seen.add(t); stack.append(t)
        return frozenset(seen)
    def step(s, S, ch):
        return s.closure({t for q in S for p, t in s.trans[q] if p is not None and p(ch)})
def representatives(nfas):
    preds = [p for n in nfas for p in n.preds]
    classes = {}
    for ch in UNIVERSE:
        sig = tuple(bool(p(ch)) for p in preds)
        classes.setdefault(sig, ch)
    return sorted(classes.values())
def _product(a, b, reps):
    """reachable product states of the two determinised automata: yields (Sa, Sb, word) breadth first"""
    start = (a.closure({a.start}), b.closure({b.start})); seen = {start: ""}; queue = [start]
    while queue:
        S = queue.pop(0); yield S[0], S[1], seen[S]
        for ch in reps:
            T = (a.step(S[0], ch), b.step(S[1], ch))
            if not T[0] and not T[1]: continue
            if T not in seen:
                if len(seen) > 20000: raise Unsupported("regex product too large")
                seen[T] = seen[S] + ch; queue.append(T)
def compare(p1, p2):
    """returns (equal, witness) for the regular languages of two patterns (full-match languages)"""
    a, b = Nfa(p1), Nfa(p2); reps = representatives([a, b])
    for Sa, Sb, w in _product(a, b, reps):
        if (a.accept in Sa) != (b.accept in Sb): return False, w
    return True, None
def included(p1, p2):
    a, b = Nfa(p1), Nfa(p2); reps = representatives([a, b])
    for Sa, Sb, w in _product(a, b, reps):
        if a.accept in Sa and b.accept not in Sb: return False, w
    return True, None
def included_nfa(a, b):
    """L(a) subset of L(b) for two Nfa objects; (True, None) or (False, witness word)"""
    reps = representatives([a, b])
    for Sa, Sb, w in _product(a, b, reps):
        if a.accept in Sa and b.accept not in Sb: return False, w
    return True, None
def common_word(a, b):
    """a word in L(a) and L(b), or None"""
    reps = representatives([a, b])
    for Sa, Sb, w in _product(a, b, reps):
        if a.accept in Sa and b.accept in Sb: return w
    return None
def prefix_free(p):
    """no word of the language is a proper prefix of another word of the language"""
    a = Nfa(p); reps = representatives([a])
    start = a.closure({a.start}); seen = {start}; queue = [start]; states = []
    while queue:
        S = queue.pop(0); states.append(S)
        for ch in reps:
            T = a.step(S, ch)
            if T and T not in seen: seen.add(T); queue.append(T)
    # from an accepting subset state, is another accepting state reachable with >= 1 symbol?
    for S in states:
        if a.accept not in S: continue
        seen2 = set(); q = [a.step(S, ch) for ch in reps]
        while q:
            T = q.pop()
            if not T or T in seen2: continue
            seen2.add(T)
            if a.accept in T: return False
            q.extend(a.step(T, ch) for ch in reps)
    return True
def keyword_alt_with_boundary(p):
    """if p is (w1|w2|...)\\b with every wi a non-empty string of word characters: the list of wi; else None"""
    try: items = list(sre.parse(p))
    except Exception: return None
    if len(items) < 2 or items[-1] != (sc.AT, sc.AT_BOUNDARY): return None
    body = items[:-1]
    def words(its):
        its = list(its)
        if len(its) == 1 and its[0][0] is sc.SUBPATTERN: return words(its[0][1][3])
        if len(its) == 1 and its[0][0] is sc.BRANCH:
            out = []
            for br in its[0][1][1]:
                w = words(br)
                if w is None: return None
                out += w
            return out
        # branches with a common prefix are factored by the parser: LITERAL* then BRANCH/SUBPATTERN
        pre = ""
        for k, (op, av) in enumerate(its):
            if op is sc.LITERAL: pre += chr(av)
            else:
                rest = words(its[k:]) if k == len(its) - 1 else None
                if rest is None: return None
                return [pre + r for r in rest]
        return [pre]
    ws = words(body)
    if not ws or any((not w) or any(not (c.isalnum() or c == "_") for c in w) for w in ws): return None
    return ws
if __name__ == "__main__":
    print(compare(r"\+[mp]*m[mp]*:|\+p+:", r"\+[mp]+:"), prefix_free(r"\+[mp]+:"), prefix_free(r"\w+"))
    print(compare(r"\+[mp]*m[mp]*:", r"\+[mp]+:"))
    print(keyword_alt_with_boundary(r"(ID|BOOL|INT|FLOAT|STRING|NUMBER|BASETYPE)\b"), included(r"ID|BOOL", r"\w+"))
