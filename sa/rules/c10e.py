"""C10.h  the FQN scope provider decided by evaluation (sa/pyeval.py): FQN.__call__ (with its nested search helpers, in
whatever form) is interpreted on a sample package tree

     root { packages: [ a { classes: [X, Y], main: Main, packages: [ b { classes: [M] } ], alias -> z (NOT contained) },
                        b { classes: [X'] },  z { classes: [Q] } ] }

for references written inside a.b, inside a and at the root.  Documented semantics: the dotted name is looked up
part by part through CONTAINED children (lists, tuples and single-valued attributes alike; never through the parent link
or a non-containment reference, never through dunder / _tx_ attributes), first at the referencing object, then at each
ancestor in turn; the first scope in which the whole name leads to an object of the target type wins; a name whose
chain ends in an object of another type, or is not completely found, is searched further out; no match -> None."""
import ast
from sa.util import *
from sa import pyeval
from sa.exprs import HS
P = "textx/scoping/providers.py"
def r_C10eval(root):
    out = []; inst = 0
    t = load(root, P); fn = find(t, "FQN.__call__"); ps = [a.arg for a in fn.args.args]
    fns = {k: v for k, v in helper_functions(root, P, "FQN.__call__").items() if k not in ("__call__", "__init__")}
    POST = HS({".kind": "cls", ".__name__": "Postponed"}); XREF = HS({".kind": "cls", ".__name__": "ObjCrossRef"})
    def attr(cont): return HS({".cont": cont, ".ref": not cont, ".kind": "metaattr"})
    cPackage = HS({".__name__": "Package", ".kind": "cls", "._tx_attrs": {"name": attr(True), "classes": attr(True), "packages": attr(True), "main": attr(True), "alias": attr(False), "extras": attr(True), "_members": attr(True), "friends": attr(False)}})
    cClass = HS({".__name__": "Class", ".kind": "cls", "._tx_attrs": {"name": attr(True), "base": attr(False)}})
    cModel = HS({".__name__": "Model", ".kind": "cls", "._tx_attrs": {"packages": attr(True)}})
    def mk(cls, parent=None, **attrs):
        o = HS({".__class__": cls, ".kind": "obj"})
        d = dict(attrs)
        if parent is not None: d["parent"] = parent
        d["_tx_position"] = 1; d["_tx_position_end"] = 2
        for k, v in d.items(): o["." + k] = v
        o[".__dict__"] = d
        return o
    def build():
        rootm = mk(cModel, packages=[])
        pa = mk(cPackage, rootm, name="a", classes=[], packages=[], main=None, alias=None, extras=(), _members=[], friends=[])
        pb = mk(cPackage, rootm, name="b", classes=[], packages=[], main=None, alias=None, extras=())
        pz = mk(cPackage, rootm, name="z", classes=[], packages=[], main=None, alias=None, extras=())
        for p_ in (pa, pb, pz): rootm[".packages"].append(p_)
        rootm[".__dict__"]["packages"] = rootm[".packages"]
        def cls_(p_, n): c = mk(cClass, p_, name=n, base=None); p_[".classes"].append(c); return c
        X, Y = cls_(pa, "X"), cls_(pa, "Y"); Main = mk(cClass, pa, name="Main", base=None); pa[".main"] = Main; pa[".__dict__"]["main"] = Main
        pab = mk(cPackage, pa, name="b", classes=[], packages=[], main=None, alias=None, extras=()); pa[".packages"].append(pab)
        Mc = cls_(pab, "M"); X2 = cls_(pb, "X"); Q = cls_(pz, "Q"); N1 = cls_(pab, "N"); N2 = cls_(pb, "N")
        T1 = mk(cClass, pab, name="T1", base=None); pab[".extras"] = (T1,); pab[".__dict__"]["extras"] = pab[".extras"]
        pa[".alias"] = pz; pa[".__dict__"]["alias"] = pz; pa[".friends"].append(pz)
        H = mk(cClass, pa, name="H", base=None); pa["._members"].append(H)
        Y[".base"] = X2; Y[".__dict__"]["base"] = X2
        return dict(root=rootm, a=pa, b=pb, z=pz, ab=pab, X=X, Y=Y, Main=Main, M=Mc, X2=X2, Q=Q, T1=T1, H=H, N1=N1, N2=N2)
    pcds = {c.name: c for c in t.body if isinstance(c, ast.ClassDef)}
    _provs = {}
    def provider(tree, redirect):
        """ONE provider object (constructor interpreted) serves every reference of a model, as at run time"""
        key = (id(tree), id(redirect))
        if key not in _provs:
            try: _provs[key] = pyeval.instantiate("FQN", [], {"scope_redirection_logic": redirect} if redirect is not None else {}, {"__classdefs__": pcds, "__functions__": fns, "__module__": t})
            except (pyeval.Raised, pyeval.Unsupported) as x_: raise AnalysisError("FQN(...): %s" % x_)
            _provs[key].setdefault(".scope_redirection_logic", redirect); _provs[key][".kind"] = "provider"
        return _provs[key]
    def run(tree, start, name, cls, redirect=None):
        selfs = provider(tree, redirect)
        ref = HS({".__class__": XREF, ".obj_name": name, ".cls": cls, ".position": 3})
        env = {"__functions__": fns, "__module__": t, ps[0]: selfs, ps[1]: tree[start], ps[2]: HS({".name": "ref"}), ps[3]: ref, "ObjCrossRef": XREF, "Postponed": POST,
               "get_model": pyeval.PyFn(lambda o: tree["root"]), "get_parser": pyeval.PyFn(lambda o: HS({".debug": False})), "textx_isinstance": pyeval.PyFn(lambda o, c: isinstance(o, dict) and (o.get(".__class__") is c or (isinstance(c, pyeval.ClassRef) and c.name == "object"))),
               "__classes__": {"Postponed": lambda v: isinstance(v, dict) and v.get(".__class__") is POST, "list": lambda v: isinstance(v, list), "tuple": lambda v: isinstance(v, tuple)}}
        try: return ("ret", pyeval.run_block(fn.body, env))
        except pyeval.Raised as r_: return ("raise", r_.cls)
        except pyeval.Unsupported as u_: raise AnalysisError("FQN.__call__: outside the evaluated subset: %s" % u_)
    CASES = [("M", "M", "Class", "M", "a class of the enclosing package"), ("M", "X", "Class", "X", "the nearest enclosing scope that has the name wins (a.X, not b.X)"),
             ("X", "b.X", "Class", "X2", "a qualified name that does not resolve in the nearest scope (a.b has no X) is searched further out"), ("root", "a.b.M", "Class", "M", "a fully qualified name from the root"),
             ("X", "b.M", "Class", "M", "a qualified name relative to the enclosing package"), ("X", "z.Q", "Class", "Q", "a top-level package found from a nested object"),
             ("root", "a.z.Q", "Class", None, "a non-containment reference (alias -> z) is not a path step"), ("X", "alias.Q", "Class", None, "attribute names are not path steps"),
             ("root", "a.Main", "Class", "Main", "a single-valued contained object is a path step like a list element"), ("root", "a.b.T1", "Class", "T1", "elements of a tuple-valued attribute are path steps"),
             ("M", "b", "Class", None, "a name whose chain ends in an object of another type (a package) does not resolve to it"), ("M", "b", "Package", "ab", "the same name with the matching target type"),
             ("root", "nosuch.X", "Class", None, "an unknown first part"), ("root", "a.nosuch", "Class", None, "an unknown last part"), ("Y", "base", "Class", None, "a non-containment reference of the referencing object is not searched"),
             ("X", "b.N", "Class", "N1", "a dotted name that resolves both from a nearer ancestor (a.b.N) and from the root (b.N): the nearer scope wins"), ("root", "b.N", "Class", "N2", "the same dotted name written at the root"),
             ("root", "a.H", "Class", "H", "a contained attribute whose name starts with one underscore is searched (only dunder and _tx_ names are skipped)"),
             ("a", "X", "Class", "X", "names contained in the referencing object itself are visible"), ("b", "X", "Class", "X2", "a sibling of that object with the same reference text sees its own children (b.X, not a.X)"), ("a", "b.M", "Class", "M", "a chain that starts inside the referencing object"),
             ("M", "a", "Package", "a", "an ancestor is found by name from the scope that contains it, not through the parent link of its children"), ("M", "parent.X", "Class", None, "'parent' is not a path step")]
    W = "FQN.__call__"
    tree0 = build()          # one model and one provider object for all references, asked one after the other (twice: a second pass must give the same answers)
    for start, name, tcls, want, why in CASES + CASES:
        inst += 1
        k, v = run(tree0, start, name, cClass if tcls == "Class" else cPackage); tree = tree0
        ok = k == "ret" and (v is tree[want] if want else v is None)
        ob("C10", "C10.h", P, W, "%r referenced inside %s as %s -> %s" % (name, start, tcls, want), ok)
        if not ok:
            got = "raises %s" % v if k == "raise" else ("None" if v is None else next((n for n, o in tree.items() if o is v), "another object"))
            out.append(Finding("C10", "C10.h", P, W, "%r referenced inside %s (target type %s)" % (name, start, tcls), "on the sample package tree the name %r written inside %s with target type %s resolves to %s; documented %s (%s)" % (name, start, tcls, got, want, why), witness="reference %s" % name))
    # redirection: the objects a scope_redirection_logic returns are searched; a Postponed it returns is handed on
    inst += 1
    tree = build()
    k, v = run(tree, "root", "b.Q", cClass, redirect=pyeval.PyFn(lambda o: [tree["z"]] if o is tree["b"] else []))
    okr = k == "ret" and v is tree["Q"]
    ob("C10", "C10.h", P, W, "scope redirection: b redirects to z, 'b.Q' -> Q", okr)
    if not okr: out.append(Finding("C10", "C10.h", P, W, "scope_redirection_logic", "with a redirection logic that sends package b to package z the name 'b.Q' resolves to %s; documented: Q (the redirected objects are searched for the next name part)" % (v if k == "raise" else ("None" if v is None else "another object"))))
    inst += 1
    tree = build(); pp = HS({".__class__": POST, ".kind": "postponed"})
    k, v = run(tree, "root", "b.Q", cClass, redirect=pyeval.PyFn(lambda o: pp if o is tree["b"] else []))
    okp = k == "ret" and v is pp
    for pr in ("C10", "C09"): ob(pr, "C10.h", P, W, "scope redirection answers Postponed -> the provider answers Postponed", okp)
    if not okp:
        for pr in ("C10", "C09"): out.append(Finding(pr, "C10.h", P, W, "scope_redirection_logic returning Postponed", "when the redirection logic answers Postponed for package b, the lookup of 'b.Q' yields %s; documented: that Postponed object (the reference is retried in the next round, never bound to something else or given up)" % ("None" if v is None else ("an exception" if k == "raise" else "another object"))))
    return inst, out
