"""rule prototypes, batch 5: C29.a escaping taint in export.py (A5-Taint on A4 paths), C29.b escape table"""
import ast, sys
from sa.util import *
from sa import atoms
E = "textx/export.py"
SANITIZERS = {"dot_escape", "dot_repr", "html_escape", "id", "len", "hex"}
SAFE_ATTRS = {"__name__", "name_of_class"}
def taint(e, st, val):
    """True if expression may carry an unescaped model string"""
    if isinstance(e, ast.Constant): return False
    if isinstance(e, ast.JoinedStr): return any(taint(v, st, val) for v in e.values)
    if isinstance(e, ast.FormattedValue): return taint(e.value, st, val)
    if isinstance(e, ast.BinOp): return taint(e.left, st, val) or taint(e.right, st, val)
    if isinstance(e, ast.IfExp): return taint(e.body, st, val) or taint(e.orelse, st, val)
    if isinstance(e, ast.Name):
        if st.get(e.id, False) is False: return False
        # refinement by path atoms: not a str but a primitive -> number/bool
        if val.get("isinstance(%s, str)" % e.id) is False and val.get("type(%s) in PRIMITIVE_PYTHON_TYPES" % e.id) is True: return False
        return True
    if isinstance(e, ast.Call):
        nm = callee_name(e)
        if nm in SANITIZERS: return False
        if nm == "type": return False
        if nm == "str": return taint(e.args[0], st, val)
        if nm == "join": 
            a = e.args[0]
            if isinstance(a, (ast.ListComp, ast.GeneratorExp)):
                st2 = dict(st)
                for g in a.generators:
                    for t in ast.walk(g.target):
                        if isinstance(t, ast.Name): st2[t.id] = taint(g.iter, st, val)
                return taint(a.elt, st2, val)
            return taint(a, st, val)
        if nm == "getattr": return True        # model attribute value: source
        if nm == "format": return any(taint(a, st, val) for a in e.args) or taint(e.func.value, st, val)
        if nm in ("enumerate", "list", "sorted"): return any(taint(a, st, val) for a in e.args)
        if nm in ("dot_match_str",): return True   # regex / string literal text from the grammar: source
        return any(taint(a, st, val) for a in e.args)
    if isinstance(e, ast.Attribute):
        if e.attr == "_tx_filename": return True      # path text: source
        if e.attr in ("__name__", "name", "fqn", "mult", "typ"): 
            # grammar identifiers / constants — safe unless the base itself is a tainted model value
            return False
        return taint(e.value, st, val)
    if isinstance(e, ast.Subscript): return taint(e.value, st, val)
    if isinstance(e, (ast.Tuple, ast.List)): return any(taint(x, st, val) for x in e.elts)
    if isinstance(e, ast.Compare): return False
    return True
def run_region(stmts, init, fname, out, qual):
    names, rows = atoms.table(stmts, feasible=None)
    reported = set(); sinks = 0
    for r in rows:
        st = dict(init)
        for e in r.effects:
            if isinstance(e, ast.Assign) and isinstance(e.targets[0], ast.Name): st[e.targets[0].id] = taint(e.value, st, r.val)
            elif isinstance(e, ast.AugAssign) and isinstance(e.target, ast.Name): st[e.target.id] = st.get(e.target.id, False) or taint(e.value, st, r.val)
            elif isinstance(e, ast.Expr) and isinstance(e.value, ast.Call) and callee_name(e.value) == "write":
                sinks += 1
                a = e.value.args[0]
                parts = a.values if isinstance(a, ast.JoinedStr) else [a]
                for p in parts:
                    if taint(p, st, r.val):
                        key = (" ".join(ast.unparse(e).split())[:100], ast.unparse(p))
                        if key not in reported:
                            reported.add(key)
                            out.append(Finding("C29", "C29.a", E, qual, key[0] + "  <-  " + key[1], "model text %s reaches the output without escaping" % key[1]))
            elif isinstance(e, ast.Expr) and isinstance(e.value, ast.Name) is False and isinstance(e.value, ast.Call) is False and isinstance(e.value, (ast.Attribute, ast.Name, ast.Call, ast.Subscript)):
                pass
            # loop headers are recorded as Expr(iter): bind loop targets conservatively
        # (loop targets) handled by init for this prototype
    return sinks
def r_C29(root):
    t = load(root, E); out = []; inst = 0
    top = find(t, "model_export_to_file")
    # every nested writer of the model exporter (whatever it is called): sources are attr_value (getattr) and list elements;
    # safe: attr_name (grammar identifier), idx, endmark, required, and the writers' own parameters (objects / labels the caller escaped)
    init = {"attr_value": True, "list_obj": True, "x": True, "attr_name": False, "idx": False, "obj": False, "attr": False, "obj_cls": False, "m": False}
    writers = [f_ for f_ in ast.walk(top) if isinstance(f_, ast.FunctionDef) and f_ is not top and any(callee_name(c) == "write" for c in calls(f_, own=True))]
    if not writers: raise AnalysisError("model_export_to_file: nested writers not found")
    for f_ in writers:
        ini = dict(init)
        for a_ in f_.args.args: ini.setdefault(a_.arg, False)
        inst += run_region(f_.body, ini, E, out, "model_export_to_file." + f_.name)
    # C29.f  every output file of the exporters is opened as UTF-8 (labels carry any text of the model / grammar; with the locale's
    #        encoding a non-ASCII label aborts the write half way and leaves an unbalanced file)
    opens_w = [c for c in ast.walk(t) if isinstance(c, ast.Call) and callee_name(c) == "open" and (any(isinstance(a, ast.Constant) and isinstance(a.value, str) and ("w" in a.value or "a" in a.value) for a in c.args[1:2]) or any(k.arg == "mode" and isinstance(k.value, ast.Constant) and ("w" in str(k.value.value) or "a" in str(k.value.value)) for k in c.keywords))]
    if not opens_w: raise AnalysisError("export.py: no output file is opened")
    for c in opens_w:
        inst += 1
        enc = next((k.value for k in c.keywords if k.arg == "encoding"), c.args[3] if len(c.args) > 3 else None)
        enc_v = const_str(enc, t) if enc is not None else None
        okenc = isinstance(enc_v, str) and enc_v.lower().replace("_", "-") in ("utf-8", "utf8")
        ob("C29", "C29.f", E, qualname(c), " ".join(ast.unparse(c).split())[:80], okenc)
        if not okenc: out.append(Finding("C29", "C29.f", E, qualname(c), " ".join(ast.unparse(c).split())[:100], "the output file is opened with %s: a label with a character outside that encoding aborts the export half way and leaves a truncated, unbalanced file" % ("the locale's encoding" if enc is None else "the encoding %s" % ast.unparse(enc))))
    # C29.g  the PlantUML frame, by evaluation of PlantUmlRenderer (constructor interpreted): @startuml first, @enduml last, whatever is configured
    xcds_ = {c.name: c for c in t.body if isinstance(c, ast.ClassDef)}
    if "PlantUmlRenderer" in xcds_:
        from sa import pyeval as _pg
        for lt in (None, "ortho", "polyline"):
            inst += 1
            envp = {"__classdefs__": xcds_, "__functions__": {f.name: f for f in t.body if isinstance(f, ast.FunctionDef)}, "__module__": t, "__maxdepth__": 20}
            try:
                rnd = _pg.instantiate("PlantUmlRenderer", [], {"linetype": lt} if lt else {}, envp)
                hd = _pg.call_method_of(rnd, *_pg.find_method(xcds_, "PlantUmlRenderer", "get_header"), [], {}, envp); tr = _pg.call_method_of(rnd, *_pg.find_method(xcds_, "PlantUmlRenderer", "get_trailer"), [], {}, envp)
            except _pg.Raised as r_: hd, tr = "raises " + r_.cls, ""
            except _pg.Unsupported as u_: raise AnalysisError("PlantUmlRenderer: outside the evaluated subset: %s" % u_)
            okf = isinstance(hd, str) and isinstance(tr, str) and hd.lstrip().startswith("@startuml") and tr.rstrip().endswith("@enduml") and hd.count("@startuml") == 1 and (("skinparam linetype %s" % lt) in hd if lt else "skinparam linetype" not in hd)
            ob("C29", "C29.g", E, "PlantUmlRenderer.get_header / get_trailer", "frame with linetype=%r" % lt, okf)
            if not okf: out.append(Finding("C29", "C29.g", E, "PlantUmlRenderer.get_header", "linetype=%r" % lt, "with linetype=%r the PlantUML output starts with %r and ends with %r; documented: @startuml first, @enduml last, the linetype line in between when configured" % (lt, hd[:40] if isinstance(hd, str) else hd, tr[-20:] if isinstance(tr, str) else tr)))
        # the legend of match rules: opened and closed once, one row per match rule - also for a rule without details to show
        for details in ({"Kw": "a|b", "Alias": ""}, {"Alias": ""}, {"Kw": "a|b"}):
            inst += 1
            fns_ = {f.name: f for f in t.body if isinstance(f, ast.FunctionDef) and f.name != "dot_match_str"}
            envp = {"__classdefs__": xcds_, "__functions__": fns_, "__module__": t, "__maxdepth__": 20, "dot_match_str": _pg.PyFn(lambda cls_, mr_=None, _d=details: _d[cls_[".name"]])}
            try:
                rnd = _pg.instantiate("PlantUmlRenderer", [], {}, envp)
                from sa.exprs import HS as _HS
                mr_ = [_HS({".name": n_, ".__name__": n_, ".kind": "cls"}) for n_ in details]
                cur = rnd.get(".match_rules")
                rnd[".match_rules"] = set(mr_) if isinstance(cur, set) else (mr_ if not isinstance(cur, dict) else {n_[".name"]: n_ for n_ in mr_})
                tr = _pg.call_method_of(rnd, *_pg.find_method(xcds_, "PlantUmlRenderer", "get_trailer"), [], {}, envp)
            except _pg.Raised as r_: tr = "raises " + r_.cls
            except _pg.Unsupported as u_: raise AnalysisError("PlantUmlRenderer.get_trailer: outside the evaluated subset: %s" % u_)
            lines_ = tr.split("\n") if isinstance(tr, str) else []
            def rows_(n_): return sum(1 for l_ in lines_ if l_.strip().startswith("| %s |" % n_))
            nleg = lines_.count("legend")
            okl = isinstance(tr, str) and not tr.startswith("raises") and nleg == lines_.count("end legend") <= 1 and (nleg == 0 or lines_.index("legend") < lines_.index("end legend")) and tr.rstrip().endswith("@enduml") \
                  and all((rows_(n_) == 1) if d_ else (rows_(n_) <= 1) for n_, d_ in details.items()) \
                  and all(nleg == 1 and lines_.index("legend") < i_ < lines_.index("end legend") for i_, l_ in enumerate(lines_) if l_.strip().startswith("| "))
            ob("C29", "C29.g", E, "PlantUmlRenderer.get_trailer", "legend for the match rules %s" % sorted(details), okl)
            if not okl: out.append(Finding("C29", "C29.g", E, "PlantUmlRenderer.get_trailer", "match rules %s" % {k_: v_ or "(no details)" for k_, v_ in details.items()}, "for a meta-model with the match rules %s (details: %s) the PlantUML trailer is %r; documented: at most one legend block, opened with 'legend' and closed with 'end legend', every table row inside it, one row for every match rule that has details, then @enduml" % (sorted(details), details, tr[:200] if isinstance(tr, str) else tr), witness="Alias: Other; Other: 'x'|'y';  -> textx generate --target plantuml"))
    # C29.b escape table, by evaluation (sa/pyeval.py) of dot_escape on sample texts: every character that is special inside a
    # record label comes out backslash-escaped exactly once (a newline as \n), other characters unchanged
    from sa import pyeval as _pe
    de = find(t, "dot_escape"); p0_ = de.args.args[0].arg
    SPECIAL = {'"': '\\"', "\\": "\\\\", "{": "\\{", "}": "\\}", "|": "\\|", "<": "\\<", ">": "\\>", "\n": "\\n"}
    samples_ = list(SPECIAL) + ["a", "a b", 'say "hi"', "a|b{c}", "x\\<y", "l1\nl2", "<<>>", "{|}", "\\\\", '\\"', "plain_text-1"]
    bad_ = None
    for smp in samples_:
        inst += 1
        try: got_ = _pe.run_block(de.body, {p0_: smp, "__module__": t, "__functions__": {k_: v_ for k_, v_ in helper_functions(root, E, "dot_escape").items() if k_ != "dot_escape"}})
        except _pe.Unsupported as u_: raise AnalysisError("dot_escape: outside the evaluated subset: %s" % u_)
        except _pe.Raised as r_: got_ = "raise " + r_.cls
        # reference: one left-to-right pass; characters beyond the documented table may be escaped too (a backslash in front of any
        # other punctuation is harmless in a record label) but the documented ones must be, and letters/digits/blanks stay
        okc_ = isinstance(got_, str)
        if okc_:
            i_ = 0; j_ = 0
            while i_ < len(smp) and okc_:
                ch = smp[i_]
                if ch == "\n":                       # a newline must not stay raw; as \n (line break) or \\n (the two characters) the label stays well-formed
                    if got_.startswith("\\\\n", j_): j_ += 3
                    elif got_.startswith("\\n", j_): j_ += 2
                    else: okc_ = False
                elif ch in SPECIAL:
                    okc_ = got_.startswith(SPECIAL[ch], j_); j_ += len(SPECIAL[ch])
                elif ch.isalnum() or ch in " _-":
                    okc_ = got_.startswith(ch, j_); j_ += 1
                else:
                    if got_.startswith("\\" + ch, j_): j_ += 2
                    elif got_.startswith(ch, j_): j_ += 1
                    else: okc_ = False
                i_ += 1
            okc_ = okc_ and j_ == len(got_)
        ob("C29", "C29.b", E, "dot_escape", "%r -> %r" % (smp, got_), okc_)
        if not okc_ and bad_ is None: bad_ = (smp, got_)
    if bad_: out.append(Finding("C29", "C29.b", E, "dot_escape", "dot_escape(%r)" % bad_[0], "the label text %r is escaped to %r: every character that is special in a record label (quote, backslash, braces, bar, angle brackets, newline) must come out backslash-escaped exactly once and nothing else may change" % bad_, witness="an attribute value or match-rule text containing %r" % bad_[0]))
    # metamodel export: match-rule bodies must be escaped before they are rendered
    for q, san in (("DotRenderer.get_match_rules_table", "html_escape"), ("PlantUmlRenderer.get_trailer", "dot_escape")):
        inst += 1
        fn = find(t, q)
        for c in [c for c in calls(fn) if callee_name(c) == "dot_match_str"]:
            st_ = stmt_of(c); var = st_.targets[0].id if isinstance(st_, ast.Assign) and isinstance(st_.targets[0], ast.Name) else None
            wrapped = any(callee_name(a) in SANITIZERS - {"id", "len", "hex"} for a in ancestors(c) if isinstance(a, ast.Call))
            if var and not wrapped: wrapped = any(callee_name(k) in SANITIZERS and any(isinstance(x, ast.Name) and x.id == var for x in ast.walk(k)) for k in calls(fn))
            if not wrapped: out.append(Finding("C29", "C29.a", E, q, " ".join(ast.unparse(st_).split())[:90], "match-rule text rendered without escaping"))
    return inst, out
ALL = [r_C29]
if __name__ == "__main__":
    from sa import util
    for root in sys.argv[1:] or ["/repo"]:
        print("=====", root); util._cache.clear()
        for r in ALL:
            try:
                inst, fs = r(root); print("%-22s instances=%-3d findings=%d" % (r.__name__, inst, len(fs)))
                for f in fs: print("     ", f)
            except AnalysisError as e: print(r.__name__, "ANALYSIS-ERROR", e)

def r_modelexport(root):
    """C29.h  model_export_to_file decided by evaluation on a sample object graph (objects of classes with _tx_attrs; the file is a
    recording stand-in): the output is the header, then for every object reachable from the model exactly one node line
    `<id>[label="{name:Class|attrs}"]` - also for two distinct objects that compare equal, also when the model object is
    falsy (a user class defining __len__) - one edge line per containment / reference link, labelled with the attribute
    (and index), and the closing brace last; passing neither or both of model and repo is refused."""
    from sa import pyeval
    from sa.exprs import HS
    out = []; inst = 0
    t = load(root, E); fn = find(t, "model_export_to_file"); ps = [a.arg for a in fn.args.args]
    if ps != ["f", "model", "repo"]: raise AnalysisError("model_export_to_file: parameters %s" % ps)
    fns = {f_.name: f_ for f_ in t.body if isinstance(f_, ast.FunctionDef) and f_.name != "model_export_to_file"}
    ct = load(root, "textx/const.py"); consts = {}
    for st in ct.body:
        if isinstance(st, ast.Assign) and isinstance(st.targets[0], ast.Name):
            try: consts[st.targets[0].id] = pyeval.evaluate(st.value, dict(consts))
            except (pyeval.Unsupported, pyeval.Raised): pass
    ONE, OPT, MANY = consts.get("MULT_ONE"), consts.get("MULT_OPTIONAL"), consts.get("MULT_ONEORMORE")
    class EqObj(HS):
        """object of a user class with value equality: two items with the same name are equal"""
        def __eq__(s, o): return isinstance(o, dict) and o.get(".name") == s.get(".name") and o.get(".__class__") is s.get(".__class__")
        def __ne__(s, o): return not s.__eq__(o)
        __hash__ = lambda s: hash(s.get(".name"))
    class Falsy(HS):
        def __bool__(s): return False
        def __len__(s): return 0
    def attr(name, mult, cont): return HS({".kind": "metaattr", ".name": name, ".mult": mult, ".cont": cont})
    cItem = pyeval.ClassObj("Item", {"__name__": "Item", "_tx_attrs": {"name": attr("name", ONE, True), "n": attr("n", OPT, True)}})
    cModel = pyeval.ClassObj("Model", {"__name__": "Model", "_tx_attrs": {"name": attr("name", ONE, True), "items": attr("items", MANY, True), "first": attr("first", OPT, False), "tags": attr("tags", MANY, True)}})
    def graph(base=HS):
        i1 = EqObj({".kind": "obj", ".__class__": cItem, ".name": "same", ".n": 1}); i2 = EqObj({".kind": "obj", ".__class__": cItem, ".name": "same", ".n": 2}); i3 = EqObj({".kind": "obj", ".__class__": cItem, ".name": "other", ".n": None})
        m = base({".kind": "obj", ".__class__": cModel, ".name": "m", ".items": [i1, i2, i3], ".first": i2, ".tags": ["a", "b"]})
        return m, (i1, i2, i3)
    def run(model, repo=None):
        buf = []
        env = dict(consts)
        env.update({"__functions__": fns, "__module__": t, "__maxdepth__": 30, "__lazygen__": True, "f": HS({".kind": "file", ".write": pyeval.PyFn(lambda s_: buf.append(s_))}), "model": model, "repo": repo,
                    "PRIMITIVE_PYTHON_TYPES": [int, float, str, bool], "Exception": pyeval.PyFn(lambda *a: {".cls": "Exception", ".args": a})})
        try: pyeval.run_block(fn.body, env, max_steps=40000); return "ret", "".join(buf)
        except pyeval.Raised as r_: return "raise", r_.cls
        except pyeval.Unsupported as u_: raise AnalysisError("model_export_to_file: outside the evaluated subset: %s" % u_)
    W = "model_export_to_file"
    def rep(what, ok, msg):
        nonlocal inst
        inst += 1; ob("C29", "C29.h", E, W, what, ok)
        if not ok: out.append(Finding("C29", "C29.h", E, W, what, msg))
    for what, base in (("a model with two equal but distinct items", HS), ("the same model when the model object is falsy (user class defining __len__)", Falsy)):
        m, (i1, i2, i3) = graph(base)
        k, txt = run(m)
        if k != "ret": rep(what, False, "exporting %s raises %s; documented: every model can be exported" % (what, txt)); continue
        lines = [l_ for l_ in txt.split("\n")]
        def nodes_of(o): return [l_ for l_ in lines if l_.startswith("%d[label=" % id(o))]
        def edges(a_, b_): return [l_ for l_ in lines if l_.startswith("%d -> %d " % (id(a_), id(b_)))]
        okn = all(len(nodes_of(o)) == 1 for o in (m, i1, i2, i3)) and "same:Item" in nodes_of(i1)[0] and "same:Item" in nodes_of(i2)[0] and "m:Model" in nodes_of(m)[0]
        oke = len(edges(m, i1)) == 1 and 'label="items:0"' in edges(m, i1)[0] and len(edges(m, i3)) == 1 and 'label="items:2"' in edges(m, i3)[0] and len(edges(m, i2)) == 2 and any('label="items:1"' in e_ for e_ in edges(m, i2)) and any('label="first"' in e_ for e_ in edges(m, i2))
        okf = txt.rstrip().endswith("}") and txt.count("{") - txt.count("\\{") == txt.count("}") - txt.count("\\}") and "tags:list=[" in nodes_of(m)[0] if nodes_of(m) else False
        rep(what, okn and oke and okf, "exporting %s writes %d node line(s) for the model, %s for the three items (two of them equal by value, all distinct objects) and the edges model->items %s, model->first %d; documented: one node line per object (identity decides, not equality), one edge per link labelled attribute[:index], the list of primitive tags inside the model's label, balanced braces with the closing brace last" % (what, len(nodes_of(m)), [len(nodes_of(o)) for o in (i1, i2, i3)], [len(edges(m, o)) for o in (i1, i2, i3)], len([e_ for e_ in edges(m, i2) if 'label="first"' in e_])))
    # the walk over the objects of a model does not nest one Python call per link: a model may chain more objects through
    # references than the interpreter allows nested calls (call graph of the functions defined inside model_export_to_file)
    nested = {n_.name: n_ for n_ in ast.walk(fn) if isinstance(n_, ast.FunctionDef) and n_ is not fn}
    def callees(f_): return {callee_name(c_) for c_ in ast.walk(f_) if isinstance(c_, ast.Call) and isinstance(c_.func, ast.Name) and callee_name(c_) in nested}
    def reaches(a_, b_, seen=None):
        seen = seen if seen is not None else set()
        for c_ in callees(nested[a_]):
            if c_ == b_: return True
            if c_ not in seen:
                seen.add(c_)
                if reaches(c_, b_, seen): return True
        return False
    gens = {n_ for n_, f_ in nested.items() if any(isinstance(x_, (ast.Yield, ast.YieldFrom)) for x_ in ast.walk(f_))}
    rec = sorted(n_ for n_ in nested if n_ not in gens and reaches(n_, n_))
    inst += 1; ob("C29", "C29.h", E, W, "the object walk is not recursive (%d nested functions)" % len(nested), not rec)
    if rec: out.append(Finding("C29", "C29.h", E, W, "recursion of %s" % ", ".join(rec), "the export walks the model by calling %s recursively for every linked object: a model that chains more objects than the interpreter's recursion limit (about a thousand, e.g. a linked list of items referring to their successor) cannot be exported - RecursionError instead of a file" % rec[0], witness="1500 items, each with next=[Item] to its successor"))
    m, _i = graph()
    k1, _t1 = run(None, None); k2, _t2 = run(m, HS({".kind": "repo"}))
    rep("neither or both of model and repo", k1 == "raise" and k2 == "raise", "model_export_to_file(f) %s and model_export_to_file(f, model, repo) %s; documented: both are refused" % ("raises" if k1 == "raise" else "writes a file", "raises" if k2 == "raise" else "writes a file"))
    return inst, out
