"""C11 clauses on the RREL evaluator (textx/scoping/rrel.py)
   C11.b  every node class the RRELVisitor builds defines the interface the evaluator calls
   C11.d  RRELNavigation lookup: an object selected by name is returned together with the path extended by that very
          object; a name part is consumed (lookup_list[1:]) iff the object was selected by lookup_list[0], and not
          consumed iff it was selected by the fixed name                       (the proxy path and the remaining names)
   C11.e  RRELDots: the object is returned only if all num-1 parent steps could be taken, otherwise None (no clamping
          at the model root)
   C12.d  RRELPath printer: the separator after leading dots depends only on the node kind (isinstance), not on the
          number of dots"""
import ast
from sa.util import *
from sa import atoms, sem
R = "textx/scoping/rrel.py"
def r_C11b(root):
    out = []; inst = 0
    t = load(root, R)
    classes = {n.name: n for n in t.body if isinstance(n, ast.ClassDef)}
    vis = classes.get("RRELVisitor")
    if vis is None: raise AnalysisError("RRELVisitor not found")
    built = sorted({callee_name(c) for c in calls(vis) if callee_name(c) in classes and callee_name(c).startswith("RREL")})
    if len(built) < 6: raise AnalysisError("RRELVisitor builds only %s" % built)
    def methods(cn, seen=()):
        c = classes[cn]; ms = {f.name for f in c.body if isinstance(f, ast.FunctionDef)}
        for b in c.bases:
            if isinstance(b, ast.Name) and b.id in classes and b.id not in seen: ms |= methods(b.id, seen + (cn,))
        return ms
    ELEMENT = {"RRELNavigation", "RRELParent", "RRELDots", "RRELBrackets", "RRELZeroOrMore"}      # path elements
    for cn in built:
        ms = methods(cn); inst += 1
        need = {"__repr__"}
        if cn in ELEMENT: need |= {"start_locally", "start_at_root"}
        if cn in ELEMENT and not ({"apply"} <= ms or {"get_next_matches"} <= ms): need |= {"apply | get_next_matches"}
        miss = sorted(n for n in need if n not in ms and n != "apply | get_next_matches") + (["apply | get_next_matches"] if "apply | get_next_matches" in need else [])
        ob("C11", "C11.b", R, cn, "interface of %s: %s" % (cn, sorted(ms - {"__init__"})), not miss)
        if miss: out.append(Finding("C11", "C11.b", R, cn, "class " + cn, "node class built by the RREL visitor lacks %s, which the evaluator / printer calls" % miss))
    return inst, out
def r_C11de(root):
    out = []; inst = 0
    t = load(root, R)
    # C11.d (result tuples of RRELNavigation.apply.lookup) is decided by evaluation: C11.h (sa/rules/c11e.py)
    # ---- C11.e  decided by evaluating RRELDots.apply (sa/pyeval.py) for num = 1..4 dots on objects with 0..3 ancestors
    from sa import pyeval
    da = find_i(root, R, "RRELDots.apply"); inst += 1
    params = [a.arg for a in da.args.args]
    if len(params) < 2: raise AnalysisError("RRELDots.apply: parameters not found")
    bad = None; n_cases = 0
    for num in (1, 2, 3, 4):
        for depth in (0, 1, 2, 3):
            chain = [{".name": "o0"}]
            for k in range(depth): chain.append({".name": "o%d" % (k + 1)}); chain[-2][".parent"] = chain[-1]
            env = {"self.num": num, params[1]: chain[0]}
            for extra_ in params[2:]: env[extra_] = ["x"] if "lookup" in extra_ else []
            try: res = pyeval.run_block(da.body, env)
            except pyeval.Unsupported as e: raise AnalysisError("RRELDots.apply: outside the evaluated subset: %s" % e)
            except pyeval.Raised as e: res = ("raise", e.cls)
            got = res[0] if isinstance(res, (list, tuple)) and res else res
            want = chain[num - 1] if depth >= num - 1 else None
            n_cases += 1
            if got is not want and bad is None: bad = (num, depth, got if not isinstance(got, dict) else got.get(".name"), want if want is None else want[".name"])
    oke = bad is None
    ob("C11", "C11.e", R, "RRELDots.apply", "%d dots on an object with k ancestors, evaluated for %d cases: the (num-1)-th ancestor or no match" % (4, n_cases), oke)
    if not oke:
        out.append(Finding("C11", "C11.e", R, "RRELDots.apply", "%d dots, object with %d ancestor(s)" % (bad[0], bad[1]), "%d dots on an object with %d ancestor(s) yield %s, documented %s (the ancestor %d levels up, no match if there are not that many)" % (bad[0], bad[1], bad[2], bad[3], bad[0] - 1), witness="'....' used two levels below the root"))
    # ---- C12.d
    rp = find(t, "RRELPath.__repr__"); fir = sem.info(rp); inst += 1
    conds = [n.test for n in own_nodes(rp) if isinstance(n, (ast.If, ast.IfExp))]
    extra = []
    def atoms_of(tst):
        if isinstance(tst, ast.BoolOp): return [a for v in tst.values for a in atoms_of(v)]
        if isinstance(tst, ast.UnaryOp) and isinstance(tst.op, ast.Not): return atoms_of(tst.operand)
        return [tst]
    for c in conds:
        for a in atoms_of(c):
            u = ast.unparse(fir.expand(a, at=a)).replace(" ", "")
            if not (u.startswith("isinstance(") and "RRELDots" in u): extra.append(ast.unparse(a))
    ob("C12", "C12.d", R, "RRELPath.__repr__", "printer branches on the node kind only", not extra)
    for e in extra:
        out.append(Finding("C12", "C12.d", R, "RRELPath.__repr__", e, "the printed form of a path with leading dots depends on %s: a single leading dot gets a separator appended and re-parses as the parent ('.a' -> '..a')" % e, witness=".a  /  (.a)*.b"))
    return inst, out
