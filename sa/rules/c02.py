"""C02.e  attribute multiplicities, decided by evaluation of TextXVisitor.visit_textx_rule (sa/pyeval.py) on sample rule
bodies given as parsing-expression trees (sa/exprs.py: isinstance follows Arpeggio's own class hierarchy).

Documented semantics (docs: "multiplicity of the attribute"): an attribute is a list (1..* / 0..*) iff it is assigned with
+= / *=, or assigned under a repetition (+ -> 1..*, * -> 0..* unless a + encloses or is enclosed), or assigned more than
once on one path through the rule (assignments in different alternatives of a choice do not add up; every member of an
unordered group is on the path); otherwise it keeps the multiplicity of its operator (= -> 1, ?= -> 0..1).  ?= under a
repetition is a TextXSemanticError.  Rule modifiers and the wrapping of a lone body expression do not change any of it;
references to other rules are not descended into."""
import ast
from sa.util import *
from sa import pyeval, exprs
from sa.exprs import E, asgn, match, ruleref
L = "textx/lang.py"
OPM = {"plain": "1", "optional": "0..1", "oneormore": "1..*", "zeroormore": "0..*"}
def r_C02eval(root):
    out = []; inst = 0
    t = load(root, L); vt = find(t, "TextXVisitor.visit_textx_rule")
    ct = load(root, "textx/const.py")
    consts = {}
    for st in ct.body:
        if isinstance(st, ast.Assign) and isinstance(st.targets[0], ast.Name):
            try: consts[st.targets[0].id] = pyeval.evaluate(st.value, dict(consts))
            except (pyeval.Unsupported, pyeval.Raised): pass
    cfn = {f.name: f for f in ct.body if isinstance(f, ast.FunctionDef)}
    for need in ("MULT_ONE", "MULT_OPTIONAL", "MULT_ZEROORMORE", "MULT_ONEORMORE"):
        if need not in consts: raise AnalysisError("textx/const.py: %s not found" % need)
    M1, MO, MZ, MP = consts["MULT_ONE"], consts["MULT_OPTIONAL"], consts["MULT_ZEROORMORE"], consts["MULT_ONEORMORE"]
    sym = {"1": M1, "0..1": MO, "0..*": MZ, "1..*": MP}
    fns = {k: v for k, v in helper_functions(root, L, "TextXVisitor.visit_textx_rule").items() if k.startswith("_") and not k.startswith("__")}
    fns.update(cfn)
    ps = [a.arg for a in vt.args.args]
    def run(body, attrs, params=None):
        """attrs: {name: operator of its (first) assignment}; returns (kind, value, final multiplicities)"""
        cls = {".kind": "cls", ".__name__": "R", "._tx_attrs": {n: {".kind": "metaattr", ".name": n, ".mult": sym[OPM[op]]} for n, op in attrs.items()}, "._tx_position_end": None}
        mm = {".kind": "metamodel", "R": cls}
        self_ = {".kind": "visitor", ".metamodel": mm, ".grammar_parser": {".pos_to_linecol": pyeval.PyFn(lambda p: (1, p)), ".debug": False}, ".debug": False}
        env = dict(consts); env.update(exprs.ctor_env())
        env.update({"__functions__": fns, "__classes__": exprs.classes_env(), "__module__": t, ps[0]: self_, ps[1]: {".kind": "node", ".position": 0, ".position_end": 50},
                    ps[2]: (["R", params, body] if params is not None else ["R", body]), "TextXSemanticError": pyeval.PyFn(lambda *a, **k: {".cls": "TextXSemanticError"}), "mult_lt": None})
        del env["mult_lt"]
        try: k, v = "ret", pyeval.run_block(vt.body, env)
        except pyeval.Raised as r_: k, v = "raise", r_.cls
        except pyeval.Unsupported as u_: raise AnalysisError("visit_textx_rule: outside the evaluated subset: %s" % u_)
        inv = {v_: k_ for k_, v_ in sym.items()}
        return k, v, {n: inv.get(a[".mult"], a[".mult"]) for n, a in cls["._tx_attrs"].items()}
    S = lambda *n, **k: E("Sequence", *n, **k); C = lambda *n: E("OrderedChoice", *n); P = lambda *n: E("OneOrMore", *n); Z = lambda *n: E("ZeroOrMore", *n); O = lambda *n: E("Optional", *n); U = lambda *n: E("UnorderedGroup", *n)
    a = lambda op="plain", n="a": asgn(op, n); kw = match
    cases = [
        ("R: a=X;", lambda: a(), {"a": "plain"}, None, {"a": "1"}),
        ("R: 'k' a=X;", lambda: S(kw(), a()), {"a": "plain"}, None, {"a": "1"}),
        ("R: a=X a=X;", lambda: S(a(), a()), {"a": "plain"}, None, {"a": "1..*"}),
        ("R: (a=X)+;", lambda: P(a()), {"a": "plain"}, None, {"a": "1..*"}),
        ("R: (a=X)*;", lambda: Z(a()), {"a": "plain"}, None, {"a": "0..*"}),
        ("R: 'k' ('-' a=X)*;", lambda: S(kw(), Z(S(kw("-"), a()))), {"a": "plain"}, None, {"a": "0..*"}),
        ("R: ((a=X)*)+;", lambda: P(Z(a())), {"a": "plain"}, None, {"a": "1..*"}),
        ("R: ((a=X)+)*;", lambda: Z(P(a())), {"a": "plain"}, None, {"a": "1..*"}),
        ("R: a=X | a=Y;", lambda: C(a(), a()), {"a": "plain"}, None, {"a": "1"}),
        ("R: a=X (a=Y | b=Z);", lambda: S(a(), C(a(), a(n="b"))), {"a": "plain", "b": "plain"}, None, {"a": "1..*", "b": "1"}),
        ("R: (a=X | b=Y) a=Z;", lambda: S(C(a(), a(n="b")), a()), {"a": "plain", "b": "plain"}, None, {"a": "1..*", "b": "1"}),
        ("R: (a=X | b=Y) c=Z;", lambda: S(C(a(), a(n="b")), a(n="c")), {"a": "plain", "b": "plain", "c": "plain"}, None, {"a": "1", "b": "1", "c": "1"}),
        ("R: (a=X | b=Y) (a=Z | c=W);", lambda: S(C(a(), a(n="b")), C(a(), a(n="c"))), {"a": "plain", "b": "plain", "c": "plain"}, None, {"a": "1..*", "b": "1", "c": "1"}),
        ("R: 'f' a?='on' | 'v' (a=X)*;", lambda: C(S(kw("f"), a("optional")), S(kw("v"), Z(a()))), {"a": "optional"}, None, {"a": "0..*"}),
        ("R: a?='n' (a=X)+;", lambda: S(a("optional"), P(a())), {"a": "optional"}, None, {"a": "1..*"}),
        ("R: (a=X)* (a=Y)+;", lambda: S(Z(a()), P(a())), {"a": "plain"}, None, {"a": "1..*"}),
        ("R: (a=X)+ (a=Y)*;", lambda: S(P(a()), Z(a())), {"a": "plain"}, None, {"a": "1..*"}),
        ("R: a+=X;", lambda: a("oneormore"), {"a": "oneormore"}, None, {"a": "1..*"}),
        ("R: a*=X;", lambda: a("zeroormore"), {"a": "zeroormore"}, None, {"a": "0..*"}),
        ("R: a?=X;", lambda: a("optional"), {"a": "optional"}, None, {"a": "0..1"}),
        ("R: (a=X)?;", lambda: O(a()), {"a": "plain"}, None, {"a": "1"}),
        ("R: (a=X)? a=Y;", lambda: S(O(a()), a()), {"a": "plain"}, None, {"a": "1..*"}),
        ("R: a=X ('k' a=Y)?;", lambda: S(a(), O(S(kw(), a()))), {"a": "plain"}, None, {"a": "1..*"}),
        ("R: a=X ('k' ('l' a=Y));", lambda: S(a(), S(kw(), S(kw("l"), a()))), {"a": "plain"}, None, {"a": "1..*"}),
        ("R: ('k' a=X) | ('l' a=Y b=Z b=W);", lambda: C(S(kw(), a()), S(kw("l"), a(), a(n="b"), a(n="b"))), {"a": "plain", "b": "plain"}, None, {"a": "1", "b": "1..*"}),
        ("R: (a=X b=Y)#;", lambda: U(a(), a(n="b")), {"a": "plain", "b": "plain"}, None, {"a": "1", "b": "1"}),
        ("R: 'p' (('x' a=X) ('y' a=X))#;", lambda: S(kw("p"), U(S(kw("x"), a()), S(kw("y"), a()))), {"a": "plain"}, None, {"a": "1..*"}),
        ("R[skipws]: (a=X)+;", lambda: P(a()), {"a": "plain"}, {"skipws": True}, {"a": "1..*"}),
        ("R[skipws]: ('-' a=X)*;", lambda: Z(S(kw("-"), a())), {"a": "plain"}, {"skipws": True}, {"a": "0..*"}),
        ("R[noskipws]: a=X a=X;", lambda: S(a(), a()), {"a": "plain"}, {"skipws": False}, {"a": "1..*"}),
        ("R: a=X Other;", lambda: S(a(), ruleref("Other")), {"a": "plain"}, None, {"a": "1"}),
        ("R: a=X (Other)+;", lambda: S(a(), P(ruleref("Other"))), {"a": "plain"}, None, {"a": "1"}),
        ("R: (('k' a=X)?)*;", lambda: Z(O(S(kw(), a()))), {"a": "plain"}, None, {"a": "0..*"}),
        ("R: ('k' (a=X)?)+;", lambda: P(S(kw(), O(a()))), {"a": "plain"}, None, {"a": "1..*"}),
        ("R: 'k' ((a=X)? 'l')* b=Y;", lambda: S(kw(), Z(S(O(a()), kw("l"))), a(n="b")), {"a": "plain", "b": "plain"}, None, {"a": "0..*", "b": "1"}),
    ]
    W = "TextXVisitor.visit_textx_rule"
    for src, mk, attrs, params, want in cases:
        inst += 1
        k, v, got = run(mk(), attrs, params)
        ok = k == "ret" and got == want
        prs_ = ("C02", "C08") if ")?)" in src or ")? " in src else ("C02",)          # an optional group under a repetition: reference lists (C08) depend on it too
        for pr in prs_: ob(pr, "C02.e", L, W, "%s -> %s" % (src, got if k == "ret" else "raises " + str(v)), ok)
        if not ok:
            for pr in prs_: out.append(Finding(pr, "C02.e", L, W, src, "for the rule  %s  the attribute multiplicities become %s; documented %s" % (src, got if k == "ret" else "(an exception %s)" % v, want), witness=src))
        okx = not (k == "raise" and not str(v).startswith("TextX"))
        ob("C23", "C23.e", L, W, "%s compiles or fails with a TextX error" % src, okx)
        if not okx: out.append(Finding("C23", "C23.e", L, W, src, "compiling the valid rule  %s  raises a bare %s: a grammar is compiled or rejected with a TextX error, never with a Python-level exception" % (src, v), witness=src))
    # a rule with modifiers whose body is one match: the body is wrapped, the wrapper carries the rule's name, the match stays anonymous
    for src, body_ in (("R[noskipws]: /x+/;", E("RegExMatch", rule_name="", to_match="x+")), ("R[skipws]: 'x';", E("StrMatch", rule_name="", to_match="x"))):
        inst += 1
        k, v, got = run(body_, {}, {"skipws": "noskipws" in src and False or True})
        nodes_ = v.get(".nodes") if k == "ret" and isinstance(v, dict) else None
        okw = k == "ret" and v.get(".kind") == "Sequence" and v.get(".rule_name") == "R" and v.get(".root") is True and isinstance(nodes_, list) and len(nodes_) == 1 and nodes_[0] is body_ and body_.get(".rule_name") == "" and not body_.get(".root")
        for pr in ("C13", "C03"): ob(pr, "C13.i", L, W, "%s: one named node per match" % src, okw)
        if not okw:
            for pr in ("C13", "C03"): out.append(Finding(pr, "C13.i", L, W, src, "for the match rule  %s  the rule's expression becomes %s named %r over a match named %r%s; documented: a root Sequence named R over the match itself, which stays anonymous - one parse-tree node carries the rule's name, so the rule's value is converted and its object processor called once" % (src, v.get(".kind") if isinstance(v, dict) else v, v.get(".rule_name") if isinstance(v, dict) else None, body_.get(".rule_name"), " marked as a root rule" if body_.get(".root") else ""), witness=src))
    # every rule modifier is readable on the rule's root expression afterwards - whatever the shape of the body (the RREL provider reads .split there)
    for src, mkbody, prm in (("R[split='/']: /x+/;", lambda: E("RegExMatch", rule_name="", to_match="x+"), {"split": "/"}), ("R[split='/']: 'a' 'b';", lambda: S(kw("a"), kw("b")), {"split": "/"}),
                             ("R[split='::', noskipws]: /x+/;", lambda: E("RegExMatch", rule_name="", to_match="x+"), {"split": "::", "skipws": False}), ("R[ws=' ']: ('a')+;", lambda: P(kw("a")), {"ws": " "})):
        inst += 1
        k, v, got = run(mkbody(), {}, prm)
        okm = k == "ret" and isinstance(v, dict) and all(v.get("." + n_, None) == val_ and type(v.get("." + n_)) is type(val_) for n_, val_ in prm.items()) and v.get(".rule_name") == "R" and v.get(".root") is True
        for pr in ("C11", "C22"): ob(pr, "C11.i", L, W, "%s: the modifiers are on the root expression" % src, okm)
        if not okm:
            for pr in ("C11", "C22"): out.append(Finding(pr, "C11.i", L, W, src, "for the rule  %s  the rule's root expression %s; documented: every modifier of the rule (%s) is an attribute of its root expression - the RREL provider reads the separator of a reference's match rule from there (split), the parser the whitespace mode" % (src, ("carries %s" % {n_: v.get("." + n_, "<missing>") for n_ in prm}) if isinstance(v, dict) else "cannot be built (%s)" % v, ", ".join("%s=%r" % x_ for x_ in prm.items())), witness=src))
    # rule modifiers change how blanks are treated, never what the literals of the rule are
    for src, prm in (("R[noskipws]: 'begin' a=X 'end';", {"skipws": False}), ("R[skipws]: 'begin' a=X 'end';", {"skipws": True}), ("R[ws=' ']: 'begin' a=X 'end';", {"ws": " "})):
        inst += 1
        k1_ = E("RegExMatch", rule_name="", to_match="begin", to_match_regex="begin\\b", str_repr="begin", ignore_case=False); k2_ = E("RegExMatch", rule_name="", to_match="end", to_match_regex="end\\b", str_repr="end", ignore_case=False); a_ = a()
        body_ = S(k1_, a_, k2_)
        k, v, got = run(body_, {"a": "plain"}, prm)
        def flat(e_, d_=0):
            if not isinstance(e_, dict) or d_ > 6: return []
            return [e_] + [y_ for x_ in e_.get(".nodes", []) for y_ in flat(x_, d_ + 1)]
        fl = flat(v) if k == "ret" else []
        okl = k == "ret" and any(x_ is k1_ for x_ in fl) and any(x_ is k2_ for x_ in fl) and any(x_ is a_ for x_ in fl) and not [x_ for x_ in fl if x_.get(".kind") in ("StrMatch", "RegExMatch") and x_ is not k1_ and x_ is not k2_ and not any(x_ is y_ for y_ in flat(a_))] and k1_.get(".to_match_regex") == "begin\\b" and k2_.get(".kind") == "RegExMatch"
        for pr in ("C21", "C22"): ob(pr, "C21.f", L, W, "%s keeps its keyword matches" % src, okl)
        if not okl:
            for pr in ("C21", "C22"): out.append(Finding(pr, "C21.f", L, W, src, "for the rule  %s  (keywords compiled with a word boundary under autokwd) the rule's expression %s; documented: the modifiers are set on the rule's root expression, the matches of the body are the ones the visitor built - a keyword keeps its word boundary whatever the whitespace mode" % (src, "raises %s" % v if k == "raise" else "contains the matches %s" % [(x_.get(".kind"), x_.get(".to_match")) for x_ in fl if x_.get(".kind") in ("StrMatch", "RegExMatch")]), witness=src))
    for src, mk, attrs in (("R: (a?=X)*;", lambda: Z(a("optional")), {"a": "optional"}), ("R: 'k' (b=Y a?='x')+;", lambda: S(kw(), P(S(a(n="b"), a("optional")))), {"a": "optional", "b": "plain"})):
        inst += 1
        k, v, got = run(mk(), attrs)
        ok = k == "raise" and v == "TextXSemanticError"
        ob("C02", "C02.e", L, W, "%s -> %s" % (src, "TextXSemanticError" if ok else (got if k == "ret" else v)), ok)
        if not ok: out.append(Finding("C02", "C02.e", L, W, src, "a bool assignment (?=) under a repetition %s; documented: TextXSemanticError (a list of booleans cannot be told from absent values)" % ("is accepted with multiplicities %s" % got if k == "ret" else "raises %s" % v), witness=src))
    return inst, out
