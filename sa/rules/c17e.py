"""C17.m / C18.j  the model repositories as a state machine, decided by evaluation (sa/pyeval.py): ModelRepository and
GlobalModelRepository of textx/scoping/__init__.py are instantiated by interpreting their own __init__, and sequences of
their methods are interpreted with a stand-in meta-model whose internal_model_from_file behaves as documented (it parses,
runs the pre-reference-resolution callback on the new model, resolves, returns it; a meta-model with a global repository
of its own returns an already loaded file without running the callback; a failing load raises after the callback).

   C17.m  one model object per file: a file is loaded once, later loads (any spelling of add_to_local_models) return the same
          object; the loaded model is registered under its file in all_models whether or not the callback ran; it is
          visible in local_models only when asked for; a model loaded through the callback shares all_models
   C18.j  remove_model removes exactly that model from both tables - also a model without file name (registered under an
          invented name); after a failing load the file is not visible in local_models"""
import ast
from sa.util import *
from sa import pyeval
from sa.exprs import HS
S = "textx/scoping/__init__.py"
def r_C17eval(root):
    out = []; inst = 0
    t = load(root, S)
    cds = {c.name: c for c in t.body if isinstance(c, ast.ClassDef)}
    for need in ("ModelRepository", "GlobalModelRepository"):
        if need not in cds: raise AnalysisError("scoping/__init__.py: class %s not found" % need)
    fns = {f.name: f for f in t.body if isinstance(f, ast.FunctionDef)}
    env = {"__classdefs__": cds, "__functions__": fns, "__module__": None, "abspath": pyeval.PyFn(lambda p: p if p.startswith("/") else "/cwd/" + p),
           "exists": pyeval.PyFn(lambda p: True), "join": pyeval.PyFn(lambda *a: "/".join(a)), "get_metamodel": pyeval.PyFn(lambda m: m.get("._tx_metamodel")),
           "metamodel_for_file_or_default_metamodel": pyeval.PyFn(lambda f, mm: mm)}
    def call(o, meth, *a, **k):
        c_, f_ = pyeval.find_method(cds, o[".__cls__"], meth)
        if f_ is None: raise AnalysisError("%s.%s not found" % (o[".__cls__"], meth))
        try: return ("ret", pyeval.call_method_of(o, c_, f_, list(a), k, env))
        except pyeval.Raised as r_: return ("raise", r_.cls)
        except pyeval.Unsupported as u_: raise AnalysisError("%s.%s: outside the evaluated subset: %s" % (o[".__cls__"], meth, u_))
    def table(rep_): return dict(rep_[".filename_to_model"]) if isinstance(rep_, pyeval.Inst) and isinstance(rep_.get(".filename_to_model"), dict) else None
    class MMStub:
        def __init__(s): s.loads = []; s.own = {}; s.fail = set(); s.sample = HS({".kind": "metamodel"}); s.sample[".internal_model_from_file"] = pyeval.PyFn(s.load)
        def load(s, filename, pre_ref_resolution_callback=None, is_main_model=False, encoding="utf-8", model_params=None, **kw):
            s.loads.append(filename)
            if filename in s.own: return s.own[filename]                     # cached in the meta-model's own global repository: no callback
            m = HS({".kind": "model", "._tx_filename": filename, "._tx_metamodel": s.sample, "._tx_model_params": model_params})
            if pre_ref_resolution_callback is not None: pre_ref_resolution_callback(m)
            if filename in s.fail: raise pyeval.Raised("TextXSemanticError")
            return m
    def rep(clause, what, ok, msg, witness=""):
        nonlocal inst
        inst += 1; ob("C17" if clause == "C17.m" else "C18", clause, S, "GlobalModelRepository", what, ok)
        if not ok: out.append(Finding("C17" if clause == "C17.m" else "C18", clause, S, "GlobalModelRepository", what, msg, witness=witness))
    def new_repo():
        try: return pyeval.instantiate("GlobalModelRepository", [], {}, env)
        except pyeval.Unsupported as u_: raise AnalysisError("GlobalModelRepository(): outside the evaluated subset: %s" % u_)
    # ---- loading
    mm = MMStub(); repo = new_repo()
    k, a1 = call(repo, "load_model", mm.sample, "/m/a.mdl", True, model_params={})
    allm = table(repo.get(".all_models")); loc = table(repo.get(".local_models"))
    rep("C17.m", "first load of a file", k == "ret" and isinstance(a1, dict) and mm.loads == ["/m/a.mdl"] and allm == {"/m/a.mdl": a1} and loc == {"/m/a.mdl": a1},
        "loading /m/a.mdl into an empty repository %s; afterwards all_models holds %s and local_models %s (documented: the loaded model under its file in both)" % ("returns a model" if k == "ret" else "raises " + str(a1), sorted(allm or {}), sorted(loc or {})))
    if k == "ret":
        sub = a1.get("._tx_model_repository")
        rep("C17.m", "the loaded model's own repository shares all_models", isinstance(sub, pyeval.Inst) and sub.get(".all_models") is repo.get(".all_models") and sub.get(".local_models") is not repo.get(".local_models"),
            "a model loaded through the repository gets %s: documented a GlobalModelRepository of its own that shares all_models (so that a file is loaded once for the whole import closure) and has local models of its own" % ("no repository" if sub is None else "a repository that does not share all_models / shares local_models"))
    k2, a2 = call(repo, "load_model", mm.sample, "/m/a.mdl", False, model_params={}); k3, a3 = call(repo, "load_model", mm.sample, "/m/a.mdl", False, add_to_local_models=False, model_params={})
    rep("C17.m", "a second and third load return the same object without loading", k2 == "ret" and a2 is a1 and k3 == "ret" and a3 is a1 and mm.loads == ["/m/a.mdl"], "loading /m/a.mdl again %s and the meta-model was asked to load it %d time(s): a file is loaded once, every later load returns that very model" % ("returns another object" if (k2 == "ret" and a2 is not a1) or (k3 == "ret" and a3 is not a1) else "gives %s / %s" % (k2, k3), len(mm.loads)))
    k, b1 = call(repo, "load_model", mm.sample, "/m/b.mdl", False, add_to_local_models=False, model_params={})
    allm = table(repo.get(".all_models")); loc = table(repo.get(".local_models"))
    rep("C17.m", "add_to_local_models=False keeps the model out of the local table", k == "ret" and allm is not None and allm.get("/m/b.mdl") is b1 and "/m/b.mdl" not in (loc or {}), "a model loaded with add_to_local_models=False is in all_models: %s, in local_models: %s (documented: cached, but not visible to the importing model's unqualified lookups)" % ("/m/b.mdl" in (allm or {}), "/m/b.mdl" in (loc or {})), witness="import 'b' as name")
    k, b1b = call(repo, "load_model", mm.sample, "/m/b.mdl", False, add_to_local_models=False, model_params={})
    loc = table(repo.get(".local_models"))
    rep("C17.m", "a cached file asked for again with add_to_local_models=False stays invisible", k == "ret" and b1b is b1 and "/m/b.mdl" not in (loc or {}) and mm.loads == ["/m/a.mdl", "/m/b.mdl"], "asking again with add_to_local_models=False for /m/b.mdl, which is cached but not visible, %s; local_models %s it afterwards (documented: the cached model is returned and stays out of the importing model's visible models - e.g. a file imported under an alias only)" % ("returns the cached model" if k == "ret" and b1b is b1 else ("returns another object" if k == "ret" else "raises " + str(b1b)), "contains" if "/m/b.mdl" in (loc or {}) else "does not contain"), witness="import \"lib\" as l  in two files of one load: names of lib must stay reachable through the alias only")
    k, b2 = call(repo, "load_model", mm.sample, "/m/b.mdl", False, add_to_local_models=True, model_params={})
    loc = table(repo.get(".local_models"))
    rep("C17.m", "a later visible import of the cached file makes it visible", k == "ret" and b2 is b1 and (loc or {}).get("/m/b.mdl") is b1 and mm.loads == ["/m/a.mdl", "/m/b.mdl"], "importing /m/b.mdl visibly after it was cached %s" % ("returns another object or loads it again (%s)" % mm.loads if k == "ret" else "raises " + str(b2)))
    cached = HS({".kind": "model", "._tx_filename": "/m/c.mdl", "._tx_metamodel": mm.sample}); mm.own["/m/c.mdl"] = cached
    k, c1 = call(repo, "load_model", mm.sample, "/m/c.mdl", False, model_params={})
    allm = table(repo.get(".all_models"))
    rep("C17.m", "a model the meta-model returns from its own cache (no callback) is registered", k == "ret" and c1 is cached and (allm or {}).get("/m/c.mdl") is cached, "a file the meta-model already holds in its own global repository (so the pre-reference-resolution callback does not run): load_model %s; documented: that model, registered under its file in all_models" % ("raises " + str(c1) if k == "raise" else "returns it but all_models lacks it" if c1 is cached else "returns something else"), witness="language with global_repository=True imported from a language without")
    # ---- a file of another language whose meta-model owns a global repository of its own
    mm2 = MMStub(); own_repo = new_repo(); mm2.sample["._tx_model_repository"] = own_repo
    k, x1 = call(repo, "load_model", mm2.sample, "/m/x.other", False, model_params={})
    xr = x1.get("._tx_model_repository") if k == "ret" and isinstance(x1, dict) else None
    okx = k == "ret" and isinstance(xr, pyeval.Inst) and xr.get(".all_models") is repo.get(".all_models") and (table(repo.get(".all_models")) or {}).get("/m/x.other") is x1 and not table(own_repo.get(".all_models")) and not table(own_repo.get(".local_models"))
    for cl_ in ("C17.m", "C18.j"):
        rep(cl_, "a file of another language is cached in the loader's repository only", okx, "loading /m/x.other, whose meta-model has a global repository of its own, on behalf of a model of this repository %s; the imported model's repository %s the loader's table of all models and the other meta-model's own repository holds %s afterwards (documented: one table of all models per load - the loader's - shared by every model of the import closure; the other meta-model's repository is not touched, so a failing load has one place to clean)" % ("completes" if k == "ret" else "raises " + str(x1), "shares" if isinstance(xr, pyeval.Inst) and xr.get(".all_models") is repo.get(".all_models") else "does not share", sorted(table(own_repo.get(".all_models")) or {}) or "nothing"), witness="two languages, both meta-models created with global_repository=True, a model of one importing a file of the other")
    # ---- failing load
    mm.fail.add("/m/bad.mdl")
    k, v = call(repo, "load_model", mm.sample, "/m/bad.mdl", False, model_params={})
    loc = table(repo.get(".local_models"))
    rep("C18.j", "a failing load leaves no visible entry", k == "raise" and "/m/bad.mdl" not in (loc or {}), "a load of /m/bad.mdl that fails after parsing %s and local_models %s the file afterwards (documented: the error propagates and the file is not visible; the construction cleanup removes it from all_models)" % ("raises " + str(v) if k == "raise" else "returns normally", "contains" if "/m/bad.mdl" in (loc or {}) else "does not contain"), witness="import of a file with an unresolvable reference, then a corrected reload")
    # ---- removal
    k, _ = call(repo, "remove_model", a1)
    allm = table(repo.get(".all_models")); loc = table(repo.get(".local_models"))
    rep("C18.j", "remove_model removes exactly that model from both tables", k == "ret" and "/m/a.mdl" not in (allm or {"/m/a.mdl": 1}) and "/m/a.mdl" not in (loc or {"/m/a.mdl": 1}) and (allm or {}).get("/m/b.mdl") is b1 and (loc or {}).get("/m/b.mdl") is b1, "after remove_model(<model of /m/a.mdl>) all_models holds %s and local_models %s (documented: only /m/a.mdl is gone, from both)" % (sorted(allm or {}), sorted(loc or {})))
    anon1 = HS({".kind": "model", "._tx_filename": None}); anon2 = HS({".kind": "model", "._tx_filename": None})
    k1, n1 = call(repo, "update_model_in_repo_based_on_filename", anon1); k1b, n1b = call(repo, "update_model_in_repo_based_on_filename", anon1); k2, n2 = call(repo, "update_model_in_repo_based_on_filename", anon2)
    allm = table(repo.get(".all_models"))
    rep("C17.m", "models without file name get one invented name each", k1 == k1b == k2 == "ret" and n1 == n1b and n1 != n2 and (allm or {}).get(n1) is anon1 and (allm or {}).get(n2) is anon2 and anon1["._tx_filename"] is None and anon2["._tx_filename"] is None, "two string-loaded models registered in the repository get the names %r (again: %r) and %r and afterwards carry the file names %r / %r; documented: each model one stable invented name of its own as repository key only - the model itself keeps _tx_filename None (error messages must not name a file that does not exist)" % (n1, n1b, n2, anon1["._tx_filename"], anon2["._tx_filename"]))
    k, _ = call(repo, "remove_model", anon1)
    allm = table(repo.get(".all_models"))
    rep("C18.j", "a model without file name is removed too", k == "ret" and not any(m_ is anon1 for m_ in (allm or {"x": anon1}).values()) and any(m_ is anon2 for m_ in (allm or {}).values()), "after remove_model(<string-loaded model>) the model is %s in all_models (documented: removed - a failed load of a model given as a string must not stay cached and marked as under construction)" % ("still" if any(m_ is anon1 for m_ in (allm or {}).values()) else "no longer"), witness="model_from_str with an unresolvable reference and global_repository=True, then the corrected text")
    # a root object of a user class whose collected attributes are not applied yet answers _tx_filename with the class-level value (the grammar file)
    parked = HS({".kind": "model", "._tx_filename": "/g/grammar.tx"})
    allm_obj = repo.get(".all_models")
    if table(allm_obj) is None: raise AnalysisError("GlobalModelRepository.all_models: no filename_to_model table")
    else:
        allm_obj[".filename_to_model"]["/m/parked.mdl"] = parked
        k, _ = call(repo, "remove_model", parked)
        allm = table(repo.get(".all_models"))
        rep("C18.j", "a model whose _tx_filename does not name its entry is removed too", k == "ret" and not any(m_ is parked for m_ in (allm or {"x": parked}).values()), "after remove_model(<model stored as /m/parked.mdl whose _tx_filename reads /g/grammar.tx>) the model is %s in all_models (documented: entries are found by the stored model object; a root object of a user class whose attributes are still parked reads the class-level _tx_filename)" % ("still" if k != "ret" or any(m_ is parked for m_ in (allm or {}).values()) else "no longer"), witness="grammar from a file, user class for the root rule, global_repository=True, a contained user class whose __init__ raises; then the same file again")
    # a model whose class defines equality by value and therefore has no hash (a root rule with a user class / dataclass with eq=True)
    class _Unhashable(HS):
        __hash__ = None
    uh = _Unhashable({".kind": "model", "._tx_filename": "/m/u.mdl"}); allm_obj[".filename_to_model"]["/m/u.mdl"] = uh
    k, _ = call(repo, "remove_models", [uh])
    allm = table(repo.get(".all_models"))
    rep("C18.j", "a model of a user class without a hash is removed too", k == "ret" and not any(m_ is uh for m_ in (allm or {"x": uh}).values()), "remove_models([<model of a user class that defines __eq__ and so has no __hash__>]) %s (documented: every listed model leaves the repository; the objects of a model are the user's, the repository may compare them but not hash them)" % ("raises " + str(_) if k == "raise" else "leaves the model in all_models"))
    # (the failure paths of a load remove the models before they restore the user classes: a removal that raises masks the error and skips the restore)
    okc_ = k == "ret" and not any(m_ is uh for m_ in (allm or {"x": uh}).values())
    ob("C14", "C18.j", S, "GlobalModelRepository", "a model of a user class without a hash is removed too", okc_)
    if not okc_: out.append(Finding("C14", "C18.j", S, "GlobalModelRepository", "a model of a user class without a hash is removed too", "remove_models([<model of a user class that defines __eq__ and so has no __hash__>]) %s: the clean-up of a failed load calls it before the user classes are restored" % ("raises " + str(_) if k == "raise" else "leaves the model in all_models")))
    k, _ = call(repo, "remove_models", [b1, cached, anon2])
    allm = table(repo.get(".all_models"))
    rep("C18.j", "remove_models removes every listed model", k == "ret" and not any(m_ is b1 or m_ is cached or m_ is anon2 for m_ in (allm or {"x": b1}).values()), "after remove_models([b, c, <string-loaded model>]) all_models still holds %s" % sorted(k_ for k_, m_ in (allm or {}).items() if m_ is b1 or m_ is cached or m_ is anon2))
    # ---- ModelRepository.add_model (the table's own API): file models under their absolute name, models without file name under one invented name each
    try: mr = pyeval.instantiate("ModelRepository", [], {}, env)
    except pyeval.Unsupported as u_: raise AnalysisError("ModelRepository(): outside the evaluated subset: %s" % u_)
    added = [HS({".kind": "model", "._tx_filename": f_, ".__complete__": "all"}) for f_ in (None, "/r/f1.mdl", None, None, "rel/f2.mdl", None, "")]
    ks_ = [call(mr, "add_model", m_)[0] for m_ in added]
    tab_ = table(mr) or {}
    okc_ = all(k_ == "ret" for k_ in ks_) and len(tab_) == len(added) and all(any(v_ is m_ for v_ in tab_.values()) for m_ in added) and tab_.get("/r/f1.mdl") is added[1] and tab_.get("/cwd/rel/f2.mdl") is added[4]
    rep("C17.m", "add_model: seven models, five of them without file name, interleaved", okc_, "after ModelRepository.add_model of five string-loaded models (no file name) interleaved with the files /r/f1.mdl and rel/f2.mdl the table holds the names %s for %d of the 7 models; documented: every model stays in the table - a file under its absolute name, a model without file name under an invented name of its own" % (sorted(tab_), sum(1 for m_ in added if any(v_ is m_ for v_ in tab_.values()))))
    # ---- C18.l  get_included_models: the models of a model are those of the repository the model carries, each once, plus the model itself
    gim = fns.get("get_included_models")
    if gim is None: raise AnalysisError("scoping/__init__.py: get_included_models not found")
    pm_ = gim.args.args[0].arg
    def included(model_):
        try: return ("ret", pyeval.run_block(gim.body, dict(env, **{pm_: model_})))
        except pyeval.Raised as r_: return ("raise", r_.cls)
        except pyeval.Unsupported as u_: raise AnalysisError("get_included_models: outside the evaluated subset: %s" % u_)
    def same(got_, want_): return got_[0] == "ret" and isinstance(got_[1], list) and len(got_[1]) == len(want_) and all(any(g_ is w_ for g_ in got_[1]) for w_ in want_)
    def rep2(what, ok, msg):
        nonlocal inst
        inst += 1
        for pr_ in ("C18", "C14", "C15", "C09"):
            ob(pr_, "C18.l", S, "get_included_models", what, ok)
            if not ok: out.append(Finding(pr_, "C18.l", S, "get_included_models", what, msg))
    def show2(got_): return "raises " + str(got_[1]) if got_[0] == "raise" else "returns %d model(s)" % len(got_[1]) if isinstance(got_[1], list) else "returns %r" % (got_[1],)
    r1 = new_repo(); r2 = new_repo(); mmx = HS({".kind": "metamodel", "._tx_model_repository": r2})
    ma = HS({".kind": "model", "._tx_filename": "/i/a.mdl"}); mb = HS({".kind": "model", "._tx_filename": "/i/b.mdl"}); mz = HS({".kind": "model", "._tx_filename": "/i/z.mdl"})
    main = HS({".kind": "model", "._tx_filename": "/i/main.mdl", "._tx_model_repository": r1, "._tx_metamodel": mmx, ".__complete__": "all"})
    lone = HS({".kind": "model", "._tx_filename": None, "._tx_metamodel": HS({".kind": "metamodel", ".__complete__": "all"}), ".__complete__": "all"})
    for f_, m_ in (("/i/a.mdl", ma), ("/i/b.mdl", mb), ("/i/main.mdl", main)): r1[".all_models"][".filename_to_model"][f_] = m_
    r2[".all_models"][".filename_to_model"]["/i/z.mdl"] = mz
    g = included(lone); rep2("a model without repository", same(g, [lone]), "get_included_models of a model that carries no repository %s; documented: the list holding that model" % show2(g))
    g = included(main); rep2("a model cached in its own repository with two imported models", same(g, [ma, mb, main]), "get_included_models of a model whose repository caches it and two imported models %s; documented: exactly those three, the owning model once (the models of another repository - here the global repository of the meta-model, holding a model of an unrelated load - are not this model's)" % show2(g))
    strm = HS({".kind": "model", "._tx_filename": None, "._tx_model_repository": r1, "._tx_metamodel": mmx, ".__complete__": "all"})
    g = included(strm); rep2("a string-loaded model that is not cached itself", same(g, [ma, mb, main, strm]), "get_included_models of a model that is not in its repository's cache (loaded from a string) %s; documented: the cached models plus the model itself" % show2(g))
    r3 = new_repo()
    um = _Unhashable({".kind": "model", "._tx_filename": "/i/u.mdl", "._tx_model_repository": r3, ".__complete__": "all"}); ui = _Unhashable({".kind": "model", "._tx_filename": "/i/ui.mdl"})
    r3[".all_models"][".filename_to_model"]["/i/u.mdl"] = um; r3[".all_models"][".filename_to_model"]["/i/ui.mdl"] = ui
    g = included(um); rep2("models of a user class without a hash", same(g, [um, ui]), "get_included_models of a model whose root class defines __eq__ (no __hash__) %s; documented: the two cached models - the objects are the user's, they may be compared but not hashed" % show2(g))
    return inst, out

def r_C15eval(root):
    """C15.j  a failing model processor and the global repository, decided by evaluation: TextXMetaModel._cached_model_ids and
    _call_model_processors are interpreted on a meta-model object (built by interpreting __init__) that owns a global
    repository (the interpreted GlobalModelRepository) holding two models loaded earlier; a load adds a main model and an
    imported model.  If a model processor fails, exactly the models this load added are removed and the error propagates;
    the earlier models stay cached (same objects); if no processor fails nothing is removed; without a global repository
    the error just propagates."""
    from sa import objmodel
    out = []; inst = 0
    t = load(root, S); cds = {c.name: c for c in t.body if isinstance(c, ast.ClassDef)}
    fns_s = {f.name: f for f in t.body if isinstance(f, ast.FunctionDef)}
    MMF = "textx/metamodel.py"
    def scenario(fail, with_repo=True):
        me, base = objmodel.new_metamodel(root)
        base = dict(base); base["__classdefs__"] = cds; base["abspath"] = pyeval.PyFn(lambda p: p); base["__keep__"] = ("abspath",)
        old1 = HS({".kind": "model", "._tx_filename": "/m/old1.mdl"}); old2 = HS({".kind": "model", "._tx_filename": "/m/old2.mdl"})
        plog = []
        def parser_(tag): return HS({".kind": "parser", ".tag": tag, "._restore_user_attr_methods": pyeval.PyFn(lambda: plog.append(("restore", tag))), "._release_user_obj_attrs": pyeval.PyFn(lambda: plog.append(("release", tag)))})
        # the main model has finished its construction; the imported one is still under construction (its parser holds the user classes instrumented)
        new1 = HS({".kind": "model", "._tx_filename": "/m/main.mdl", "._tx_parser": parser_("main")}); new2 = HS({".kind": "model", "._tx_filename": "/m/imported.mdl", "._tx_parser": parser_("imported"), "._tx_reference_resolver": None})
        new3 = HS({".kind": "model", "._tx_filename": "/m/deeper.mdl", "._tx_parser": parser_("deeper"), "._tx_reference_resolver": None})      # imported by the imported model, under construction too
        repo = None
        if with_repo:
            env0 = {"__classdefs__": cds, "__functions__": fns_s, "abspath": pyeval.PyFn(lambda p: p)}
            repo = pyeval.instantiate("GlobalModelRepository", [], {}, env0)
            for m_ in (old1, old2): repo[".all_models"][".filename_to_model"][m_["._tx_filename"]] = m_
            me["._tx_model_repository"] = repo
        k, cached = objmodel.call_method(root, me, base, "_cached_model_ids")
        if k != "ret": return ("ids raise " + cached.cls, None, None, None)
        if with_repo:
            for m_ in (new1, new2, new3): repo[".all_models"][".filename_to_model"][m_["._tx_filename"]] = m_
        ran = []
        def proc(model, mm_):
            ran.append(model)
            if fail: raise pyeval.Raised("ValueError")
        me["._model_processors"] = [pyeval.PyFn(proc)]
        mt = load(root, "textx/model.py")
        for k_, v_ in helper_functions(root, "textx/model.py", "get_model_parser.TextXModelParser._restore_user_attr_methods").items():       # a helper method of the parser class is interpreted on the parser sample
            if isinstance(getattr(v_, "_parent", None), ast.ClassDef) and v_._parent.name == "TextXModelParser" and not k_.startswith("__") and k_ not in ("_restore_user_attr_methods", "_release_user_obj_attrs"):
                base["__functions__"] = dict(base.get("__functions__") or {}); base["__functions__"].setdefault(k_, v_)
        for f_ in mt.body:          # the clean-up helper of model.py the handler may call
            if isinstance(f_, ast.FunctionDef) and f_.name in ("_abandon_user_objects",): base.setdefault("__functions__", {}); base["__functions__"] = dict(base["__functions__"], **{f_.name: f_})
        k, v = objmodel.call_method(root, me, base, "_call_model_processors", new2 if fail == "imported" else new1, cached)
        left = dict(repo[".all_models"][".filename_to_model"]) if with_repo else None
        scenario.plog = plog
        scenario.new3 = new3
        return (k if k == "ret" else "raise " + v.cls, left, (old1, old2, new1, new2), ran)
    W = "TextXMetaModel._call_model_processors"
    def rep(what, ok, msg):
        nonlocal inst
        inst += 1; ob("C15", "C15.j", MMF, W, what, ok)
        if not ok: out.append(Finding("C15", "C15.j", MMF, W, what, msg, witness="global_repository=True, a multi-file model and a model processor that raises"))
    k, left, ms, ran = scenario(True)
    if left is None: raise AnalysisError("_cached_model_ids: %s" % k)
    old1, old2, new1, new2 = ms
    rep("a failing model processor: the error propagates", k == "raise ValueError" and ran == [new1], "a model processor raising ValueError: _call_model_processors %s" % k)
    rep("... the models added by this load are removed", not any(m_ is new1 or m_ is new2 or m_ is scenario.new3 for m_ in left.values()), "after a model processor failed the global repository still holds %s of this load: the main model and every model it imported (directly or not) must not stay cached (the next load would reuse half-processed models)" % [f for f, m_ in left.items() if m_ is new1 or m_ is new2 or m_ is scenario.new3])
    rep("... the models cached before stay", left.get("/m/old1.mdl") is old1 and left.get("/m/old2.mdl") is old2, "after a model processor failed the models cached before this load are %s: they must stay cached (same objects), a later load of those files would otherwise create second instances" % ("partly gone: " + str(sorted(left)) if left else "all gone"))
    # a model processor fails for the model loaded on behalf of another one: it leaves the repository, so nobody else can abandon it
    k, left, ms, ran = scenario("imported")
    plog = scenario.plog
    okp = k == "raise ValueError" and [e for e in plog if e[1] == "imported"] == [("restore", "imported"), ("release", "imported")] and [e for e in plog if e[1] == "deeper"] == [("restore", "deeper"), ("release", "deeper")]
    inst += 1; ob("C15", "C15.m", MMF, W, "a model removed from the repository while under construction has its user classes restored", okp)
    if not okp: out.append(Finding("C15", "C15.m", MMF, W, "models removed from the repository by the failure handler", "a model processor fails for a model that is loaded on behalf of another model (still under construction): _call_model_processors %s and removes it from the shared repository, with the clean-up calls %s on its parser; documented: the user-class instrumentation of that parser is restored and the collected attributes released (the enclosing load's clean-up finds its models through the repository and can no longer reach this one)" % (k, [e[0] for e in plog if e[1] == "imported"]), witness="global_repository=True, classes=[...], importURI, a model processor raising for the imported file"))
    k, left, ms, ran = scenario(False)
    okn = not scenario.plog
    inst += 1; ob("C15", "C15.m", MMF, W, "no failure: no parser is touched", okn)
    if not okn: out.append(Finding("C15", "C15.m", MMF, W, "successful model processors", "with succeeding model processors the parsers of the loaded models are told to %s: the instrumentation of a load that is still running would be undone" % scenario.plog))
    rep("no failure: nothing is removed", k == "ret" and len(left) == 5 and len(ran) == 1, "with a succeeding model processor _call_model_processors %s and the repository holds %d of 5 models" % (k, len(left)))
    k, left, ms, ran = scenario(True, with_repo=False)
    rep("no global repository: the error just propagates", k == "raise ValueError", "without a global repository a failing model processor gives %s" % k)
    return inst, out

def r_C17importuri(root):
    """C17.n  the ImportURI provider decided by evaluation (providers.py methods interpreted; the repositories are the
    interpreted classes of scoping/__init__.py; the wrapped scope provider and the repository's load functions are
    recording stand-ins):
      lookup   the referencing object's own model is asked first, then the models imported by it (local_models, in import
               order), then the meta-model's builtin models; the first answer that is not None is returned at once
      load_models   a model without repository gets a GlobalModelRepository of its own - sharing the meta-model's
               all_models when the meta-model has a global repository, a fresh one otherwise; an existing one is kept;
               then the imports are loaded with the encoding given
      imports  every object with an importURI is loaded once (search path or file pattern branch alike) with the encoding
               of the load, the importing model's parameters and add_to_local_models = False exactly when importAs is on and
               the import is named; the loaded models are recorded on the importing object"""
    P = "textx/scoping/providers.py"
    out = []; inst = 0
    t = load(root, P); ts = load(root, S)
    cds = {c.name: c for c in ts.body if isinstance(c, ast.ClassDef)}
    pcl = find(t, "ImportURI")
    fns = {f.name: f for f in pcl.body if isinstance(f, ast.FunctionDef)}
    fns.update({f.name: f for f in t.body if isinstance(f, ast.FunctionDef)})
    XREF = HS({".kind": "cls", ".__name__": "ObjCrossRef"})
    def rep(what, ok, msg, fn_="ImportURI", props_=("C17",), witness=""):
        nonlocal inst
        inst += 1
        for pr in props_:
            ob(pr, "C17.n", P, fn_, what, ok)
            if not ok: out.append(Finding(pr, "C17.n", P, fn_, what, msg, witness=witness))
    env0 = {"__classdefs__": cds, "__functions__": {f.name: f for f in ts.body if isinstance(f, ast.FunctionDef)}, "abspath": pyeval.PyFn(lambda p: p)}
    def base_env():
        return {"__classdefs__": cds, "__functions__": fns, "__module__": t, "ObjCrossRef": XREF, "abspath": pyeval.PyFn(lambda p: p if p.startswith("/") else "/abs/" + p), "dirname": pyeval.PyFn(lambda p: p.rsplit("/", 1)[0]), "join": pyeval.PyFn(lambda *a: "/".join(a)),
                "__keep__": ("abspath", "dirname", "join", "ObjCrossRef")}
    # ---------------------------------------------------------------- lookup order
    call = fns["__call__"]; cps = [a.arg for a in call.args.args]
    for what, answers, want in (("the own model answers", {"own": "own-hit", "imp1": "imp1-hit", "b1": "b1-hit"}, "own-hit"), ("only the second imported model and a builtin model answer", {"imp2": "imp2-hit", "b1": "b1-hit"}, "imp2-hit"),
                               ("both imported models answer", {"imp1": "imp1-hit", "imp2": "imp2-hit"}, "imp1-hit"), ("only builtin models answer", {"b1": "b1-hit", "b2": "b2-hit"}, "b1-hit"), ("nobody answers", {}, None)):
        repo = pyeval.instantiate("GlobalModelRepository", [], {}, env0)
        mm = HS({".kind": "metamodel", ".builtin_models": [HS({".kind": "model", ".tag": "b1"}), HS({".kind": "model", ".tag": "b2"})]})
        model = HS({".kind": "model", ".tag": "own", "._tx_model_repository": repo, "._tx_metamodel": mm})
        for tag, fname in (("imp1", "/m/1"), ("imp2", "/m/2")): repo[".local_models"][".filename_to_model"][fname] = HS({".kind": "model", ".tag": tag})
        obj = HS({".kind": "obj", ".parent": model}); asked = []
        def inner(scope, attr, ref):
            tag = "own" if scope is obj else scope.get(".tag"); asked.append(tag); return answers.get(tag)
        env = base_env(); env.update({cps[0]: HS({".kind": "provider", ".scope_provider": pyeval.PyFn(inner)}), cps[1]: obj, cps[2]: HS({".name": "a"}), cps[3]: HS({".__class__": XREF, ".obj_name": "n", ".cls": None}),
                                      "get_model": pyeval.PyFn(lambda o: model)})
        try: k, v = "ret", pyeval.run_block(call.body, env)
        except pyeval.Raised as r_: k, v = "raise", r_.cls
        except pyeval.Unsupported as u_: raise AnalysisError("ImportURI.__call__: outside the evaluated subset: %s" % u_)
        order = ["own", "imp1", "imp2", "b1", "b2"]; exp_asked = order[: order.index(next((x for x in order if x in answers), "b2")) + 1]
        rep("lookup: %s" % what, k == "ret" and v == want and asked == exp_asked, "when %s the provider %s after asking %s; documented: %r after asking %s (own model, then imported models in import order, then builtin models; the first answer wins)" % (what, "returns %r" % (v,) if k == "ret" else "raises %s" % v, asked, want, exp_asked), "ImportURI.__call__")
    # ---------------------------------------------------------------- load_models
    lm = fns["load_models"]; lps = [a.arg for a in lm.args.args]
    for what in ("meta-model with a global repository", "meta-model with a global repository, model loaded from a string", "meta-model without", "model that already has a repository"):
        glob_repo = pyeval.instantiate("GlobalModelRepository", [], {}, env0)
        mm = HS({".kind": "metamodel"})
        if what.startswith("meta-model with a"): mm["._tx_model_repository"] = glob_repo
        model = HS({".kind": "model", "._tx_metamodel": mm, "._tx_filename": None if "string" in what else "/m/main"})
        own = pyeval.instantiate("GlobalModelRepository", [], {}, env0)
        if what.startswith("model that"): model["._tx_model_repository"] = own
        seen = []
        self_ = HS({".kind": "provider", "._load_referenced_models": pyeval.PyFn(lambda m, encoding=None, **k: seen.append((m, encoding)))})
        env = base_env(); env.update({lps[0]: self_, lps[1]: model, "get_metamodel": pyeval.PyFn(lambda m: mm), "encoding": "latin-1"})
        env["__functions__"] = {k_: v_ for k_, v_ in fns.items() if k_ != "_load_referenced_models"}
        for p_ in lps[2:]: env[p_] = "latin-1"
        try: pyeval.run_block(lm.body, env); err = None
        except pyeval.Raised as r_: err = "raises " + r_.cls
        except pyeval.Unsupported as u_: raise AnalysisError("ImportURI.load_models: outside the evaluated subset: %s" % u_)
        r_ = model.get("._tx_model_repository")
        if what.startswith("model that"): ok = err is None and r_ is own
        elif what.startswith("meta-model with a"): ok = err is None and isinstance(r_, pyeval.Inst) and r_ is not glob_repo and r_.get(".all_models") is glob_repo.get(".all_models") and r_.get(".local_models") is not glob_repo.get(".local_models")
        else: ok = err is None and isinstance(r_, pyeval.Inst) and isinstance(r_.get(".all_models"), pyeval.Inst) and r_.get(".all_models") is not glob_repo.get(".all_models")
        ok = ok and seen == [(model, "latin-1")]
        rep("load_models: %s" % what, ok, "load_models on a %s: %s; the imports are then loaded %s; documented: %s, then the imports are loaded once with the encoding of the load" % (what, err or ("the model's repository is " + ("kept" if r_ is own else "the meta-model's repository object itself" if r_ is glob_repo else "a new one" if isinstance(r_, pyeval.Inst) else "missing")), seen and [e_ for _m, e_ in seen], "the existing repository is kept" if what.startswith("model that") else ("a repository of its own that shares the meta-model's all_models (own local_models)" if what.startswith("meta-model with a") else "a fresh repository")), "ImportURI.load_models", props_=("C17", "C16"))
    # ---------------------------------------------------------------- imports
    lr = fns["_load_referenced_models"]; rps = [a.arg for a in lr.args.args]
    for search_path in (None, ["/lib"]):
        for import_as in (False, True):
            for named in (False, True):
                log = []
                def rec(kind):
                    def f(*a, **k): log.append((kind, a, k)); return HS({".kind": "model", ".tag": "loaded"}) if kind == "search" else [HS({".kind": "model", ".tag": "loaded"})]
                    return pyeval.PyFn(f)
                params = HS({".kind": "params"})
                model = HS({".kind": "model", "._tx_filename": "/m/main.mdl", "._tx_model_params": params, "._tx_model_repository": HS({".load_model_using_search_path": rec("search"), ".load_models_using_filepattern": rec("pattern")})})
                imp = HS({".kind": "obj", ".importURI": "other.mdl", ".parent": model})
                if named: imp[".name"] = "alias"
                self_ = HS({".kind": "provider", ".search_path": search_path, ".importAs": import_as, ".importURI_converter": pyeval.PyFn(lambda x: x), ".importURI_to_scope_name": None, ".glob_args": {}})
                env = base_env(); env.update({rps[0]: self_, rps[1]: model, "get_children": pyeval.PyFn(lambda sel, root_obj, *a, **k: [o for o in [imp] if sel(o)])})
                for p_ in rps[2:]: env[p_] = "latin-1"
                try: pyeval.run_block(lr.body, env); err = None
                except pyeval.Raised as r_: err = "raises " + r_.cls
                except pyeval.Unsupported as u_: raise AnalysisError("ImportURI._load_referenced_models: outside the evaluated subset: %s" % u_)
                want_local = not (import_as and named)
                what = "%s, importAs %s, %s import" % ("search path" if search_path else "file pattern", "on" if import_as else "off", "named" if named else "unnamed")
                ok = err is None and len(log) == 1 and log[0][0] == ("search" if search_path else "pattern")
                kw = log[0][2] if log else {}
                ok = ok and kw.get("encoding") == "latin-1" and kw.get("model_params") is params and kw.get("add_to_local_models") is want_local and kw.get("model") is model and isinstance(imp.get("._tx_loaded_models"), list) and len(imp["._tx_loaded_models"]) == 1
                rep("imports: %s" % what, ok, "importing 'other.mdl' (%s): %s with encoding=%r, the model's parameters %s, add_to_local_models=%r; documented: one load through the %s function with encoding 'latin-1', the importing model's parameters and add_to_local_models=%s, the result recorded on the importing object" % (what, err or "%d load(s) through %s" % (len(log), [x[0] for x in log]), kw.get("encoding"), "passed" if kw.get("model_params") is params else "NOT passed", kw.get("add_to_local_models"), "search-path" if search_path else "file-pattern", want_local), "ImportURI._load_referenced_models", props_=("C17", "C27", "C28"), witness="import 'other' as alias with importAs and a search path")
    return inst, out

def r_globalrepo(root):
    """C16.h  the GlobalRepo provider object is configuration, not state, decided by evaluation of GlobalRepo.__init__ /
    register_models / _load_referenced_models (providers.py) with a recording model repository:
       every load hands each registered pattern to load_models_using_filepattern - a relative pattern joined to THAT
       model's project_root, an absolute one as it is - together with the model, the provider's glob_args, the encoding
       and that model's parameters; directly added models are added to the model's repository;
       after any number of loads (also of models given as strings, also of models that fail later) the provider holds
       the registered patterns and the directly added models it held before - no load leaves a trace in the provider."""
    P = "textx/scoping/providers.py"; out = []; inst = 0
    t = load(root, P); cds = {c.name: c for c in t.body if isinstance(c, ast.ClassDef)}
    ts = load(root, S); cds_s = {c.name: c for c in ts.body if isinstance(c, ast.ClassDef)}
    allc = dict(cds_s); allc.update(cds)
    if "GlobalRepo" not in cds: raise AnalysisError("providers.py: class GlobalRepo not found")
    env = {"__classdefs__": allc, "__functions__": {f.name: f for f in t.body if isinstance(f, ast.FunctionDef)}, "__module__": t,
           "isabs": pyeval.PyFn(lambda p_: str(p_).startswith("/")), "join": pyeval.PyFn(lambda *a_: "/".join(str(x_).rstrip("/") if i_ < len(a_) - 1 else str(x_) for i_, x_ in enumerate(a_))),
           "abspath": pyeval.PyFn(lambda p_: p_ if str(p_).startswith("/") else "/cwd/" + str(p_)), "dirname": pyeval.PyFn(lambda p_: str(p_).rsplit("/", 1)[0]),
           "scoping": {".ModelLoader": pyeval.ClassRef("ModelLoader"), ".GlobalModelRepository": pyeval.ClassRef("GlobalModelRepository")}}
    for c_ in allc: env.setdefault(c_, pyeval.ClassRef(c_))
    inner = HS({".kind": "callable", ".tag": "the wrapped provider"}); gargs = {"recursive": True}
    def call(o, meth, *a, **k):
        c_, f_ = pyeval.find_method(allc, o[".__cls__"], meth)
        if f_ is None: raise AnalysisError("GlobalRepo.%s not found" % meth)
        try: return ("ret", pyeval.call_method_of(o, c_, f_, list(a), k, env))
        except pyeval.Raised as r_: return ("raise", r_.cls)
        except pyeval.Unsupported as u_: raise AnalysisError("GlobalRepo.%s: outside the evaluated subset: %s" % (meth, u_))
    try: prov = pyeval.instantiate("GlobalRepo", [inner], {"filename_pattern": "lib/*.mdl", "glob_args": gargs}, env)
    except pyeval.Unsupported as u_: raise AnalysisError("GlobalRepo(): outside the evaluated subset: %s" % u_)
    except pyeval.Raised as r_: raise AnalysisError("GlobalRepo() raises %s" % r_.cls)
    call(prov, "register_models", "/abs/std/*.mdl")
    direct = HS({".kind": "model", "._tx_filename": None, ".tag": "added directly"})
    call(prov, "add_model", direct)
    W = "GlobalRepo._load_referenced_models"
    def rep(what, ok, msg, props_=("C16", "C17", "C18")):
        nonlocal inst
        inst += 1
        for pr in props_:
            ob(pr, "C16.h", P, W, what, ok)
            if not ok: out.append(Finding(pr, "C16.h", P, W, what, msg, witness="one meta-model with a GlobalRepo provider (relative pattern), two loads with different project_root / a model given as a string"))
    def state():
        return (list(prov.get(".filename_pattern_list") or []), list(prov.get(".models_to_be_added_directly") or []))
    st0 = state()
    rep("the provider keeps the registered patterns and directly added models", st0[0] == ["lib/*.mdl", "/abs/std/*.mdl"] and len(st0[1]) == 1 and st0[1][0] is direct,
        "a provider created with the pattern lib/*.mdl, then register_models('/abs/std/*.mdl') and add_model(m) holds patterns %s and %d directly added models; documented: both patterns in registration order and the model" % (st0[0], len(st0[1])))
    def load_(model):
        log = []
        model["._tx_model_repository"] = {".load_models_using_filepattern": pyeval.PyFn(lambda *a_, **k_: log.append(("pattern", a_, k_))), "._add_model": pyeval.PyFn(lambda m_: log.append(("add", m_)))}
        return call(prov, "_load_referenced_models", model, "latin-1"), log
    params1 = {"project_root": "/p1"}; params2 = {"project_root": "/p2"}; params3 = {}
    m1 = HS({".kind": "model", "._tx_filename": "/p1/a.mdl", "._tx_model_params": params1})
    m2 = HS({".kind": "model", "._tx_filename": "/p2/b.mdl", "._tx_model_params": params2})
    m3 = HS({".kind": "model", "._tx_filename": None, "._tx_model_params": params3})           # a model given as a string, no project_root
    for what, m_, params, want_pat in (("first load, project_root /p1", m1, params1, ["/p1/lib/*.mdl", "/abs/std/*.mdl"]), ("second load, project_root /p2", m2, params2, ["/p2/lib/*.mdl", "/abs/std/*.mdl"]),
                                       ("a model given as a string, no project_root", m3, params3, ["lib/*.mdl", "/abs/std/*.mdl"]), ("the first file again", m1, params1, ["/p1/lib/*.mdl", "/abs/std/*.mdl"])):
        (k, v), log = load_(m_)
        pats = [e for e in log if e[0] == "pattern"]; adds = [e[1] for e in log if e[0] == "add"]
        got_pat = [(e[1][0] if e[1] else e[2].get("filename_pattern")) for e in pats]
        okp = k == "ret" and got_pat == want_pat and all(e[2].get("model") is m_ and e[2].get("glob_args") is gargs and e[2].get("encoding") == "latin-1" and e[2].get("model_params") is params for e in pats) and len(adds) == 1 and adds[0] is direct
        rep(what + ": patterns, model, glob_args, encoding and parameters handed to the repository", okp,
            "%s: _load_referenced_models %s and asks the model's repository for the patterns %s (documented %s: a relative pattern is joined to the project_root of the model being loaded, an absolute one is used as it is) %s, and adds %d model(s) directly (documented: the one added with add_model)" % (what, "completes" if k == "ret" else "raises " + str(v), got_pat, want_pat, "with the model, the provider's glob_args, the encoding and the model's parameters" if all(e[2].get("model") is m_ and e[2].get("glob_args") is gargs and e[2].get("encoding") == "latin-1" and e[2].get("model_params") is params for e in pats) else "but not with this model / the provider's glob_args / the encoding / this model's parameters", len(adds)))
        st = state()
        rep(what + ": the provider is unchanged afterwards", st[0] == st0[0] and len(st[1]) == len(st0[1]) and all(x_ is y_ for x_, y_ in zip(st[1], st0[1])),
            "after %s the provider holds the patterns %s and %d directly added model(s); before: %s and %d - a load must not leave a trace in the provider object (it serves every later load of the meta-model)" % (what, st[0], len(st[1]), st0[0], len(st0[1])))
    # ---- load_models_in_model_repo: the repository the caller gives is the one that is filled and returned - also when it is still empty
    W2 = "GlobalRepo.load_models_in_model_repo"
    if pyeval.find_method(allc, "GlobalRepo", "load_models_in_model_repo")[1] is None: raise AnalysisError("GlobalRepo.load_models_in_model_repo not found")
    env["textx"] = {".scoping": env["scoping"]}; env["__keep__"] = tuple(env.get("__keep__") or ()) + ("textx", "scoping", "glob"); env["glob"] = {".glob": pyeval.PyFn(lambda *a_, **k_: [])}; env["ModelParams"] = pyeval.PyFn(lambda d=None, **k: HS({".kind": "ModelParams", ".given": dict(d if d is not None else k)}))
    def filled_repo(n):
        try: r_ = pyeval.instantiate("GlobalModelRepository", [], {}, env)
        except pyeval.Unsupported as u_: raise AnalysisError("GlobalModelRepository(): outside the evaluated subset: %s" % u_)
        log_ = []
        r_[".load_models_using_filepattern"] = pyeval.PyFn(lambda *a_, **k_: log_.append((a_, k_)))
        for i_ in range(n): r_[".all_models"][".filename_to_model"]["/old/%d.mdl" % i_] = HS({".kind": "model"})
        return r_, log_
    for n_ in (0, 2):
        given, log_ = filled_repo(n_)
        k, v = call(prov, "load_models_in_model_repo", global_model_repo=given, encoding="latin-1", project_root="/pr")
        pats_ = [(e[0][0] if e[0] else e[1].get("filename_pattern")) for e in log_]
        okr = k == "ret" and v is given and pats_ == st0[0] and all(e[1].get("encoding") == "latin-1" and e[1].get("glob_args") is gargs and e[1].get("is_main_model") is True for e in log_)
        rep("load_models_in_model_repo with a given repository holding %d model(s)" % n_, okr, "load_models_in_model_repo(global_model_repo=<a GlobalModelRepository holding %d models>, encoding='latin-1') %s and asks the given repository for the patterns %s; documented: the registered patterns %s are loaded into the repository the caller gave - also a still empty one (it is the one the caller shares with the meta-model) - and that repository is returned" % (n_, "returns the given repository" if k == "ret" and v is given else ("raises %s" % v if k == "raise" else "returns another repository"), pats_, st0[0]))
    return inst, out
