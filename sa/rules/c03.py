"""C03 additional clauses
   C03.f  abstract-rule result selection in process_node: among the referenced rules of the matched alternative the
          first whose kind is *not match* (common or abstract) is the result — guard evaluated over the finite kind
          domain {RULE_COMMON, RULE_ABSTRACT, RULE_MATCH};
   C03.g  the change flag of the rule-kind fixpoint is sticky within a pass: inside the per-class function it is only
          ever set to True (an assignment of a computed value lets a later, stable class clear a change made earlier
          in the same pass and stops the fixpoint early);
   C03.h  cycle guards (visited sets) in recursions over user-shaped graphs are keyed by identity (id(x) or x), never
          by a name-like projection that two different classes can share; a visited hit skips the element, it does not
          end the search;
   C03.d  textx_isinstance decision table (rewritten on path atoms)."""
import ast
from sa.util import *
from sa import atoms, sem
M = "textx/model.py"; L = "textx/lang.py"
KINDS = ("RULE_COMMON", "RULE_ABSTRACT", "RULE_MATCH")
class _NotKind(Exception): pass
def _eval_kind_guard(test, kind, subject_pred):
    """evaluate a boolean guard in which `<subject>._tx_type`-like operands take the value `kind`; other atoms -> _NotKind"""
    if isinstance(test, ast.BoolOp):
        vs = [_eval_kind_guard(v, kind, subject_pred) for v in test.values]
        return all(vs) if isinstance(test.op, ast.And) else any(vs)
    if isinstance(test, ast.UnaryOp) and isinstance(test.op, ast.Not): return not _eval_kind_guard(test.operand, kind, subject_pred)
    if isinstance(test, ast.Compare) and len(test.ops) == 1:
        l, r = test.left, test.comparators[0]; op = test.ops[0]
        def val(e):
            if isinstance(e, ast.Name) and e.id in KINDS: return [e.id]
            if isinstance(e, (ast.Tuple, ast.List, ast.Set)) and all(isinstance(x, ast.Name) and x.id in KINDS for x in e.elts): return [x.id for x in e.elts]
            if subject_pred(e): return "S"
            raise _NotKind(ast.unparse(e))
        a, b = val(l), val(r)
        if a == "S" and b != "S":
            if isinstance(op, (ast.Is, ast.Eq)): return kind == b[0]
            if isinstance(op, (ast.IsNot, ast.NotEq)): return kind != b[0]
            if isinstance(op, ast.In): return kind in b
            if isinstance(op, ast.NotIn): return kind not in b
        if b == "S" and a != "S" and isinstance(op, (ast.Is, ast.Eq, ast.IsNot, ast.NotEq)):
            return (kind == a[0]) == isinstance(op, (ast.Is, ast.Eq))
    raise _NotKind(ast.unparse(test))
def r_C03fgh(root):
    out = []; inst = 0
    t = load(root, M)
    # C03.f (what an abstract rule yields) is decided by evaluation: C03.n (sa/rules/cpn.py)
    # ---------------- C03.g sticky change flag
    lt = load(root, L); drt = find(lt, "TextXVisitor._determine_rule_types")
    wl = next((n for n in own_nodes(drt) if isinstance(n, ast.While)), None)
    if wl is None: raise AnalysisError("fixpoint loop of _determine_rule_types not found")
    flag = ast.unparse(wl.test)
    inner = find(lt, "TextXVisitor._determine_rule_types._determine_rule_type")
    stores = []
    for n in ast.walk(inner):
        if isinstance(n, (ast.Assign, ast.AugAssign, ast.AnnAssign)):
            tg = n.targets if isinstance(n, ast.Assign) else [n.target]
            if any(ast.unparse(x) == flag for x in tg): stores.append(n)
    if not stores: raise AnalysisError("no store to the change flag %s inside the pass function" % flag)
    for s in stores:
        inst += 1
        okg = isinstance(s, ast.Assign) and isinstance(s.value, ast.Constant) and s.value.value is True
        okg = okg or (isinstance(s, ast.AugAssign) and isinstance(s.op, ast.BitOr))
        ob("C03", "C03.g", L, "_determine_rule_type", ast.unparse(s), okg)
        if not okg: out.append(Finding("C03", "C03.g", L, "_determine_rule_type", ast.unparse(s), "the fixpoint's change flag is assigned a computed value: a class processed later in the same pass clears a change recorded earlier, the loop stops before the kinds have settled", witness="P: X | C; X: '(' Y ')' | '[' P ']' | 'x'; Y: '<' X '>' | 'y'; followed by an unrelated stable abstract rule"))
    resets = [n for n in wl.body if isinstance(n, ast.Assign) and any(ast.unparse(x) == flag for x in n.targets)]
    inst += 1
    okr = len(resets) == 1 and isinstance(resets[0].value, ast.Constant) and resets[0].value.value is False and wl.body.index(resets[0]) == 0
    ob("C03", "C03.g", L, "_determine_rule_types", "reset of %s at the top of each pass" % flag, okr)
    if not okr: out.append(Finding("C03", "C03.g", L, "_determine_rule_types", ast.unparse(wl)[:80], "the change flag is not reset exactly once at the top of each pass"))
    # ---------------- C03.h identity-keyed visited sets, skip-not-stop
    for rel, qual, recname in ((M, "textx_isinstance", "textx_isinstance"),):
        fn = find(load(root, rel), qual); fih = sem.info(fn)
        rec = [c for c in calls(fn, own=True) if callee_name(c) == recname]
        adds = [c for c in calls(fn, own=True) if isinstance(c.func, ast.Attribute) and c.func.attr == "add" and "visited" in ast.unparse(c.func.value)]
        tests = [n for n in own_nodes(fn) if isinstance(n, ast.Compare) and isinstance(n.ops[0], (ast.In, ast.NotIn)) and "visited" in ast.unparse(n.comparators[0])]
        if not rec: continue
        if not adds or not tests: continue      # absence of the guard is C03.c's finding
        def key_ok(e):
            if isinstance(e, ast.Call) and getattr(e.func, "id", "") == "id" and len(e.args) == 1 and isinstance(e.args[0], ast.Name): return True
            return isinstance(e, ast.Name)
        for c in adds:
            inst += 1; okh = key_ok(c.args[0])
            ob("C03", "C03.h", rel, qual, ast.unparse(c), okh)
            if not okh: out.append(Finding("C03", "C03.h", rel, qual, ast.unparse(c), "the cycle guard is keyed by %s, which different classes can share (e.g. rules with the same name in different grammar files); the second one is wrongly treated as already visited" % ast.unparse(c.args[0]), witness="imported grammars main.Element -> mid.Widget -> leaf.Element -> Icon"))
        for n in tests:
            inst += 1; okh = key_ok(n.left)
            ob("C03", "C03.h", rel, qual, ast.unparse(n), okh)
            if not okh: out.append(Finding("C03", "C03.h", rel, qual, ast.unparse(n), "the cycle guard is tested with %s, which different classes can share" % ast.unparse(n.left)))
        # a visited hit must only skip that element: no `return False` / `break` control-dependent on a visited hit
        for n in own_nodes(fn):
            if isinstance(n, (ast.Return, ast.Break)) and not (isinstance(n, ast.Return) and isinstance(n.value, ast.Constant) and n.value.value is True):
                for g, pol in fih.guards(n):
                    u = ast.unparse(g)
                    if "visited" in u and ((" in " in u and " not in " not in u and pol) or (" not in " in u and not pol)):
                        inst += 1
                        out.append(Finding("C03", "C03.h", rel, qual, ast.unparse(n), "meeting an already visited class ends the whole search instead of skipping that class: the remaining inheritors are never examined", witness="Elem: Drawable | Printable; Drawable: Circle | Square; Printable: Circle | Page; reference to Elem naming a Page"))
    # ---------------- C03.d decision table of textx_isinstance
    ti = find(t, "textx_isinstance")
    _fit = sem.info(ti)
    names, rows = atoms.table(ti.body, feasible=None, expand=lambda test: _fit.expand(test, at=test))
    def cls_atom(a):
        u = a.replace(" ", "")
        if u in ("obj_cls.__name__=='OBJECT'", "'OBJECT'==obj_cls.__name__"): return "object"
        if u == "isinstance(obj,obj_cls)": return "inst"
        if "_tx_fqn" in u and "==" in u: return "fqn"
        if u.startswith("hasattr(") and "_tx_fqn" in u: return "hasfqn"
        if u.startswith("hasattr(obj_cls,'_tx_inh_by')"): return "hasinh"
        if "visited" in u or "textx_isinstance(" in u: return "rec"
        return None
    unk = [a for a in names if cls_atom(a) is None]
    if unk: raise AnalysisError("textx_isinstance: guard outside the supported atom set: %s" % unk)
    for a in names:
        if cls_atom(a) == "fqn":
            inst += 1
            okq = a.replace(" ", "") in ("obj_cls._tx_fqn==obj._tx_fqn", "obj._tx_fqn==obj_cls._tx_fqn")
            ob("C03", "C03.d", M, "textx_isinstance", "qualified-name conformance compares the full names: " + a, okq)
            if not okq: out.append(Finding("C03", "C03.d", M, "textx_isinstance", a, "conformance by qualified name does not compare the two full qualified names (a projection such as the last component makes same-named rules of different grammars conform to each other)", witness="a grammar importing another grammar, both defining a rule Item; a reference [Item] and an object of the imported lib.Item"))
    for want_true, cond in (("object", lambda v: v("object")), ("inst", lambda v: v("inst")), ("fqn", lambda v: v("fqn") and v("hasfqn"))):
        inst += 1
        bad = []
        for r in rows:
            def v(k, r=r):
                xs = [val for a, val in r.val.items() if cls_atom(a) == k]
                return bool(xs) and all(xs)
            decided_here = cond(v) and not any(cond2(v) for nm, cond2 in (("object", lambda v: v("object")), ("inst", lambda v: v("inst"))) if nm != want_true and nm in ("object", "inst") and ("object", "inst", "fqn").index(nm) < ("object", "inst", "fqn").index(want_true))
            if cond(v) and not (r.exit_kind == "return" and r.exit_text() == "return True"): bad.append(r)
        okd = not bad
        ob("C03", "C03.d", M, "textx_isinstance", "case %s -> True" % want_true, okd)
        if bad: out.append(Finding("C03", "C03.d", M, "textx_isinstance", "case " + want_true, "conformance case %r (OBJECT / Python instance / equal qualified name) does not yield True on every path: %s" % (want_true, bad[0].exit_text() or "falls through")))
    inst += 1
    rec_rows = [r for r in rows if r.exit_kind == "fall" or (r.exit_kind == "return" and r.exit_text() == "return False")]
    has_rec = any(callee_name(c) == "textx_isinstance" for c in calls(ti, own=True))
    ob("C03", "C03.d", M, "textx_isinstance", "inheritors are searched recursively, default False", has_rec and bool(rec_rows))
    if not has_rec: out.append(Finding("C03", "C03.d", M, "textx_isinstance", "recursion over _tx_inh_by", "inheritors of an abstract class are not searched"))
    return inst, out

def r_C03j(root):
    """C03.j  the static inference of rule kinds / inheritance and the result selection at run time agree on what can
       yield a result: syntactic predicates (And / Not) consume nothing and leave no parse-tree node, so the two walkers
       of _determine_rule_type (_has_nonmatch_ref, _add_reffered_classes) skip them — every use of a node's `.root` /
       `._tx_class` in these walkers lies where the node is known not to be an And/Not."""
    import re as _re
    L = "textx/lang.py"; out = []; inst = 0
    t = load(root, L)
    for q in ("TextXVisitor._determine_rule_types._determine_rule_type._has_nonmatch_ref", "TextXVisitor._determine_rule_types._determine_rule_type._add_reffered_classes"):
        fn = find(t, q); fi = sem.info(fn)
        uses = [x for x in own_nodes(fn) if isinstance(x, ast.Attribute) and x.attr == "root" and isinstance(x.value, ast.Name) and isinstance(x.ctx, ast.Load)]
        if not uses: raise AnalysisError("%s: no use of .root found" % q)
        for u in uses:
            inst += 1; v = u.value.id
            ok = any((not pol) and _re.match(r"isinstance\(%s,\s*(\(?\s*(And|Not)\s*,\s*(And|Not)\s*\)?|SyntaxPredicate)\)" % _re.escape(v), a) for a, pol in fi.atoms_at(u))
            ob("C03", "C03.j", L, q.split(".")[-1], "%s.root is read only for nodes that are not syntactic predicates" % v, ok)
            if not ok: out.append(Finding("C03", "C03.j", L, q.split(".")[-1], " ".join(ast.unparse(stmt_of(u)).split())[:90], "a rule referenced inside a syntactic predicate (!X / &X) is taken as a class the rule yields: the predicate leaves no result at run time, so the rule kind and the inheritance list disagree with the objects the rule produces (textx_isinstance is False for them)", witness="A: !B C | B;   — the C objects do not conform to A"))
    return inst, out

def r_C03k(root):
    """C03.k  the visited set of one typing pass lives for one pass: the set that _determine_rule_type consults to return
       early (`if cls in S: return`) is created anew inside the `while has_change` loop, before the classes are visited.
       Created once outside the loop it makes every pass after the first a no-op, and the fixpoint never sees the kinds
       learned in the first pass (cyclic rules stay 'match')."""
    L = "textx/lang.py"; out = []; inst = 0
    t = load(root, L); outer = find(t, "TextXVisitor._determine_rule_types"); inner = find(t, "TextXVisitor._determine_rule_types._determine_rule_type")
    fi = sem.info(inner); p0 = inner.args.args[0].arg
    S = None
    for n in inner.body[:4]:
        if isinstance(n, ast.If) and any(isinstance(b, ast.Return) for b in n.body):
            for x in ast.walk(n.test):
                if isinstance(x, ast.Compare) and len(x.ops) == 1 and isinstance(x.ops[0], ast.In) and isinstance(x.left, ast.Name) and x.left.id == p0 and isinstance(x.comparators[0], ast.Name): S = x.comparators[0].id
    if S is None: raise AnalysisError("_determine_rule_type: visited-set guard not found")
    loops = [n for n in own_nodes(outer) if isinstance(n, ast.While) and "has_change" in ast.unparse(n.test)]
    if not loops: raise AnalysisError("_determine_rule_types: change-driven loop not found")
    inst += 1
    lp = loops[0]
    created = [n for n in ast.walk(lp) if isinstance(n, ast.Assign) and any(isinstance(tg, ast.Name) and tg.id == S for tg in n.targets) and ast.unparse(n.value) in ("set()", "{}", "[]", "dict()", "list()")]
    cleared = [n for n in ast.walk(lp) if isinstance(n, ast.Call) and isinstance(n.func, ast.Attribute) and n.func.attr == "clear" and ast.unparse(n.func.value) == S]
    visit = next((n for n in ast.walk(lp) if isinstance(n, ast.Call) and callee_name(n) == inner.name), None)
    ok = bool(created or cleared) and visit is not None and all(x.lineno < visit.lineno for x in created + cleared)
    ob("C03", "C03.k", L, "TextXVisitor._determine_rule_types", "visited set %s is re-created in every pass of the fixpoint" % S, ok)
    if not ok:
        for pr in ("C03", "C01"):
            out.append(Finding(pr, "C03.k", L, "TextXVisitor._determine_rule_types", "while has_change[0]: ... %s" % S, "the visited set %s is not re-created at the start of each pass: after the first pass every class counts as visited, the later passes do nothing and rule kinds that depend on a rule typed later (circular references) stay 'match'" % S, witness="Expr: Paren | Num; Paren: '(' Expr ')'; Num: v=INT;  input (5)"))
    return inst, out
