"""C08 deeper clauses: the positional store of list references is sound only if
   C08.b  the index comes from a position table that (i) is specific to the indexed list (its key covers the list's
          determinants injectively), (ii) lives across resolution rounds, (iii) is updated in parallel with the list
          (same index, same key) and by nothing else;
   C08.c  every queued list reference carries the position of its own element (loop-variant, same node as its end
          position and its name)."""
import ast
from sa.util import *
from sa import sem
M = "textx/model.py"
def _names(e): return {x.id for x in ast.walk(e) if isinstance(x, ast.Name)}
def _single_def(fi, at_node, var):
    """the unique `var = <expr>` reaching at_node, else None"""
    n = fi.node_of(at_node)
    if n is None: return None
    defs = fi.rd.defs_of(n, var)
    if len(defs) != 1: return None
    dn = fi.cfg.nodes[defs[0]]
    a = dn.ast
    if dn.kind == "stmt" and isinstance(a, ast.Assign) and len(a.targets) == 1 and isinstance(a.targets[0], ast.Name): return a
    return None
def _injective_in(key, var):
    """does `key` contain `var` itself or id(var) / var.name-like *identity* (not a lossy projection)?  returns 'id'|'self'|'attr:<x>'|None"""
    for x in ast.walk(key):
        if isinstance(x, ast.Call) and getattr(x.func, "id", "") == "id" and len(x.args) == 1 and isinstance(x.args[0], ast.Name) and x.args[0].id == var: return "id"
    for x in ast.walk(key):
        if isinstance(x, ast.Attribute) and isinstance(x.value, ast.Name) and x.value.id == var: return "attr:" + x.attr
    for x in ast.walk(key):
        if isinstance(x, ast.Name) and x.id == var: return "self"
    return None
def r_C08bc(root):
    t = load(root, M); out = []; inst = 0
    from sa.rules import resolver as RS
    R = RS.roles(root); fn, loop = R.fn, R.loop; fi = sem.info(fn)
    v_obj, v_attr, v_ref = R.v_obj, R.v_attr, R.v_ref
    stores = [c for c in calls(loop) if isinstance(c.func, ast.Attribute) and c.func.attr == "insert" and isinstance(c.func.value, ast.Name)]
    lst_stores = []
    for c in stores:
        d = _single_def(fi, c, c.func.value.id)
        if d is not None and isinstance(d.value, ast.Call) and getattr(d.value.func, "id", "") == "getattr" and _names(d.value) >= {v_obj, v_attr}: lst_stores.append((c, d))
    W = "ReferenceResolver.resolve_one_step"
    for c, ldef in lst_stores:
        inst += 1
        if len(c.args) != 2 or not isinstance(c.args[0], ast.Name): raise AnalysisError("positional store with a computed index expression is outside the supported idiom: " + ast.unparse(c))
        idxv = c.args[0].id; idef = _single_def(fi, c, idxv)
        ok_all = True
        def bad(construct, msg):
            nonlocal ok_all; ok_all = False
            out.append(Finding("C08", "C08.b", M, W, construct, msg, witness="an object with two reference lists / a list with three references and a provider that postpones one of them for one or two rounds"))
        if idef is None or not (isinstance(idef.value, ast.Call) and callee_name(idef.value) in ("bisect", "bisect_right", "bisect_left") and len(idef.value.args) >= 2):
            raise AnalysisError("index of the positional store is not a bisect over a position table (unsupported idiom): " + (ast.unparse(idef) if idef else idxv))
        tab, key = idef.value.args[0], idef.value.args[1]
        key_x = fi.expand(key, at=idef)
        if not (isinstance(key_x, ast.Attribute) and key_x.attr == "position" and isinstance(key_x.value, ast.Name) and key_x.value.id == v_ref):
            bad(ast.unparse(idef), "the list index is not computed from the position of the reference being stored (%s)" % ast.unparse(key_x))
        if not isinstance(tab, ast.Name): raise AnalysisError("position table is not a local name: " + ast.unparse(tab))
        tdef = _single_def(fi, idef, tab.id)
        if tdef is None: raise AnalysisError("position table %s has no unique definition" % tab.id)
        tv = tdef.value; tkey = None; store = None
        if isinstance(tv, ast.Call) and callee_name(tv) == "setdefault" and len(tv.args) == 2: store, tkey = tv.func.value, tv.args[0]
        elif isinstance(tv, ast.Subscript): store, tkey = tv.value, tv.slice
        else: raise AnalysisError("position table lookup outside the supported idioms: " + ast.unparse(tdef))
        tkey_x = fi.expand(tkey, at=tdef)
        # (i) key covers the determinants of the list, injectively
        for var, what in ((v_obj, "object"), (v_attr, "attribute")):
            how = _injective_in(tkey_x, var)
            inst += 1
            if how is None:
                bad(ast.unparse(tdef), "position table key %s does not depend on the %s that owns the list: different reference lists share one table and later references are inserted at the wrong index" % (ast.unparse(tkey_x), what))
            elif var == v_obj and how not in ("id", "self"):
                bad(ast.unparse(tdef), "position table key identifies the owning object by %s, which is not injective" % how[5:])
            elif var == v_attr and how not in ("id", "self", "attr:name"):
                bad(ast.unparse(tdef), "position table key identifies the attribute by %s, which is not injective" % how[5:])
        # (ii) the table store lives across rounds: rooted at self, never re-created inside resolve_one_step
        inst += 1
        root_ = store
        while isinstance(root_, ast.Attribute): root_ = root_.value
        if not (isinstance(root_, ast.Name) and root_.id == "self" and isinstance(store, ast.Attribute)):
            bad(ast.unparse(tdef), "position tables are kept in %s, which does not outlive one resolution round; postponed references are resolved in later rounds" % ast.unparse(store))
        else:
            for n in own_nodes(fn):
                if isinstance(n, (ast.Assign, ast.AugAssign)) and any(ast.unparse(tg) == ast.unparse(store) for tg in (n.targets if isinstance(n, ast.Assign) else [n.target])):
                    bad(ast.unparse(n), "position tables are re-created in every resolution round; references postponed to a later round lose their place")
                if isinstance(n, ast.Call) and isinstance(n.func, ast.Attribute) and n.func.attr in ("clear", "pop", "popitem") and ast.unparse(n.func.value) == ast.unparse(store):
                    bad(ast.unparse(n), "position tables are emptied during resolution")
            init = find(t, "ReferenceResolver.__init__")
            if not any(isinstance(n, ast.Assign) and any(ast.unparse(tg) == ast.unparse(store) for tg in n.targets) for n in own_nodes(init)):
                bad(ast.unparse(store), "position table store is not initialised in ReferenceResolver.__init__")
        # (iii) parallel update: exactly one mutation of the table: insert(idx, <same key>) on the same paths as the list store
        inst += 1
        muts = [m for m in calls(loop) if isinstance(m.func, ast.Attribute) and isinstance(m.func.value, ast.Name) and m.func.value.id == tab.id and m.func.attr in ("insert", "append", "extend", "sort", "pop", "remove", "reverse", "clear")]
        good = [m for m in muts if m.func.attr == "insert" and len(m.args) == 2 and isinstance(m.args[0], ast.Name) and m.args[0].id == idxv and ast.unparse(fi.expand(m.args[1], at=m)) == ast.unparse(key_x)]
        for m in muts:
            if m not in good: bad(ast.unparse(m), "the position table is not updated in parallel with the list (expected %s.insert(%s, %s)): later indices are computed from a table that no longer mirrors the list" % (tab.id, idxv, ast.unparse(key)))
        if not good: bad(ast.unparse(c), "the position of a stored reference is never recorded in the position table")
        else:
            ga = sorted((ast.unparse(g), p) for g, p in fi.guards(good[0])); gb = sorted((ast.unparse(g), p) for g, p in fi.guards(c))
            if ga != gb: bad(ast.unparse(good[0]), "position table and list are updated under different conditions")
            if not (fi.node_of(idef).id < fi.node_of(good[0]).id): bad(ast.unparse(good[0]), "the index is computed after the table was updated")
        ob("C08", "C08.b", M, W, ast.unparse(c), ok_all)
    if not lst_stores:
        # append-style stores are handled (and reported) by C08.a; nothing to check here
        pass
    # ---- C08.c element positions of queued references
    pn = find_i(root, M, "parse_tree_to_objgraph.process_node")
    ctor = [c for c in calls(pn, own=True) if callee_name(c) == "ObjCrossRef"]
    if len(ctor) < 2: raise AnalysisError("expected the scalar and the list construction of ObjCrossRef in process_node, found %d" % len(ctor))
    fip = sem.info(pn)
    for c in ctor:
        kw = {k.arg: k.value for k in c.keywords}
        if "position" not in kw: raise AnalysisError("ObjCrossRef built without position keyword: " + ast.unparse(c)[:80])
        inst += 1; okc = True
        pos = fip.expand(kw["position"], at=c)
        if not (isinstance(pos, ast.Attribute) and pos.attr == "position"):
            out.append(Finding("C08", "C08.c", M, "parse_tree_to_objgraph.process_node", "position=" + ast.unparse(kw["position"]), "reference position is not the start offset of a parse-tree node")); okc = False
        else:
            base = ast.unparse(pos.value)
            if "position_end" in kw:
                pe = fip.expand(kw["position_end"], at=c)
                if not (isinstance(pe, ast.Attribute) and pe.attr == "position_end" and ast.unparse(pe.value) == base):
                    out.append(Finding("C08", "C08.c", M, "parse_tree_to_objgraph.process_node", "position=%s, position_end=%s" % (ast.unparse(kw["position"]), ast.unparse(kw["position_end"])), "start and end of a reference are taken from different nodes")); okc = False
            # loop variance: inside a loop over the children every reference must carry its own element's position
            lp = next((a for a in ancestors(c) if isinstance(a, ast.For)), None)
            if lp is not None and lp in list(ast.walk(pn)):
                lv = {x.id for x in ast.walk(lp.target) if isinstance(x, ast.Name)}
                if not (_names(pos) & lv):
                    out.append(Finding("C08", "C08.c", M, "parse_tree_to_objgraph.process_node", "position=" + ast.unparse(kw["position"]), "every reference of the list gets the same position (%s does not depend on the loop variable %s): positional storage degenerates to resolution order" % (ast.unparse(pos), sorted(lv)))); okc = False
        ob("C08", "C08.c", M, "parse_tree_to_objgraph.process_node", "ObjCrossRef(position=%s)" % ast.unparse(kw["position"]), okc)
    return inst, out
