"""C08 deeper clauses: the positional store of list references is sound only if
   C08.b  the index comes from a position table that (i) is specific to the indexed list (its key covers the list's
          determinants injectively), (ii) lives across resolution rounds, (iii) is updated in parallel with the list
          (same index, same key) and by nothing else;
   C08.c  every queued list reference carries the position of its own element (loop-variant, same node as its end
          position and its name)."""
import ast
from sa.util import *
from sa import sem
M = "textx/model.py"
def _names(e): return {x.id for x in ast.walk(e) if isinstance(x, ast.Name)}
def _single_def(fi, at_node, var):
    """the unique `var = <expr>` reaching at_node, else None"""
    n = fi.node_of(at_node)
    if n is None: return None
    defs = fi.rd.defs_of(n, var)
    if len(defs) != 1: return None
    dn = fi.cfg.nodes[defs[0]]
    a = dn.ast
    if dn.kind == "stmt" and isinstance(a, ast.Assign) and len(a.targets) == 1 and isinstance(a.targets[0], ast.Name): return a
    return None
def _injective_in(key, var):
    """does `key` contain `var` itself or id(var) / var.name-like *identity* (not a lossy projection)?  returns 'id'|'self'|'attr:<x>'|None"""
    for x in ast.walk(key):
        if isinstance(x, ast.Call) and getattr(x.func, "id", "") == "id" and len(x.args) == 1 and isinstance(x.args[0], ast.Name) and x.args[0].id == var: return "id"
    for x in ast.walk(key):
        if isinstance(x, ast.Attribute) and isinstance(x.value, ast.Name) and x.value.id == var: return "attr:" + x.attr
    for x in ast.walk(key):
        if isinstance(x, ast.Name) and x.id == var: return "self"
    return None
def r_C08bc(root):
    t = load(root, M); out = []; inst = 0
    from sa.rules import resolver as RS
    R = RS.roles(root); fn, loop = R.fn, R.loop; fi = sem.info(fn)
    v_obj, v_attr, v_ref = R.v_obj, R.v_attr, R.v_ref
    # C08.b (position table) is subsumed by the schedule simulation C08.d (sa/rules/cres.py)
    # ---- C08.c element positions of queued references
    pn = find_i(root, M, "parse_tree_to_objgraph.process_node")
    ctor = [c for c in calls(pn, own=True) if callee_name(c) == "ObjCrossRef"]
    if len(ctor) < 2: raise AnalysisError("expected the scalar and the list construction of ObjCrossRef in process_node, found %d" % len(ctor))
    fip = sem.info(pn)
    for c in ctor:
        kw = {k.arg: k.value for k in c.keywords}
        if "position" not in kw: raise AnalysisError("ObjCrossRef built without position keyword: " + ast.unparse(c)[:80])
        inst += 1; okc = True
        pos = fip.expand(kw["position"], at=c)
        if not (isinstance(pos, ast.Attribute) and pos.attr == "position"):
            out.append(Finding("C08", "C08.c", M, "parse_tree_to_objgraph.process_node", "position=" + ast.unparse(kw["position"]), "reference position is not the start offset of a parse-tree node")); okc = False
        else:
            base = ast.unparse(pos.value)
            if "position_end" in kw:
                pe = fip.expand(kw["position_end"], at=c)
                if not (isinstance(pe, ast.Attribute) and pe.attr == "position_end" and ast.unparse(pe.value) == base):
                    out.append(Finding("C08", "C08.c", M, "parse_tree_to_objgraph.process_node", "position=%s, position_end=%s" % (ast.unparse(kw["position"]), ast.unparse(kw["position_end"])), "start and end of a reference are taken from different nodes")); okc = False
            # loop variance: inside a loop over the children every reference must carry its own element's position
            lp = next((a for a in ancestors(c) if isinstance(a, ast.For)), None)
            if lp is not None and lp in list(ast.walk(pn)):
                lv = {x.id for x in ast.walk(lp.target) if isinstance(x, ast.Name)}
                if not (_names(pos) & lv):
                    out.append(Finding("C08", "C08.c", M, "parse_tree_to_objgraph.process_node", "position=" + ast.unparse(kw["position"]), "every reference of the list gets the same position (%s does not depend on the loop variable %s): positional storage degenerates to resolution order" % (ast.unparse(pos), sorted(lv)))); okc = False
        ob("C08", "C08.c", M, "parse_tree_to_objgraph.process_node", "ObjCrossRef(position=%s)" % ast.unparse(kw["position"]), okc)
    return inst, out
