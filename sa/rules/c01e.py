"""C01.a / C01.b  the grammar visitors that build repetitions and assignments, decided by evaluation (sa/pyeval.py) on
sample children as the parse tree hands them over (sa/exprs.py: expression samples, constructors as stand-ins that build
samples, isinstance by Arpeggio's class hierarchy).

  repeat pipeline  visit_repeat_modifiers -> visit_repeat_operator -> visit_repeatable_expr:
      e?  -> Optional[e]     e* -> ZeroOrMore[e]     e+ -> OneOrMore[e]     (seq)# -> UnorderedGroup of the sequence's nodes
      # on something that is not a bracketed sequence/choice, and modifiers on ?, are TextXSyntaxErrors
      a separator modifier becomes the repetition's sep (named 'sep'), eolterm its eolterm flag - each independent of the
      other; '-' sets suppress on the resulting expression (with or without operator); no operator: the expression itself
  visit_assignment:
      a=r  -> Sequence '__asgn_plain'      a+=r -> OneOrMore '__asgn_oneormore' (mult 1..*)
      a*=r -> ZeroOrMore '__asgn_zeroormore' (mult 0..*, but 1..* is kept)       a?=r -> Optional '__asgn_optional' (mult 0..1,
      bool attribute of type BOOL); all root rules over [r] that know their attribute name; modifiers on = and ?= are
      TextXSyntaxErrors, on += / *= they become sep / eolterm; a link [Cls|Rule|rrel] makes the attribute a non-containment
      reference carrying the link's provider, match rule and target class; a second ?= on an attribute is a
      TextXSemanticError; two assignments of different types make the attribute's type OBJECT, of the same type keep it"""
import ast
from sa.util import *
from sa import pyeval, exprs
from sa.exprs import E, HS, match
L = "textx/lang.py"
def r_C01visitors(root):
    out = []; inst = 0
    t = load(root, L)
    fns = {k: v for k, v in helper_functions(root, L, "TextXVisitor.visit_repeatable_expr").items() if not k.startswith("__") and not k.startswith("visit_") and not k.startswith("second_")}
    ct = load(root, "textx/const.py"); consts = {}
    for st in ct.body:
        if isinstance(st, ast.Assign) and isinstance(st.targets[0], ast.Name):
            try: consts[st.targets[0].id] = pyeval.evaluate(st.value, dict(consts))
            except (pyeval.Unsupported, pyeval.Raised): pass
    fns.update({f.name: f for f in ct.body if isinstance(f, ast.FunctionDef)})
    M1, MO, MZ, MP = (consts.get(k) for k in ("MULT_ONE", "MULT_OPTIONAL", "MULT_ZEROORMORE", "MULT_ONEORMORE"))
    AUTOKWD = [False]           # the option the sample meta-model is built with (the choice / predicate cases run with it off and on)
    def errs(cls_): return pyeval.PyFn(lambda *a, **k: {".cls": cls_, ".args": a})
    def method(name):
        f = find(t, "TextXVisitor." + name); return f, [a.arg for a in f.args.args]
    def new_visitor():
        cls = HS({".kind": "cls", ".__name__": "R", "._tx_attrs": {}})
        def new_attr(clazz, name, cls=None, mult=None, cont=True, ref=False, bool_assignment=False, position=0):
            a = HS({".kind": "metaattr", ".name": name, ".cls": cls, ".mult": M1 if mult is None else mult, ".cont": cont, ".ref": ref, ".bool_assignment": bool_assignment, ".position": position, ".scope_provider": None, ".match_rule_name": None})
            clazz["._tx_attrs"][name] = a; return a
        mm = HS({".kind": "metamodel", ".file_name": "g.tx", ".referenced_languages": {}, "._new_cls_attr": pyeval.PyFn(new_attr), ".autokwd": AUTOKWD[0], ".ignore_case": False, ".skipws": True, ".ws": " \t", ".debug": False, ".memoization": False})
        v = HS({".kind": "visitor", ".debug": False, ".metamodel": mm, "._current_cls": cls, ".grammar_parser": {".pos_to_linecol": pyeval.PyFn(lambda p_: (1, p_)), ".debug": False}, ".dprint": pyeval.PyFn(lambda *a: None)})
        return v, cls
    CTORS = exprs.ctor_env()
    def call(name, v, node, children):
        f, ps = method(name)
        env = dict(consts); env.update(exprs.type_env()); env.update(CTORS); env.setdefault("_", exprs.type_of("RegExMatch"))        # one set of class stand-ins for the whole run: Not is the same value in every call (it may be a dictionary key)
        env.update({"__functions__": fns, "__classes__": exprs.classes_env(), "__module__": t, ps[0]: v, ps[1]: node, ps[2]: children,
                    "TextXSyntaxError": errs("TextXSyntaxError"), "TextXSemanticError": errs("TextXSemanticError"),
                    "ClassCrossRef": pyeval.PyFn(lambda cls_name=None, position=0: HS({".kind": "ClassCrossRef", ".cls_name": cls_name, ".position": position}))})
        try: return ("ret", pyeval.run_block(f.body, env))
        except pyeval.Raised as r_: return ("raise", r_.cls)
        except pyeval.Unsupported as u_: raise AnalysisError("%s: outside the evaluated subset: %s" % (name, u_))
    node = {".kind": "node", ".position": 7, ".position_end": 20}
    def rep(clause, fn_, what, ok, msg, props_=("C01",)):
        nonlocal inst
        inst += 1
        for pr in props_:
            ob(pr, clause, L, "TextXVisitor." + fn_, what, ok)
            if not ok: out.append(Finding(pr, clause, L, "TextXVisitor." + fn_, what, msg, witness=what))
    def desc(r):
        k, v = r
        if k == "raise": return "raises %s" % v
        if isinstance(v, dict) and ".kind" in v: return "%s%s over %d node(s)%s%s%s" % (v[".kind"], " %r" % v[".rule_name"] if v.get(".rule_name") else "", len(v.get(".nodes", [])), ", sep" if v.get(".sep") is not None else "", ", eolterm" if v.get(".eolterm") else "", ", suppressed" if v.get(".suppress") else "")
        return repr(v)[:60]
    # ---------------------------------------------------------------- repetitions
    KIND = {"?": "Optional", "*": "ZeroOrMore", "+": "OneOrMore"}
    def operator(v, tok, sep=None, eol=False):
        """what visit_repeat_operator hands on for  tok[sep eolterm]"""
        kids = [tok]
        if sep is not None or eol:
            mk = ([sep] if sep is not None else []) + (["eolterm"] if eol else [])
            r = call("visit_repeat_modifiers", v, {".kind": "node", ".position": 9}, mk)
            if r[0] != "ret": raise AnalysisError("visit_repeat_modifiers %s" % desc(r))
            kids.append(r[1])
        r = call("visit_repeat_operator", v, node, kids)
        if r[0] != "ret": raise AnalysisError("visit_repeat_operator %s" % desc(r))
        return r[1]
    class _SM(HS):
        """sample StrMatch: arpeggio's StrMatch compares (and hashes) by its text - StrMatch('!') == '!'"""
        def __eq__(s_, o_): return s_[".to_match"] == (o_.get(".to_match") if isinstance(o_, dict) else str(o_))
        def __ne__(s_, o_): return not s_.__eq__(o_)
        def __hash__(s_): return hash(s_[".to_match"])
    def sm(txt): return _SM(E("StrMatch", to_match=txt, ignore_case=False, str_repr=None, compile=pyeval.PyFn(lambda: None)))
    for lit in ("x", "-", "+"):
      en = "e" if lit == "x" else repr(lit)
      for tok in ("?", "*", "+"):
        for sup in (False, True):
            v, _c = new_visitor(); e = sm(lit); e[".suppress"] = False
            r = call("visit_repeatable_expr", v, node, [e, operator(v, tok)] + (["-"] if sup else []))
            ok = r[0] == "ret" and isinstance(r[1], dict) and r[1].get(".kind") == KIND[tok] and len(r[1].get(".nodes", [])) == 1 and r[1][".nodes"][0] is e and bool(r[1].get(".suppress")) == sup and r[1].get(".sep") is None and not r[1].get(".eolterm")
            rep("C01.a", "visit_repeatable_expr", "%s%s%s" % (en, tok, "-" if sup else ""), ok, "the expression  %s%s%s  becomes %s; documented %s over [%s]%s" % (en, tok, "-" if sup else "", desc(r), KIND[tok], en, ", suppressed" if sup else ", not suppressed (the literal is a string match that compares equal to its text, not the suppression operator)"), props_=(("C01",) if lit == "x" else ("C01", "C06")))
      for sup in (False, True):
        v, _c = new_visitor(); e = sm(lit)
        r = call("visit_repeatable_expr", v, node, [e] + (["-"] if sup else []))
        rep("C01.a", "visit_repeatable_expr", "%s%s" % (en, "-" if sup else ""), r[0] == "ret" and r[1] is e and bool(e.get(".suppress")) == sup, "the expression  e%s  (no repetition operator) becomes %s; documented: e itself%s" % ("-" if sup else "", desc(r), ", suppressed" if sup else ""))
    v, _c = new_visitor(); a, b = E("StrMatch", to_match="a"), E("StrMatch", to_match="b"); sq = E("Sequence", a, b)
    r = call("visit_repeatable_expr", v, node, [sq, operator(v, "#")])
    rep("C01.a", "visit_repeatable_expr", "(a b)#", r[0] == "ret" and isinstance(r[1], dict) and r[1].get(".kind") == "UnorderedGroup" and [x for x in r[1].get(".nodes", [])] == [a, b], "(a b)#  becomes %s; documented an UnorderedGroup of the sequence's two nodes" % desc(r))
    v, _c = new_visitor(); ch = E("OrderedChoice", a, b)
    r = call("visit_repeatable_expr", v, node, [ch, operator(v, "#")])
    rep("C01.a", "visit_repeatable_expr", "(a | b)#", r[0] == "ret" and isinstance(r[1], dict) and r[1].get(".kind") == "UnorderedGroup" and len(r[1].get(".nodes", [])) == 2, "(a | b)#  becomes %s; documented an UnorderedGroup of the two alternatives" % desc(r))
    v, _c = new_visitor()
    v, _c = new_visitor(); asg_ = exprs.asgn("plain", "x")
    r = call("visit_repeatable_expr", v, node, [asg_, operator(v, "#")])
    oku = r[0] == "ret" and isinstance(r[1], dict) and r[1].get(".kind") == "UnorderedGroup" and len(r[1].get(".nodes", [])) == 1 and r[1][".nodes"][0] is asg_
    rep("C01.a", "visit_repeatable_expr", "(x=INT)#", oku or r == ("raise", "TextXSyntaxError"), "(x=INT)#  (an unordered group around one assignment: the bracket reduces to the assignment rule itself, which is a Sequence) becomes %s; documented: an UnorderedGroup whose only member is the assignment - its nodes are the assignment's right-hand side, not group members - or a TextXSyntaxError; never a group over the bare right-hand side, which parses the value and drops it" % desc(r), props_=("C01", "C02"))
    r = call("visit_repeatable_expr", v, node, [E("StrMatch", to_match="x"), operator(v, "#")])
    rep("C01.a", "visit_repeatable_expr", "'x'#", r == ("raise", "TextXSyntaxError"), "'x'#  (unordered group of something that is not a bracketed sequence) %s; documented TextXSyntaxError" % desc(r), props_=("C01", "C23"))
    for tok in ("*", "+"):
        for with_sep, with_eol in ((True, False), (False, True), (True, True)):
            v, _c = new_visitor(); e = E("StrMatch", to_match="x"); sepm = E("StrMatch", to_match=",") if with_sep else None
            r = call("visit_repeatable_expr", v, node, [e, operator(v, tok, sepm, with_eol)])
            what = "e%s[%s]" % (tok, " ".join(x for x in ("','" if with_sep else "", "eolterm" if with_eol else "") if x))
            ok = r[0] == "ret" and isinstance(r[1], dict) and r[1].get(".kind") == KIND[tok] and (r[1].get(".sep") is sepm) and (sepm is None or sepm.get(".rule_name") == "sep") and bool(r[1].get(".eolterm")) == with_eol
            rep("C01.b", "visit_repeatable_expr", what, ok, "%s  becomes %s; documented %s with %s" % (what, desc(r), KIND[tok], " and ".join(x for x in ("the separator ',' (named sep)" if with_sep else "no separator", "eolterm" if with_eol else "no eolterm"))), props_=("C01", "C19", "C22"))
    v, _c = new_visitor()
    r = call("visit_repeatable_expr", v, node, [E("StrMatch", to_match="x"), operator(v, "?", E("StrMatch", to_match=","))])
    rep("C01.b", "visit_repeatable_expr", "e?[',']", r == ("raise", "TextXSyntaxError"), "e?[',']  (modifiers on the optional operator) %s; documented TextXSyntaxError" % desc(r), props_=("C01", "C23"))
    def kw(txt): return E("RegExMatch", to_match=txt, ignore_case=False, str_repr=txt, regex=None, to_match_regex=txt + "\\b", compile=pyeval.PyFn(lambda: None))          # a keyword-like literal as autokwd compiles it
    # ---------------------------------------------------------------- syntactic predicates
    for tok, kind, e, AUTOKWD[0] in (("!", "Not", sm("x"), False), ("&", "And", sm("x"), False), ("!", "Not", kw("end"), True), ("&", "And", kw("to"), True), ("!", "Not", sm("+"), True)):
        v, _c = new_visitor()
        r = call("visit_expression", v, node, [tok, e])
        rep("C01.a", "visit_expression", "%s%s%s" % (tok, e.get(".str_repr") or e.get(".to_match"), " (autokwd on)" if AUTOKWD[0] else ""), r[0] == "ret" and isinstance(r[1], dict) and r[1].get(".kind") == kind and r[1].get(".nodes") == [e], "the predicate  %se  becomes %s; documented %s over [e]" % (tok, desc(r), kind))
    AUTOKWD[0] = False
    v, _c = new_visitor(); e = sm("x")
    r = call("visit_expression", v, node, [e])
    rep("C01.a", "visit_expression", "e", r[0] == "ret" and r[1] is e, "an expression without predicate becomes %s; documented: itself" % desc(r))
    for tok, kind in (("!", "Not"), ("&", "And")):
        v, _c = new_visitor(); r1_, r2_ = exprs.ruleref("Keyword"), exprs.ruleref("Keyword")
        a1 = call("visit_expression", v, node, [tok, r1_]); a2 = call("visit_expression", v, node, [tok, r2_])
        okd = a1[0] == a2[0] == "ret" and isinstance(a1[1], dict) and isinstance(a2[1], dict) and a1[1] is not a2[1] and a1[1].get(".nodes") == [r1_] and a2[1].get(".nodes") == [r2_] and a1[1][".nodes"][0] is r1_ and a2[1][".nodes"][0] is r2_
        rep("C19.e", "visit_expression", "%sKeyword written twice" % tok, okd, "the predicate  %sKeyword  written in two places of a grammar becomes %s and %s%s; documented: a %s of its own over its own reference for each occurrence (an expression object carries per-occurrence state: rule name, suppression, the memoization table)" % (tok, desc(a1), desc(a2), " - the same object" if a1[0] == "ret" and a1[1] is a2[1] else "", kind), props_=("C19", "C01"))
    for lit in ("!", "&"):
        v, _c = new_visitor(); e = sm(lit)
        r = call("visit_expression", v, node, [e])
        rep("C01.a", "visit_expression", "the string match %r without predicate" % lit, r[0] == "ret" and r[1] is e, "the plain string match %r (which, like every arpeggio StrMatch, compares equal to its text) becomes %s; documented: itself - it is a literal, not the predicate operator" % (lit, desc(r)))
    # ---------------------------------------------------------------- choices and sequences keep their members, in written order
    inner_seq = E("Sequence", nodes=[sm("p"), sm("q")]); inner_ch = E("OrderedChoice", nodes=[sm("u"), sm("v")])
    for meth, kind, members, what in (("visit_choice", "OrderedChoice", [sm("<"), sm("<="), sm("=")], "'<' | '<=' | '='  (an alternative that is a prefix of a later one comes first)"),
                                      ("visit_choice", "OrderedChoice", [sm("else"), E("RegExMatch", to_match="\\w+", to_match_regex="\\w+", ignore_case=False, str_repr=None, compile=pyeval.PyFn(lambda: None)), sm("e")], "'else' | /\\w+/ | 'e'"),
                                      ("visit_choice", "OrderedChoice", [inner_seq, sm("x")], "(p q) | x"),
                                      ("visit_sequence", "Sequence", [sm("a"), inner_seq, sm("b")], "a (p q) b  (a bracketed sequence stays one member)"),
                                      ("visit_sequence", "Sequence", [sm("bb"), sm("a"), sm("bb")], "'bb' 'a' 'bb'"),
                                      ("visit_sequence", "Sequence", [inner_ch, sm("x")], "(u | v) x"),
                                      ("visit_choice", "OrderedChoice", [kw("public"), kw("private"), kw("protected")], "'public' | 'private' | 'protected'  (keyword-like literals)")):
        for AUTOKWD[0] in (False, True):
            v, _c = new_visitor(); before = list(members); inner_before = [list(m_.get(".nodes", [])) for m_ in members]
            r = call(meth, v, node, list(members))
            got = r[1].get(".nodes") if r[0] == "ret" and isinstance(r[1], dict) else None
            ok = r[0] == "ret" and isinstance(r[1], dict) and r[1].get(".kind") == kind and isinstance(got, list) and len(got) == len(before) and all(x is y for x, y in zip(got, before)) and [list(m_.get(".nodes", [])) for m_ in members] == inner_before
            rep("C01.a", meth, what + (" (autokwd on)" if AUTOKWD[0] else ""), ok, "%s  becomes %s; documented: %s over exactly these members in the written order (PEG: the first alternative that matches wins; a bracketed group is one member)" % (what, desc(r) if got is None else "%s(%s)" % (r[1].get(".kind"), ", ".join(str(x.get(".to_match", x.get(".kind"))) for x in got)), kind))
    AUTOKWD[0] = False
    for meth in ("visit_choice", "visit_sequence"):
        v, _c = new_visitor(); e = sm("only")
        r = call(meth, v, node, [e])
        rep("C01.a", meth, "a single member", r[0] == "ret" and r[1] is e, "%s with one member becomes %s; documented: that member itself" % (meth, desc(r)))
    # ---------------------------------------------------------------- assignments
    ASG = {"=": ("Sequence", "__asgn_plain", M1), "+=": ("OneOrMore", "__asgn_oneormore", MP), "*=": ("ZeroOrMore", "__asgn_zeroormore", MZ), "?=": ("Optional", "__asgn_optional", MO)}
    def rhs(name="INT"):
        # a regex match as the grammar visitor builds it under ignore_case=True (pattern, flag, compiled once)
        e_ = E("RegExMatch", rule_name=name, root=True, to_match="[-+]?[0-9]+\\b", to_match_regex="[-+]?[0-9]+\\b", ignore_case=True, str_repr=None, compiled=1)
        e_[".compile"] = pyeval.PyFn(lambda e_=e_: e_.__setitem__(".compiled", e_[".compiled"] + 1))
        return e_
    def mods(v, sep=None, eol=False):
        mk = ([sep] if sep is not None else []) + (["eolterm"] if eol else [])
        r = call("visit_repeat_modifiers", v, {".kind": "node", ".position": 9}, mk)
        if r[0] != "ret": raise AnalysisError("visit_repeat_modifiers %s" % desc(r))
        return r[1]
    def arhs(v, rule, modpair=None):
        """children[2] of visit_assignment: what visit_assignment_rhs makes of the right-hand side and its repeat modifiers"""
        r = call("visit_assignment_rhs", v, {".kind": "node", ".position": 5}, [rule] + ([modpair] if modpair is not None else []))
        if r[0] != "ret": raise AnalysisError("visit_assignment_rhs %s" % desc(r))
        return r[1]
    for op, (kind, rname, mult) in ASG.items():
        v, cls = new_visitor(); r0 = rhs()
        r = call("visit_assignment", v, node, ["a", op, arhs(v, r0)])
        at = cls["._tx_attrs"].get("a")
        ok = r[0] == "ret" and isinstance(r[1], dict) and r[1].get(".kind") == kind and r[1].get(".rule_name") == rname and r[1].get(".root") is True and r[1].get(".nodes") == [r0] and r[1].get("._attr_name") == "a" \
             and at is not None and at[".mult"] == mult and bool(at[".bool_assignment"]) == (op == "?=") and isinstance(at.get(".cls"), dict) and at[".cls"].get(".cls_name") == ("BOOL" if op == "?=" else "INT") and at[".cont"] is True and at[".ref"] is False
        okc = r0.get(".ignore_case") is True and r0.get(".compiled") == 1 and r0.get(".to_match") == "[-+]?[0-9]+\\b"
        rep("C20.e", "visit_assignment", "a%s/regex/ keeps the case handling of its right-hand side" % op, okc, "after  a%s<regex match built under ignore_case=True>  the match has ignore_case=%r, was compiled %s time(s) and matches %r; documented: the right-hand side of an assignment is the expression as written - same pattern, same case handling, compiled once" % (op, r0.get(".ignore_case"), r0.get(".compiled"), r0.get(".to_match")), props_=("C20", "C01"))
        rep("C01.a", "visit_assignment", "a%sINT" % op, ok, "the assignment  a%sINT  becomes %s with attribute %s; documented: root %s %r over [INT] for attribute a, multiplicity %r, type %s%s" % (op, desc(r), {k_: (at[k_] if k_ != ".cls" else (at[k_] or {}).get(".cls_name")) for k_ in (".mult", ".bool_assignment", ".cls", ".cont", ".ref")} if at else None, kind, rname, mult, "BOOL" if op == "?=" else "INT", ", a bool attribute" if op == "?=" else ""), props_=("C01", "C02"))
    for op in ("=", "?="):
        v, cls = new_visitor()
        r = call("visit_assignment", v, node, ["a", op, arhs(v, rhs(), mods(v, E("StrMatch", to_match=",")))])
        rep("C01.b", "visit_assignment", "a%sINT[',']" % op, r == ("raise", "TextXSyntaxError"), "a%sINT[',']  (modifiers on a single-valued assignment) %s; documented TextXSyntaxError" % (op, desc(r)), props_=("C01", "C23"))
    for op in ("+=", "*="):
        for with_sep, with_eol in ((True, False), (False, True), (True, True), ("kw", False), ("kw", True)):
            v, cls = new_visitor(); sepm = (kw("and") if with_sep == "kw" else E("StrMatch", to_match=",")) if with_sep else None      # 'and' under autokwd: a regex match with a word boundary
            sept = "'and'" if with_sep == "kw" else "','"
            r = call("visit_assignment", v, node, ["a", op, arhs(v, rhs(), mods(v, sepm, with_eol))])
            what = "a%sINT[%s]" % (op, " ".join(x for x in (sept if with_sep else "", "eolterm" if with_eol else "") if x))
            ok = r[0] == "ret" and isinstance(r[1], dict) and r[1].get(".kind") == ASG[op][0] and r[1].get(".sep") is sepm and bool(r[1].get(".eolterm")) == with_eol and (sepm is None or (sepm.get(".to_match_regex") == ("and\\b" if with_sep == "kw" else None) and sepm.get(".rule_name") == "sep"))
            rep("C01.b", "visit_assignment", what, ok, "%s  becomes %s; documented %s with %s" % (what, desc(r), ASG[op][0], " and ".join(x for x in (("the separator %s (the very match the modifiers carry, %s)" % (sept, "with its word boundary" if with_sep == "kw" else "named sep")) if with_sep else "no separator", "eolterm" if with_eol else "no eolterm"))), props_=("C01", "C19", "C22") + (("C21",) if with_sep == "kw" else ()))
    # a*= after a+= keeps 1..*; repeated assignments and types
    v, cls = new_visitor()
    call("visit_assignment", v, node, ["a", "+=", arhs(v, rhs())]); r = call("visit_assignment", v, node, ["a", "*=", arhs(v, rhs())])
    rep("C01.a", "visit_assignment", "a+=INT ... a*=INT", r[0] == "ret" and cls["._tx_attrs"]["a"][".mult"] == MP, "after a+=INT a later a*=INT leaves the multiplicity %r; documented: 1..* is kept" % (cls["._tx_attrs"].get("a", {}).get(".mult"),), props_=("C01", "C02"))
    v, cls = new_visitor()
    call("visit_assignment", v, node, ["a", "=", arhs(v, rhs())]); r = call("visit_assignment", v, node, ["a", "?=", arhs(v, rhs())])
    rep("C01.a", "visit_assignment", "a=INT ... a?=INT", r == ("raise", "TextXSemanticError"), "a second assignment with ?= to an attribute already assigned %s; documented TextXSemanticError" % desc(r), props_=("C01", "C23", "C02"))
    for second, want in (("INT", "INT"), ("STRING", "OBJECT")):
        v, cls = new_visitor()
        call("visit_assignment", v, node, ["a", "=", arhs(v, rhs("INT"))]); r = call("visit_assignment", v, node, ["a", "=", arhs(v, rhs(second))])
        got = (cls["._tx_attrs"]["a"].get(".cls") or {}).get(".cls_name")
        rep("C01.i", "visit_assignment", "a=INT ... a=%s" % second, r[0] == "ret" and got == want, "an attribute assigned from INT and then from %s gets the type %r; documented %r" % (second, got, want), props_=("C01", "C07", "C10", "C25"))
    # link
    prov = {".kind": "callable", ".tag": "rrel-provider"}; tcls = HS({".kind": "ClassCrossRef", ".cls_name": "Target", ".position": 3})
    for second in (None, "Target", "Other"):
        v, cls = new_visitor()
        link = HS({".kind": "RuleCrossRef", ".rule_name": "FQN", ".cls": "Target", ".scope_provider": prov, ".suppress": False, ".position": 3})
        r = call("visit_assignment", v, node, ["r", "=", arhs(v, ("obj_ref", link))])
        at = cls["._tx_attrs"].get("r")
        if second is None:
            ok = r[0] == "ret" and isinstance(r[1], dict) and r[1].get(".nodes") == [link] and at is not None and at[".ref"] is True and at[".cont"] is False and at.get(".scope_provider") is prov and at.get(".match_rule_name") == "FQN" and (at.get(".cls") or {}).get(".cls_name") == "Target"
            rep("C01.a", "visit_assignment", "r=[Target|FQN|rrel]", ok, "the link assignment  r=[Target|FQN|rrel]  becomes %s with attribute %s; documented: a non-containment reference of type Target that carries the link's provider and match rule FQN" % (desc(r), {k_: at.get(k_) for k_ in (".ref", ".cont", ".match_rule_name")} if at else None), props_=("C01", "C32"))
        else:
            link2 = HS({".kind": "RuleCrossRef", ".rule_name": "FQN", ".cls": second, ".scope_provider": prov, ".suppress": False, ".position": 3})
            r2 = call("visit_assignment", v, node, ["r", "=", arhs(v, ("obj_ref", link2))])
            got = (cls["._tx_attrs"]["r"].get(".cls") or {}).get(".cls_name"); want = "Target" if second == "Target" else "OBJECT"
            rep("C01.i", "visit_assignment", "r=[Target|FQN] ... r=[%s|FQN]" % second, r2[0] == "ret" and got == want, "a reference attribute assigned twice, to [Target|FQN] and to [%s|FQN], gets the target type %r; documented %r (the same target keeps its type, different targets give OBJECT - the match rule FQN is not the type)" % (second, got, want), props_=("C01", "C07", "C10", "C25"))
    # ---------------------------------------------------------------- import statement
    for stack in (["main"], ["main", "lib"], ["base.lib", "main"]):
        v, _c = new_visitor(); got_ = []
        v[".metamodel"]["._namespace_stack"] = list(stack); v[".metamodel"]["._new_import"] = pyeval.PyFn(lambda name_: got_.append(name_))
        r = call("visit_import_stm", v, node, ["lib"])
        rep("C25.n", "visit_import_stm", "import lib  while the namespaces %s are being loaded" % stack, r[0] == "ret" and got_ == ["lib"], "the statement  import lib  (namespaces being loaded: %s) %s and asks the meta-model to import %s; documented: exactly one _new_import('lib') - the meta-model resolves the name against the importing grammar's directory and handles grammars that are already loaded itself (a namespace that happens to be called like the relative import name is another grammar)" % (stack, desc(r), got_ or "nothing"), props_=("C25",))
    # ---------------------------------------------------------------- rule modifiers  R[skipws, ws='..', split='..']
    for mm_skip in (True, False):
        for kids_, want_ in ((["skipws"], ("skipws", True)), (["noskipws"], ("skipws", False)), (["ws", " \t"], ("ws", " \t")), (["ws", ""], ("ws", "")), (["split", "::"], ("split", "::"))):
            v, _c = new_visitor(); v[".metamodel"][".skipws"] = mm_skip; v[".metamodel"][".ws"] = " \t"
            r = call("visit_rule_param", v, node, list(kids_))
            okp = r[0] == "ret" and isinstance(r[1], tuple) and tuple(r[1]) == want_ and type(r[1][1]) is type(want_[1])
            rep("C22.n", "visit_rule_param", "[%s] in a meta-model with skipws=%s" % ("=".join(repr(k_) if i_ else k_ for i_, k_ in enumerate(kids_)), mm_skip), okp, "the rule modifier  %s  (meta-model: skipws=%s, ws=' \\t') becomes %s; documented %r - a modifier pins the rule's mode whatever the meta-model's default is (an imported grammar may be compiled into a meta-model with another default)" % (" ".join(map(str, kids_)), mm_skip, r[1] if r[0] == "ret" else desc(r), want_), props_=("C22", "C19"))
    def params_of(v, pairs):
        """visit_rule_params applied to what visit_rule_param makes of each modifier as written (the division of work between the two is theirs)"""
        made = []
        for k_, val_ in pairs:
            r_ = call("visit_rule_param", v, node, [("skipws" if val_ else "noskipws")] if k_ == "skipws" else [k_, val_])
            if r_[0] != "ret": return r_
            made.append(r_[1])
        return call("visit_rule_params", v, node, made)
    for kids_, what_ in (([("skipws", True), ("ws", " ")], {"skipws": True, "ws": " "}), ([("skipws", False)], {"skipws": False}), ([("ws", "\\t\\n ")], {"ws": "\n\t "}), ([("split", ".")], {"split": "."})):
        v, _c = new_visitor()
        r = params_of(v, kids_)
        okp = r[0] == "ret" and isinstance(r[1], dict) and set(r[1]) == set(what_) and all(type(r[1][k_]) is type(what_[k_]) and (sorted(r[1][k_]) == sorted(what_[k_]) if k_ == "ws" else r[1][k_] == what_[k_]) for k_ in what_)
        rep("C22.n", "visit_rule_params", "[%s]" % ", ".join("%s=%r" % x_ for x_ in kids_), okp, "the rule modifiers  %s  become %s; documented %r (ws written with the escapes \\t \\n \\r stands for those characters)" % (kids_, r[1] if r[0] == "ret" else desc(r), what_), props_=("C22", "C19"))
    for kids_ in ([("colour", "red")], [("ws", 5)], [("split", "")]):
        v, _c = new_visitor()
        r = params_of(v, kids_)
        rep("C22.n", "visit_rule_params", "invalid modifier %s" % (kids_,), r[0] == "raise" and str(r[1]).startswith("TextX"), "the rule modifiers  %s  %s; documented: a TextX error" % (kids_, desc(r)), props_=("C22", "C23"))
    # ---------------------------------------------------------------- link references  [Class|MatchRule|rrel]
    rrel_s = HS({".kind": "rrel tree"})
    MODCTORS = {"_": exprs.type_of("RegExMatch"), "RegExMatch": exprs.type_of("RegExMatch"), "StrMatch": exprs.type_of("StrMatch"), "OrderedChoice": exprs.type_of("OrderedChoice"), "Sequence": exprs.type_of("Sequence")}       # for the module-level tables of lang.py (BASE_TYPE_RULES ...)
    RX = pyeval.PyFn(lambda rule_name, cls=None, position=0, scope_provider=None, *a_, **k_: HS({".kind": "RuleCrossRef", ".rule_name": rule_name, ".cls": cls, ".position": position, ".scope_provider": scope_provider, ".suppress": False}))
    for kids_, want_ in ((["Target"], ("ID", "Target", None)), (["Target", "|", "FQN"], ("FQN", "Target", None)), (["Target", "|", "FQN", rrel_s], ("FQN", "Target", rrel_s)),
                         (["lib.Target"], ("ID", "lib.Target", None)), (["base.lib.Target", "|", "FQN"], ("FQN", "base.lib.Target", None))):        # a class of an imported grammar, referred to by its qualified name
        v, _c = new_visitor()
        f_, ps_ = method("visit_obj_ref")
        env_ = dict(consts); env_.update({"__functions__": fns, "__classes__": exprs.classes_env(), "__module__": t, ps_[0]: v, ps_[1]: node, ps_[2]: list(kids_), "RuleCrossRef": RX, "TextXSemanticError": errs("TextXSemanticError")})
        env_.update(MODCTORS)
        try: r = ("ret", pyeval.run_block(f_.body, env_))
        except pyeval.Raised as r_: r = ("raise", r_.cls)
        except pyeval.Unsupported as u_: raise AnalysisError("visit_obj_ref: outside the evaluated subset: %s" % u_)
        x_ = r[1][1] if r[0] == "ret" and isinstance(r[1], tuple) and len(r[1]) == 2 else None
        okl = r[0] == "ret" and isinstance(r[1], tuple) and r[1][0] == "obj_ref" and isinstance(x_, dict) and (x_.get(".rule_name"), x_.get(".cls"), x_.get(".scope_provider")) == want_[:3] and x_.get(".scope_provider") is want_[2] and x_.get(".position") == node[".position"]
        rep("C32.h", "visit_obj_ref", "[%s]" % "".join(k_ if isinstance(k_, str) else "<rrel>" for k_ in kids_), okl, "the link  [%s]  becomes %s; documented: a reference to class %s matched by rule %s with %s, at the link's position" % ("".join(k_ if isinstance(k_, str) else "<rrel>" for k_ in kids_), (("a reference to class %r matched by %r with %s" % (x_.get(".cls"), x_.get(".rule_name"), "the RREL tree" if x_.get(".scope_provider") is rrel_s else x_.get(".scope_provider"))) if isinstance(x_, dict) else desc(r)), want_[1], want_[0], "the RREL tree written in the link" if want_[2] is not None else "no RREL tree"), props_=("C32", "C11", "C01") + (("C25",) if "." in kids_[0] else ()))
    for prim in ("INT", "STRING", "ID"):
        v, _c = new_visitor()
        r = call("visit_obj_ref", v, node, [prim])
        rep("C23.b", "visit_obj_ref", "[%s]" % prim, r == ("raise", "TextXSemanticError"), "a link to the primitive type  [%s]  %s; documented: TextXSemanticError 'Primitive type instances can not be referenced' with the position of the link" % (prim, desc(r)), props_=("C23", "C32"))
    # ---------------------------------------------------------------- rule names: classes are created / user classes bound
    class _NodeS(HS):
        def __str__(s_): return s_[".value"]
    RM = consts.get("RULE_MATCH")
    def rule_name_case(user_classes, provider, used=()):
        ev = []
        generic = HS({".kind": "cls", ".__name__": "generic class"})
        mmr = HS({".kind": "metamodel", ".user_classes": dict(user_classes), ".user_classes_provider": provider, "._used_rule_names_for_user_classes": set(used), ".rootcls": None, ".debug": False})
        # stand-ins with the documented effect of the root flag: _init_class(cls, ..., root=True) / _new_class(name, ..., root=True) make the class the root class
        def _root_of(a_, k_, pos_): return bool(k_.get("root", a_[pos_] if len(a_) > pos_ else False))
        def init_(*a_, **k_):
            ev.append(("init", a_, k_))
            if _root_of(a_, k_, 5): mmr[".rootcls"] = a_[0] if a_ else k_.get("cls")
        def new_(*a_, **k_):
            ev.append(("new", a_, k_))
            if _root_of(a_, k_, 5): mmr[".rootcls"] = generic
            return generic
        mmr["._init_class"] = pyeval.PyFn(init_); mmr["._new_class"] = pyeval.PyFn(new_)
        vr_ = HS({".kind": "visitor", ".debug": False, ".metamodel": mmr, "._current_cls": None, ".dprint": pyeval.PyFn(lambda *a: None)})
        r = call("visit_rule_name", vr_, _NodeS({".kind": "node", ".value": "Thing", ".position": 11, ".position_end": 16}), [])
        return r, ev, mmr, vr_, generic
    UC = pyeval.ClassObj("Thing", {"__name__": "Thing"})
    def kind_ok(k_): return "rule_type" not in k_ or k_["rule_type"] == RM
    for what, ucs, prov in (("a user class given in classes=[...]", {"Thing": UC}, None), ("a user class handed out by a provider callable", {}, pyeval.PyFn(lambda n_: UC if n_ == "Thing" else None))):
        r, ev, mmr, vr_, generic = rule_name_case(ucs, prov)
        inits = [e_ for e_ in ev if e_[0] == "init"]
        okr = r == ("ret", "Thing") and len(inits) == 1 and not [e_ for e_ in ev if e_[0] == "new"] and inits[0][1][:1] == (UC,) and (list(inits[0][1][1:]) + [inits[0][2].get("peg_rule"), inits[0][2].get("position")])[:2] in ([None, 11],) and inits[0][2].get("external_attributes") is True and kind_ok(inits[0][2]) and len(inits[0][1]) <= 3 \
              and vr_["._current_cls"] is UC and mmr[".rootcls"] is UC and "Thing" in mmr["._used_rule_names_for_user_classes"] and mmr[".user_classes"].get("Thing") is UC
        rep("C03.o", "visit_rule_name", what, okr, "for the rule Thing with %s visit_rule_name %s after %s; documented: the user class is initialised as the class of the rule (no PEG rule yet, the rule's position, external attributes) and - like every class - starts as a match rule: its kind is inferred from the rule body (a rule without assignments that only refers to matches stays a match rule and yields plain values); it becomes the current and, if first, the root class and is recorded as used" % (what, desc(r), [(e_[0], [x_ if not isinstance(x_, pyeval.ClassObj) else x_.name for x_ in e_[1]], e_[2]) for e_ in ev]), props_=("C03", "C14"))
    r, ev, mmr, vr_, generic = rule_name_case({}, None)
    news = [e_ for e_ in ev if e_[0] == "new"]
    okr = r == ("ret", "Thing") and len(news) == 1 and not [e_ for e_ in ev if e_[0] == "init"] and news[0][1][:1] == ("Thing",) and kind_ok(news[0][2]) and len(news[0][1]) <= 3 and vr_["._current_cls"] is generic and mmr[".rootcls"] is generic
    rep("C03.o", "visit_rule_name", "no user class", okr, "for the rule Thing without a user class visit_rule_name %s after %s; documented: one new class named Thing (a match rule until its body says otherwise) that becomes the current and, if first, the root class" % (desc(r), [(e_[0], list(e_[1]), e_[2]) for e_ in ev]), props_=("C03", "C14"))
    r, ev, mmr, vr_, generic = rule_name_case({}, pyeval.PyFn(lambda n_: UC if n_ == "Thing" else None), used=("Thing",))
    rep("C03.o", "visit_rule_name", "a user class from a provider for a rule name that was bound before", r == ("raise", "TextXSemanticError") and not [e_ for e_ in ev if e_[0] in ("init", "new")], "a second rule named Thing (an imported rule redefined) with a user class handed out by a provider callable %s after %s; documented TextXSemanticError before any class is touched" % (desc(r), [e_[0] for e_ in ev]), props_=("C03", "C14", "C25"))
    r, ev, mmr, vr_, generic = rule_name_case({"Thing": UC}, None, used=("Thing",))
    rep("C03.o", "visit_rule_name", "a user class for a rule name that was bound before", r == ("raise", "TextXSemanticError") and not ev, "a second rule named Thing (an imported rule redefined) with a user class %s; documented TextXSemanticError before any class is touched" % desc(r), props_=("C03", "C14", "C25"))
    return inst, out
