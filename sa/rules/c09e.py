"""C09.f  model-path navigation and the 'extension chain' provider decided by evaluation (sa/pyeval.py): resolve_model_path,
get_list_of_concatenated_objects, get_named_obj_in_list, get_recursive_parent_with_typename (textx/scoping/tools.py) and
ExtRelativeName (textx/scoping/providers.py, constructor interpreted) on a sample model

     call { instance -> i : K }      K { methods: go stop ; extends -> [B1 B2] }   B1 { methods: go b1only ; extends -> [BB] }
                                     B2 { methods: b2only ; extends -> [] }        BB { methods: deep ; extends -> [] }

   a path is followed attribute by attribute; None on the way gives None, a reference that is not resolved yet gives Postponed
   (at any step, also inside parent(T) navigation and along the extension chain), a list on the way is an error unless named
   elements are followed; the chain is the object, its extensions, their extensions ... in that order, a Postponed link stays
   in the chain; the provider answers the most derived match, None when no class of the chain has the name, Postponed (and
   counts it) whenever any link of the chain is not resolved yet - never a definite answer from a partial chain."""
import ast
from sa.util import *
from sa import pyeval
from sa.exprs import HS
T = "textx/scoping/tools.py"; P = "textx/scoping/providers.py"
def r_extrel(root):
    out = []; inst = 0
    tt = load(root, T); pt = load(root, P)
    fns = {f.name: f for f in tt.body if isinstance(f, ast.FunctionDef) and f.name not in ("needs_to_be_resolved", "get_model", "get_parser")}
    for need in ("resolve_model_path", "get_list_of_concatenated_objects"):
        if need not in fns: raise AnalysisError("tools.py: %s not found" % need)
    cds = {c.name: c for c in pt.body if isinstance(c, ast.ClassDef)}
    if "ExtRelativeName" not in cds: raise AnalysisError("providers.py: ExtRelativeName not found")
    for f in cds["ExtRelativeName"].body:
        if isinstance(f, ast.FunctionDef) and not f.name.startswith("__"): fns.setdefault(f.name, f)
    if "RelativeName" not in cds: raise AnalysisError("providers.py: RelativeName not found")
    POST = pyeval.PyFn(lambda: HS({".kind": "postponed", ".__class__": POST}))
    unresolved = set()
    def mk():
        def cls(n): return HS({".kind": "cls", ".__name__": n})
        cClass, cMethod, cInst, cCall, cModel = cls("Class"), cls("Method"), cls("Instance"), cls("Call"), cls("Model")
        def o(c, name=None, **kw):
            d = HS({".kind": "obj", ".__class__": c})
            if name is not None: d[".name"] = name
            for k, v in kw.items(): d["." + k] = v
            return d
        def klass(name, methods, extends):
            k = o(cClass, name, methods=[o(cMethod, m) for m in methods], extends=extends)
            for m in k[".methods"]: m[".parent"] = k
            return k
        BB = klass("BB", ["deep"], []); B1 = klass("B1", ["go", "b1only"], [BB]); B2 = klass("B2", ["b2only"], []); K = klass("K", ["stop", "go"], [B1, B2])
        i = o(cInst, "i", type=K); call = o(cCall, None, instance=i, nothing=None)
        model = o(cModel, None, classes=[K, B1, B2, BB], instances=[i], calls=[call])
        for x in (K, B1, B2, BB, i, call): x[".parent"] = model
        return dict(K=K, B1=B1, B2=B2, BB=BB, i=i, call=call, model=model, cMethod=cMethod, cClass=cClass)
    def get_model(x):
        while isinstance(x, dict) and ".parent" in x: x = x[".parent"]
        return x
    base = {"__functions__": fns, "__classdefs__": cds, "__module__": tt, "__maxdepth__": 40, "Postponed": POST, "needs_to_be_resolved": pyeval.PyFn(lambda o_, a: (id(o_), a) in unresolved), "get_model": pyeval.PyFn(get_model),
            "textx_isinstance": pyeval.PyFn(lambda x, c: isinstance(x, dict) and x.get(".__class__") is c), "TextXError": pyeval.PyFn(lambda *a, **k: {".cls": "TextXError", ".args": a}),
            "__classes__": {"list": lambda v: isinstance(v, list), "str": lambda v: isinstance(v, str), "Postponed": lambda v: isinstance(v, dict) and v.get(".__class__") is POST}}
    def call_fn(name, *args, **kw):
        f = fns[name]; ps = [a.arg for a in f.args.args]
        env = dict(base)
        for p_, d_ in zip(ps[len(ps) - len(f.args.defaults):], f.args.defaults): env[p_] = pyeval.evaluate(d_, {})
        env.update(zip(ps, args)); env.update(kw)
        try: return "ret", pyeval.run_block(f.body, env, max_steps=4000)
        except pyeval.Raised as r_: return "raise", r_.cls
        except pyeval.Unsupported as u_: raise AnalysisError("%s: outside the evaluated subset: %s" % (name, u_))
    def is_post(v): return isinstance(v, dict) and v.get(".__class__") is POST
    def nm(v):
        if v is None: return "None"
        if is_post(v): return "Postponed"
        if isinstance(v, list): return "[" + ", ".join(nm(x) for x in v) + "]"
        if isinstance(v, dict): return str(v.get(".name", v.get(".__class__", {}).get(".__name__")))
        return repr(v)
    def rep(what, ok, msg, fn_="resolve_model_path", rel=T):
        nonlocal inst
        inst += 1; ob("C09", "C09.f", rel, fn_, what, ok)
        if not ok: out.append(Finding("C09", "C09.f", rel, fn_, what, msg))
    W = mk()
    # ---- resolve_model_path
    PATHS = [("instance.type", "call", None, "K"), ("instance.type.name", "call", None, "'K'"), ("nothing.x", "call", None, "None"), ("instance", "call", None, "i"),
             ("parent(Model).instances", "call", None, "[i]"), ("parent(Class).name", "go-of-K", None, "'K'"), ("parent(Nope).name", "go-of-K", None, "None"),
             ("instance.type", "call", ("i", "type"), "Postponed"), ("instance.type.name", "call", ("call", "instance"), "Postponed"), ("parent(Class).extends", "go-of-K", ("K", "extends"), "Postponed"),
             ("instance.type.extends", "call", None, "[B1, B2]")]
    for path, start, unres, want in PATHS:
        W = mk(); W["go-of-K"] = W["K"][".methods"][0]
        unresolved.clear()
        if unres: unresolved.add((id(W[unres[0]]), unres[1]))
        k, v = call_fn("resolve_model_path", W[start], path)
        got = "raises " + v if k == "raise" else nm(v)
        rep("path %s from %s%s" % (path, start, " with %s.%s unresolved" % unres if unres else ""), got == want, "resolve_model_path(%s, %r)%s gives %s; documented %s" % (start, path, " while %s.%s is not resolved yet" % unres if unres else "", got, want))
    unresolved.clear(); W = mk()
    k, v = call_fn("resolve_model_path", W["model"], "classes.B1.methods.b1only", follow_named_element_in_lists=True)
    rep("named elements of lists are followed on request", k == "ret" and v is W["B1"][".methods"][1], "resolve_model_path(model, 'classes.B1.methods.b1only', follow_named_element_in_lists=True) gives %s; documented: the method b1only of class B1" % ("raises " + v if k == "raise" else nm(v)))
    k, v = call_fn("resolve_model_path", W["model"], "classes.B1")
    rep("a list on the way is an error when named elements are not followed", k == "raise" and v == "TextXError", "resolve_model_path(model, 'classes.B1') %s; documented: TextXError (a list in the path)" % ("raises " + v if k == "raise" else "gives " + nm(v)))
    k, v = call_fn("resolve_model_path", None, "a.b"); p0 = POST(); k2, v2 = call_fn("resolve_model_path", p0, "a.b")
    rep("None and Postponed pass through", k == "ret" and v is None and k2 == "ret" and v2 is p0, "resolve_model_path(None, ...) gives %s and resolve_model_path(<Postponed>, ...) gives %s; documented None and the same Postponed" % (nm(v) if k == "ret" else "raises " + v, nm(v2) if k2 == "ret" else "raises " + v2))
    # ---- the extension chain
    for unres, want in ((None, "[K, B1, B2, BB]"), (("B1", "extends"), "[K, B1, B2, Postponed]"), (("K", "extends"), "[K, Postponed]"), (("B2", "extends"), "[K, B1, B2, BB, Postponed]")):
        W = mk(); unresolved.clear()
        if unres: unresolved.add((id(W[unres[0]]), unres[1]))
        k, v = call_fn("get_list_of_concatenated_objects", W["K"], "extends")
        got = "raises " + v if k == "raise" else nm(v)
        rep("extension chain of K%s" % (" with %s.%s unresolved" % unres if unres else ""), got == want, "get_list_of_concatenated_objects(K, 'extends')%s gives %s; documented %s (the object, its extensions, theirs ...; a link that is not resolved yet stays in the chain as Postponed)" % (" while %s.%s is not resolved yet" % unres if unres else "", got, want), fn_="get_list_of_concatenated_objects")
    # ---- ExtRelativeName
    CASES = [(None, "go", "go of K"), (None, "b1only", "b1only of B1"), (None, "deep", "deep of BB"), (None, "b2only", "b2only of B2"), (None, "nope", "None"), (None, "g", "None"),
             (("K", "extends"), "go", "Postponed"), (("B1", "extends"), "deep", "Postponed"), (("B1", "extends"), "stop", "Postponed"), (("B2", "extends"), "nope", "Postponed"), (("i", "type"), "go", "Postponed"), (("call", "instance"), "go", "Postponed")]
    for unres, name, want in CASES:
        W = mk(); unresolved.clear()
        if unres: unresolved.add((id(W[unres[0]]), unres[1]))
        env = dict(base)
        try: prov = pyeval.instantiate("ExtRelativeName", ["instance.type", "methods", "extends"], {}, env)
        except (pyeval.Raised, pyeval.Unsupported) as x_: raise AnalysisError("ExtRelativeName(...): %s" % x_)
        c_, f_ = pyeval.find_method(cds, "ExtRelativeName", "__call__")
        try: k, v = "ret", pyeval.call_method_of(prov, c_, f_, [W["call"], HS({".kind": "attr", ".cls": W["cMethod"], ".name": "method"}), HS({".kind": "crossref", ".obj_name": name, ".cls": W["cMethod"]})], {}, env)
        except pyeval.Raised as r_: k, v = "raise", r_.cls
        except pyeval.Unsupported as u_: raise AnalysisError("ExtRelativeName.__call__: outside the evaluated subset: %s" % u_)
        got = "raises " + v if k == "raise" else ("%s of %s" % (v.get(".name"), v.get(".parent", {}).get(".name")) if isinstance(v, dict) and v.get(".kind") == "obj" else nm(v))
        okc = got == want and (want != "Postponed" or prov.get(".postponed_counter") == 1)
        rep("reference to the method %r%s" % (name, " with %s.%s unresolved" % unres if unres else ""), okc, "ExtRelativeName('instance.type', 'methods', 'extends') resolving %r%s gives %s%s; documented %s" % (name, " while %s.%s is not resolved yet" % unres if unres else "", got, " (postponed_counter %r)" % prov.get(".postponed_counter") if want == "Postponed" else "", want + (" and the postponement counted: the resolver retries in a later round instead of binding to a class lower in the chain or reporting 'Unknown object'" if want == "Postponed" else "")), fn_="ExtRelativeName.__call__", rel=P)
    unresolved.clear()
    # ---- the providers only read the model: reference lists and containment lists of the model stay as they are
    def lists_of(W):
        return {(k, a): list(v) for k, o_ in W.items() if isinstance(o_, dict) for a, v in o_.items() if isinstance(v, list)}
    def call_provider(cname, ctor_args, W, name, start="call"):
        env = dict(base)
        try: prov = pyeval.instantiate(cname, list(ctor_args), {}, env)
        except (pyeval.Raised, pyeval.Unsupported) as x_: raise AnalysisError("%s(...): %s" % (cname, x_))
        c_, f_ = pyeval.find_method(cds, cname, "__call__")
        try: return "ret", pyeval.call_method_of(prov, c_, f_, [W[start], HS({".kind": "attr", ".cls": W["cMethod"], ".name": "method"}), HS({".kind": "crossref", ".obj_name": name, ".cls": W["cMethod"]})], {}, env)
        except pyeval.Raised as r_: return "raise", r_.cls
        except pyeval.Unsupported as u_: raise AnalysisError("%s.__call__: outside the evaluated subset: %s" % (cname, u_))
    # the chain may start at a list (a multi-valued reference as the definition path): K.extends = [B1, B2]
    W = mk(); before = lists_of(W)
    k, v = call_fn("get_list_of_concatenated_objects", W["K"][".extends"], "extends")
    got = "raises " + v if k == "raise" else nm(v)
    rep("extension chain starting at the list K.extends", got == "[B1, B2, BB]" and lists_of(W) == before and (k != "ret" or v is not W["K"][".extends"]), "get_list_of_concatenated_objects(K.extends, 'extends') gives %s and %s; documented [B1, B2, BB] as a new list (the reference list of the model is only read)" % (got, "leaves the model's lists untouched" if lists_of(W) == before else "changes a list of the model: K.extends is now %s" % nm(W["K"][".extends"])), fn_="get_list_of_concatenated_objects")
    for cname, ctor, start, name, want in (("ExtRelativeName", ["instance.type.extends", "methods", "extends"], "call", "b1only", "b1only of B1"), ("ExtRelativeName", ["instance.type", "methods", "extends"], "call", "deep", "deep of BB"),
                                           ("RelativeName", ["instance.type.methods"], "call", "stop", "stop of K"), ("RelativeName", ["instance.type.methods"], "call", "go", "go of K"), ("RelativeName", ["instance.type.methods"], "call", "nope", "None")):
        W = mk(); before = lists_of(W)
        k, v = call_provider(cname, ctor, W, name, start)
        got = "raises " + v if k == "raise" else ("%s of %s" % (v.get(".name"), v.get(".parent", {}).get(".name")) if isinstance(v, dict) and v.get(".kind") == "obj" else nm(v))
        same = lists_of(W) == before
        rep("%s(%s) resolving %r leaves the model's lists untouched" % (cname, ", ".join(ctor), name), got == want and same, "%s(%s) resolving %r gives %s and %s; documented %s, and a scope provider only reads the model (a reference list or a containment list it walks keeps its elements and their textual order)" % (cname, ", ".join(repr(x) for x in ctor), name, got, "leaves the model's lists untouched" if same else "changes a list of the model (%s)" % ", ".join("%s.%s: %s -> %s" % (k_[0], k_[1][1:], nm(before[k_]), nm(lists_of(W).get(k_))) for k_ in before if lists_of(W).get(k_) != before[k_])[:200], want), fn_=cname + ".__call__", rel=P)
    # scope redirection (importAs): the callback's list is extended into a NEW list
    fr = next((f for f in pt.body if isinstance(f, ast.FunctionDef) and f.name == "follow_loaded_models_scope_redirection_logic"), None)
    if fr is None: raise AnalysisError("providers.py: follow_loaded_models_scope_redirection_logic not found")
    def redirect(obj_, cb):
        env = dict(base); env.update({"__module__": pt, fr.args.args[0].arg: obj_, fr.args.args[1].arg: cb})
        try: return "ret", pyeval.run_block(fr.body, env)
        except pyeval.Raised as r_: return "raise", r_.cls
        except pyeval.Unsupported as u_: raise AnalysisError("follow_loaded_models_scope_redirection_logic: outside the evaluated subset: %s" % u_)
    W = mk(); m1 = HS({".kind": "model", ".name": "loaded-model"}); own = [W["B1"], W["B2"]]; holder = HS({".kind": "obj", ".name": "alias", "._tx_loaded_models": [m1], ".refs": own})
    k, v = redirect(holder, pyeval.PyFn(lambda o_: o_[".refs"]))
    rep("scope redirection through a reference list of the model", k == "ret" and isinstance(v, list) and v is not own and [x for x in v] == [W["B1"], W["B2"], m1] and own == [W["B1"], W["B2"]] and holder["._tx_loaded_models"] == [m1],
        "follow_loaded_models_scope_redirection_logic with a callback that returns the reference list [B1, B2] of the object gives %s and leaves that list as %s; documented: a new list [B1, B2, loaded-model]; the model's list keeps its two elements" % ("raises " + v if k == "raise" else nm(v), nm(own)), fn_="follow_loaded_models_scope_redirection_logic", rel=P)
    k, v = redirect(holder, None)
    rep("no redirection callback", k == "ret" and v == [m1] and v is not holder["._tx_loaded_models"] or (k == "ret" and v == [m1]), "without a callback the result is %s; documented [loaded-model]" % ("raises " + v if k == "raise" else nm(v)), fn_="follow_loaded_models_scope_redirection_logic", rel=P)
    pp = POST()
    k, v = redirect(holder, pyeval.PyFn(lambda o_: pp))
    rep("a postponed redirection", k == "ret" and v is pp, "a callback answering Postponed gives %s; documented: that Postponed" % ("raises " + v if k == "raise" else nm(v)), fn_="follow_loaded_models_scope_redirection_logic", rel=P)
    for unres in (("i", "type"),):
        W = mk(); unresolved.add((id(W[unres[0]]), unres[1]))
        k, v = call_provider("RelativeName", ["instance.type.methods"], W, "go")
        unresolved.clear()
        rep("RelativeName with %s.%s unresolved" % unres, k == "ret" and is_post(v), "RelativeName('instance.type.methods') while %s.%s is not resolved yet gives %s; documented Postponed" % (unres[0], unres[1], "raises " + v if k == "raise" else nm(v)), fn_="RelativeName.__call__", rel=P)
    return inst, out
