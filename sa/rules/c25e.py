"""C25.k  TextXVisitor.second_textx_model / _resolve_rule_refs decided by evaluation (sa/pyeval.py; nothing of textX runs) on a sample meta-model
whose rule bodies are parsing-expression trees with RuleCrossRef placeholders (sa/exprs.py):

  after the call no placeholder is left anywhere below the parser's start expression or below any class's rule; a
  reference to a rule is replaced by THAT rule's root expression (the same object for every reference: its modifiers,
  its memoization table and its class belong to the rule); an alias rule (B: A;) gets A's expression; a suppressed
  reference (Arrow-) becomes a suppressed Sequence named like the rule whose only node is the rule's own root expression
  (so the rule's whitespace modifiers still apply inside) and which carries the rule's class - the rule itself is not
  suppressed for its other users; every class of the meta-model is served, also two classes of the same simple name that
  come from different grammars; the Comment rule's resolved expression becomes the parser's comments model;
  a rule defined only by a reference to itself, and a reference to a rule that does not exist, are TextXSemanticErrors."""
import ast
from sa.util import *
from sa import pyeval, exprs
from sa.exprs import E, HS, match
L = "textx/lang.py"
class _MM(dict):
    """sample meta-model: subscript / `in` by rule name (the first class of that name, as the namespace lookup does), iteration over all classes"""
    def __init__(s, classes): dict.__init__(s); s.classes = list(classes); [dict.setdefault(s, c[".__name__"], c) for c in classes]
    def __iter__(s): return iter(list(s.classes))
class _EqMatch(HS):
    """sample StrMatch with arpeggio's equality: equal to anything whose text is its text (StrMatch('A') == the reference to rule A)"""
    def __eq__(s, o): return s[".to_match"] == (o.get(".to_match") if isinstance(o, dict) and ".to_match" in o else str(o))
    def __ne__(s, o): return not s.__eq__(o)
    def __hash__(s): return hash(s[".to_match"])
class _Ref(HS):
    """sample RuleCrossRef: prints as the rule's name, like textX's"""
    def __str__(s): return s[".rule_name"]
def r_resolverefs(root):
    out = []; inst = 0
    # the entry point is second_textx_model (the second pass over the compiled grammar); the rule-kind and class-reference steps
    # that follow the rule-reference step are stand-ins (decided by C03.m and C25.a-j)
    t = load(root, L); fn = find(t, "TextXVisitor.second_textx_model"); ps = [a.arg for a in fn.args.args]
    find(t, "TextXVisitor._resolve_rule_refs")
    if len(ps) != 2: raise AnalysisError("second_textx_model: parameters %s" % ps)
    fns = {k: v for k, v in helper_functions(root, L, "TextXVisitor.second_textx_model").items() if k.startswith("_") and not k.startswith("__") and k not in ("_determine_rule_types", "_resolve_cls_refs")}
    def ref(name, suppress=False): return _Ref({".kind": "RuleCrossRef", ".rule_name": name, ".suppress": suppress, ".position": 7, ".cls": None})
    def lit(txt): return _EqMatch(E("StrMatch", rule_name="", to_match=txt))
    def cls_(name, rule): c = HS({".kind": "cls", ".__name__": name, "._tx_fqn": name, "._tx_peg_rule": rule}); (rule.__setitem__("._tx_class", c) if rule.get(".kind") != "RuleCrossRef" else None); return c
    def world(extra=()):
        a_root = E("Sequence", match("a"), rule_name="A", root=True)
        arrow_root = E("Sequence", match("-"), match(">"), rule_name="Arrow", root=True, skipws=False)         # Arrow[noskipws]: '-' '>';
        r_a1, r_a2, r_b, r_arrow, r_c = ref("A"), ref("A"), ref("B"), ref("Arrow", suppress=True), ref("LineComment")
        kw_a = lit("A")                                     # a keyword spelled like the rule A, right in front of the reference to A:  Model: 'A' A ...
        model_root = E("Sequence", kw_a, r_a1, E("ZeroOrMore", E("Sequence", r_arrow, r_a2)), r_b, rule_name="Model", root=True)
        line_comment = E("RegExMatch", rule_name="LineComment", root=True, to_match="//.*$")
        dup1 = ref("A"); dup2 = ref("Arrow")
        classes = [cls_("Model", model_root), cls_("A", a_root), cls_("B", ref("A")), cls_("Arrow", arrow_root), cls_("Comment", r_c), cls_("LineComment", line_comment),
                   cls_("Dup", dup1), HS({".kind": "cls", ".__name__": "Dup", "._tx_fqn": "lib.Dup", "._tx_peg_rule": dup2})] + list(extra)
        mm = _MM(classes)
        start = E("Sequence", ref("Model"), E("EndOfFile", rule_name="EOF"), rule_name="Model", root=True)
        mp = HS({".kind": "parser", ".parser_model": start, ".metamodel": mm, ".comments_model": None})
        mm[".file_name"] = "g.tx"
        return mp, mm, dict(kw_a=kw_a, a_root=a_root, arrow_root=arrow_root, model_root=model_root, line_comment=line_comment, start=start, classes=classes)
    def run(mp):
        gp = HS({".kind": "grammar parser", ".debug": False, ".dprint": pyeval.PyFn(lambda *a: None), ".pos_to_linecol": pyeval.PyFn(lambda p_: (1, p_))})
        vis = HS({".kind": "visitor", ".debug": False, ".grammar_parser": gp, ".metamodel": mp[".metamodel"], ".dprint": pyeval.PyFn(lambda *a: None),
                  "._determine_rule_types": pyeval.PyFn(lambda *a, **k: None), "._resolve_cls_refs": pyeval.PyFn(lambda *a, **k: None)})
        env = {"__functions__": fns, "__classes__": exprs.classes_env(), "__module__": t, "__maxdepth__": 40, ps[0]: vis, ps[1]: mp,
               "TextXSemanticError": pyeval.PyFn(lambda *a, **k: {".cls": "TextXSemanticError"})}
        env.update({k_: exprs.type_of(k_) for k_ in ("Sequence", "OrderedChoice", "OneOrMore", "ZeroOrMore", "Optional", "UnorderedGroup", "Not", "And", "StrMatch", "RegExMatch", "Match", "EndOfFile")})      # each name is the class (type(x) is Sequence) and its constructor
        try: return "ret", pyeval.run_block(fn.body, env, max_steps=40000)
        except pyeval.Raised as r_: return "raise", r_.cls
        except pyeval.Unsupported as u_: raise AnalysisError("second_textx_model / _resolve_rule_refs: outside the evaluated subset: %s" % u_)
    W = "TextXVisitor._resolve_rule_refs"
    def rep(what, ok, msg, props_=("C25", "C01")):
        nonlocal inst
        inst += 1
        for pr in props_:
            ob(pr, "C25.k", L, W, what, ok)
            if not ok: out.append(Finding(pr, "C25.k", L, W, what, msg))
    def walk(e, seen=None):
        seen = seen if seen is not None else []
        if not isinstance(e, dict) or any(e is x for x in seen): return seen
        seen.append(e)
        for n in e.get(".nodes", []) or []: walk(n, seen)
        return seen
    mp, mm, o = world()
    k, v = run(mp)
    rep("the sample grammar is resolved", k == "ret", "resolving the rule references of the sample grammar (Model: A (Arrow- A)* B; A: 'a'; B: A; Arrow[noskipws]: '-' '>'; Comment: LineComment; ...) %s" % ("raises %s" % v if k == "raise" else "fails"), props_=("C25", "C01", "C22", "C23"))
    if k == "ret":
        below = walk(mp[".parser_model"]); left = [e.get(".rule_name") for e in below if e.get(".kind") == "RuleCrossRef"]
        unresolved = [c.get("._tx_fqn") for c in o["classes"] if not isinstance(c.get("._tx_peg_rule"), dict) or c["._tx_peg_rule"].get(".kind") == "RuleCrossRef" or [e for e in walk(c["._tx_peg_rule"]) if e.get(".kind") == "RuleCrossRef"]]
        rep("no placeholder is left below the start expression or below any class's rule", not left and not unresolved, "after _resolve_rule_refs references to %s are still placeholders below the parser's start expression and the rules of the classes %s are unresolved; documented: every RuleCrossRef is replaced - for every class of the meta-model (two classes may share a simple name when they come from different grammars)" % (left or "no rule", unresolved or "none"), props_=("C25", "C01", "C23"))
        mr = o["model_root"]; nkw = mr[".nodes"][0]; n0 = mr[".nodes"][1]; n2 = mr[".nodes"][3]
        inner = mr[".nodes"][2].get(".nodes", [None])[0] if isinstance(mr[".nodes"][2], dict) else None
        arrow_w = inner.get(".nodes", [None, None])[0] if isinstance(inner, dict) else None; a_again = inner.get(".nodes", [None, None])[1] if isinstance(inner, dict) and len(inner.get(".nodes", [])) > 1 else None
        rep("a reference is replaced by the rule's own root expression, the same object everywhere", nkw is o["kw_a"] and n0 is o["a_root"] and a_again is o["a_root"] and n2 is o["a_root"] and mm["B"]["._tx_peg_rule"] is o["a_root"] and mp[".parser_model"][".nodes"][0] is mr,
            "after resolution (Model: 'A' A (Arrow- A)* B;) the keyword 'A' in front is %s, the references to A in Model are %s, the alias rule B has %s; documented: the keyword stays where it is (a string match compares equal to anything that prints as its text - the reference to rule A does), A's root expression itself for every reference and for the alias B" % ("still the keyword" if nkw is o["kw_a"] else "replaced", "A's root expression" if n0 is o["a_root"] and a_again is o["a_root"] else "not (all) A's root expression", "A's root expression" if mm["B"]["._tx_peg_rule"] is o["a_root"] and n2 is o["a_root"] else "something else"), props_=("C25", "C01", "C21"))
        okw = isinstance(arrow_w, dict) and arrow_w.get(".kind") == "Sequence" and arrow_w.get(".suppress") is True and arrow_w.get(".rule_name") == "Arrow" and len(arrow_w.get(".nodes", [])) == 1 and arrow_w[".nodes"][0] is o["arrow_root"] and arrow_w.get("._tx_class") is mm["Arrow"] \
              and not o["arrow_root"].get(".suppress") and o["arrow_root"].get(".skipws") is False and [x.get(".to_match") for x in o["arrow_root"][".nodes"]] == ["-", ">"]
        rep("a suppressed reference wraps the rule's own root expression", okw, "the suppressed reference Arrow- (Arrow[noskipws]: '-' '>') becomes %s; documented: a suppressed Sequence named Arrow, carrying Arrow's class, whose only node is Arrow's own root expression - with its noskipws modifier - while the rule itself stays unsuppressed for its other users" % (("%s%s named %r over %s" % (arrow_w.get(".kind"), " (suppressed)" if arrow_w.get(".suppress") else "", arrow_w.get(".rule_name"), ["Arrow's root expression" if x is o["arrow_root"] else (x.get(".kind"), x.get(".to_match")) for x in arrow_w.get(".nodes", [])])) if isinstance(arrow_w, dict) else repr(arrow_w)), props_=("C25", "C01", "C22", "C06"))
        rep("the Comment rule's resolved expression becomes the comments model", mp[".comments_model"] is o["line_comment"] and mm["Comment"]["._tx_peg_rule"] is o["line_comment"], "after resolution the parser's comments model is %s; documented: the expression the Comment rule resolves to (Comment: LineComment; -> the LineComment match)" % ("still a placeholder" if isinstance(mp[".comments_model"], dict) and mp[".comments_model"].get(".kind") == "RuleCrossRef" else ("unset" if mp[".comments_model"] is None else "another expression")), props_=("C25", "C22"))
    for what, extra in (("a rule defined only by a reference to itself (Loop: Loop;)", [cls_("Loop", ref("Loop"))]), ("two alias rules referring to each other (P: Q; Q: P;)", [cls_("P", ref("Q")), cls_("Q", ref("P"))]), ("a reference to a rule that does not exist", [cls_("Bad", E("Sequence", ref("Nowhere"), rule_name="Bad", root=True))])):
        mp, mm, o = world(extra)
        k, v = run(mp)
        rep(what, k == "raise" and v == "TextXSemanticError", "%s: _resolve_rule_refs %s; documented TextXSemanticError" % (what, "raises %s" % v if k == "raise" else "completes"), props_=("C25", "C23"))
    return inst, out

def r_resolvecls(root):
    """C25.m  TextXVisitor._resolve_cls_refs decided by evaluation on a sample meta-model whose attributes and inheritor lists
    still hold ClassCrossRef placeholders:
      every placeholder is replaced by the class the meta-model finds under that name - in attributes and in the inheritor
      lists of abstract rules, for every class of the meta-model (two classes of one simple name from different grammars
      are both served and keep their own targets); an attribute whose class is a base type or a match rule becomes a
      contained plain value (ref False, cont True), any other a link (ref True, containment as the assignment said);
      the provider and match rule written in the grammar stay on the attribute whatever the kind of the target rule;
      an unknown class name is a TextXSemanticError located at the reference, in the grammar's file."""
    out = []; inst = 0
    t = load(root, L); fn = find(t, "TextXVisitor._resolve_cls_refs"); ps = [a.arg for a in fn.args.args]
    if len(ps) != 3: raise AnalysisError("_resolve_cls_refs: parameters %s" % ps)
    fns = {k: v for k, v in helper_functions(root, L, "TextXVisitor._resolve_cls_refs").items() if k.startswith("_") and not k.startswith("__") and k != "_resolve_cls_refs"}
    ct = load(root, "textx/const.py"); consts = {}
    for st in ct.body:
        if isinstance(st, ast.Assign) and isinstance(st.targets[0], ast.Name):
            try: consts[st.targets[0].id] = pyeval.evaluate(st.value, dict(consts))
            except (pyeval.Unsupported, pyeval.Raised): pass
    COMMON, ABSTRACT, MATCH = consts.get("RULE_COMMON"), consts.get("RULE_ABSTRACT"), consts.get("RULE_MATCH")
    if None in (COMMON, ABSTRACT, MATCH): raise AnalysisError("textx/const.py: rule kinds not found")
    def xref(name): return HS({".kind": "ClassCrossRef", ".cls_name": name, ".position": 9})
    def cls_(name, typ, fqn=None): return HS({".kind": "cls", ".__name__": name, "._tx_fqn": fqn or name, "._tx_type": typ, "._tx_attrs": {}, "._tx_inh_by": []})
    def attr(name, target, cont=True, provider=None, mrule=None): return HS({".kind": "metaattr", ".name": name, ".cls": target, ".cont": cont, ".ref": None, ".mult": "1", ".position": 3, ".is_base_type": None, ".scope_provider": provider, ".match_rule_name": mrule})
    prov = HS({".kind": "callable", ".tag": "RREL provider written in the grammar"})
    def world(extra_attr=None):
        A = cls_("A", COMMON); B = cls_("B", COMMON); K = cls_("Kw", MATCH); Abs = cls_("Abs", ABSTRACT); INT = cls_("INT", MATCH); ID = cls_("ID", MATCH)
        Dup1 = cls_("Dup", COMMON, "Dup"); Dup2 = cls_("Dup", COMMON, "lib.Dup")
        Model = cls_("Model", COMMON)
        Model["._tx_attrs"] = {"a": attr("a", xref("A")), "n": attr("n", xref("INT")), "k": attr("k", xref("Kw")), "r": attr("r", xref("B"), cont=False, provider=prov, mrule="FQN"),
                               "ra": attr("ra", xref("Abs"), cont=False, provider=prov, mrule="ID"), "rk": attr("rk", xref("Kw"), cont=False, provider=prov, mrule="ID")}
        Abs["._tx_inh_by"] = [xref("A"), xref("B")]
        Dup1["._tx_attrs"] = {"x": attr("x", xref("A"))}; Dup2["._tx_attrs"] = {"y": attr("y", xref("B"))}
        if extra_attr: Model["._tx_attrs"]["bad"] = extra_attr
        classes = [Model, A, B, K, Abs, INT, ID, Dup1, Dup2]
        mm = _MM(classes); mm[".file_name"] = "g/main.tx"
        mm[".namespaces"] = {"__base__": {}, None: {}, "lib": {}}          # a grammar given as a string lives in the namespace None
        mp = HS({".kind": "parser", ".metamodel": mm})
        return mp, mm, dict(Model=Model, A=A, B=B, Kw=K, Abs=Abs, INT=INT, Dup1=Dup1, Dup2=Dup2)
    errs = []
    def run(mp):
        gp = HS({".kind": "grammar parser", ".debug": False, ".dprint": pyeval.PyFn(lambda *a: None), ".pos_to_linecol": pyeval.PyFn(lambda p_: (("line", p_), ("col", p_)))})
        env = dict(consts)
        env.update({"__functions__": fns, "__classes__": exprs.classes_env(), "__module__": t, "__maxdepth__": 40, ps[0]: HS({".kind": "visitor", ".debug": False}), ps[1]: gp, ps[2]: mp,
                    "BASE_TYPE_NAMES": ["ID", "BOOL", "INT", "FLOAT", "STRICTFLOAT", "STRING", "NUMBER", "BASETYPE"],
                    "TextXSemanticError": pyeval.PyFn(lambda *a, **k: (errs.append((a, k)), {".cls": "TextXSemanticError"})[1])})
        try: return "ret", pyeval.run_block(fn.body, env, max_steps=40000)
        except pyeval.Raised as r_: return "raise", r_.cls
        except pyeval.Unsupported as u_: raise AnalysisError("_resolve_cls_refs: outside the evaluated subset: %s" % u_)
    W = "TextXVisitor._resolve_cls_refs"
    def rep(what, ok, msg, props_=("C25", "C01")):
        nonlocal inst
        inst += 1
        for pr in props_:
            ob(pr, "C25.m", L, W, what, ok)
            if not ok: out.append(Finding(pr, "C25.m", L, W, what, msg))
    mp, mm, o = world()
    # the _MM sample raises KeyError for unknown names like the real meta-model
    k, v = run(mp)
    rep("the sample meta-model is linked", k == "ret", "linking the class references of the sample meta-model %s" % ("raises %s" % v if k == "raise" else "fails"), props_=("C25", "C01", "C32", "C23"))
    if k == "ret":
        at = o["Model"]["._tx_attrs"]
        left = ["%s.%s" % (c[".__name__"], a[".name"]) for c in o.values() for a in c["._tx_attrs"].values() if isinstance(a[".cls"], dict) and a[".cls"].get(".kind") == "ClassCrossRef"] + ["%s inheritors" % c[".__name__"] for c in o.values() if any(isinstance(x, dict) and x.get(".kind") == "ClassCrossRef" for x in c["._tx_inh_by"])]
        okt = not left and at["a"][".cls"] is o["A"] and at["n"][".cls"] is o["INT"] and at["k"][".cls"] is o["Kw"] and at["r"][".cls"] is o["B"] and at["ra"][".cls"] is o["Abs"] and o["Abs"]["._tx_inh_by"] == [o["A"], o["B"]] and o["Dup1"]["._tx_attrs"]["x"][".cls"] is o["A"] and o["Dup2"]["._tx_attrs"]["y"][".cls"] is o["B"]
        rep("every class reference is replaced by the class of that name, for every class of the meta-model", okt, "after _resolve_cls_refs these references are still placeholders: %s; the targets are %s; documented: each attribute and each inheritor entry holds the class the meta-model finds under the written name - also for the second of two classes that share a simple name (lib.Dup.y -> B)" % (left or "none", {n_: (a_[".cls"].get(".__name__") if isinstance(a_[".cls"], dict) else a_[".cls"]) for n_, a_ in at.items()}), props_=("C25", "C01", "C23"))
        flags = {n_: (a_[".ref"], a_[".cont"], a_[".is_base_type"]) for n_, a_ in at.items()}
        wantf = {"a": (True, True, False), "n": (False, True, True), "k": (False, True, True), "r": (True, False, False), "ra": (True, False, False), "rk": (False, True, True)}
        rep("base types and match rules become contained values, other rules links", flags == wantf, "after linking the attributes have (ref, cont, is_base_type) = %s; documented %s: an attribute of a base type or a match rule is a contained plain value, any other rule - common or abstract - a link whose containment is what the assignment said" % (flags, wantf), props_=("C25", "C01", "C03"))
        okp = at["r"][".scope_provider"] is prov and at["r"][".match_rule_name"] == "FQN" and at["ra"][".scope_provider"] is prov and at["ra"][".match_rule_name"] == "ID"
        rep("the provider and match rule written in the grammar stay on the attribute", okp, "after linking the reference attributes r (target: common rule B) and ra (target: abstract rule Abs) carry providers %s / %s and match rules %r / %r; documented: the RREL provider and the match rule written in the grammar, whatever the kind of the target rule" % ("of the grammar" if at["r"][".scope_provider"] is prov else at["r"][".scope_provider"], "of the grammar" if at["ra"][".scope_provider"] is prov else at["ra"][".scope_provider"], at["r"][".match_rule_name"], at["ra"][".match_rule_name"]), props_=("C32", "C25", "C11"))
    for name in ("Nowhere", "lib.Nowhere", "nolib.A"):
        del errs[:]
        mp, mm, o = world(attr("bad", xref(name)))
        k, v = run(mp)
        kw_ = errs[-1][1] if errs else {}; a_ = errs[-1][0] if errs else ()
        loc = (kw_.get("line", a_[1] if len(a_) > 1 else None), kw_.get("col", a_[2] if len(a_) > 2 else None), kw_.get("filename"))
        rep("an unknown class name %r" % name, k == "raise" and v == "TextXSemanticError" and loc == (("line", 9), ("col", 9), "g/main.tx"), "a reference to the unknown class %r: _resolve_cls_refs %s with the location %s; documented: TextXSemanticError 'Unknown class/rule' at the reference (line, col of position 9) in the grammar's file" % (name, "raises %s" % v if k == "raise" else "completes", loc), props_=("C23", "C25"))
    return inst, out
