"""C01.e attribute default table of TextXMetaModel._init_obj_attrs  (documented in docs/src/metamodel.md, grammar.md):
        many-valued attribute                      -> []        (whatever auto_init_attributes says)
        base type, auto_init_attributes            -> python default of the type  (python_type(name)())
        base type, no auto init, ?= assignment     -> False
        base type, no auto init                    -> None
        anything else (object reference / match)   -> None
   python_type covers every name of BASE_TYPE_RULES with the documented Python type.
   C01.g use_regexp_group: the value of a regex match is group 1 iff the *pattern* has exactly one group."""
import ast
from sa.util import *
from sa import atoms, sem
MM = "textx/metamodel.py"; L = "textx/lang.py"; M = "textx/model.py"
def _classify_atom(a):
    u = a.replace(" ", "")
    if "attr.mult" in u and "MULT_ZEROORMORE" in u and "MULT_ONEORMORE" in u and "in" in a: return "many"
    if "BASE_TYPE_NAMES" in u and "attr.cls.__name__" in u: return "base"
    if u == "self.auto_init_attributes": return "auto"
    if u == "attr.bool_assignment": return "bool"
    return None
def _value_kind(e):
    u = ast.unparse(e).replace(" ", "")
    if u == "[]" or u == "list()": return "[]"
    if u == "None": return "None"
    if u == "False": return "False"
    if u.startswith("python_type(attr.cls.__name__)("): return "pytype()"
    return "?" + u
def _helper(tree, fn, call):
    """the definition of a same-class / same-module helper called as self.h(...) or h(...), else None"""
    nm = callee_name(call)
    if nm in ("python_type", "setattr", "getattr", "list", "dict"): return None
    cls = next((a for a in ancestors(fn) if isinstance(a, ast.ClassDef)), None)
    cands = [f for f in (cls.body if cls is not None else []) if isinstance(f, ast.FunctionDef) and f.name == nm] + [f for f in tree.body if isinstance(f, ast.FunctionDef) and f.name == nm]
    return cands[0] if cands else None
def _helper_values(tree, fn, call, want, classify):
    """value kinds the helper can return under the valuation `want` (helper body as a decision table; parameters renamed to the call's argument names)"""
    h = _helper(tree, fn, call)
    params = [a.arg for a in h.args.args if a.arg not in ("self", "cls")]
    ren = {p: a.id for p, a in zip(params, call.args) if isinstance(a, ast.Name)}
    import copy
    body = copy.deepcopy(h.body)
    class R(ast.NodeTransformer):
        def visit_Name(self, n):
            if n.id in ren: return ast.copy_location(ast.Name(id=ren[n.id], ctx=n.ctx), n)
            return n
    body = [ast.fix_missing_locations(R().visit(b)) for b in body]
    hi = sem.info(h)
    names, rows = atoms.table(body, feasible=None)
    cl = {a: classify(a) for a in names}
    if any(c is None for c in cl.values()): raise AnalysisError("%s: guard outside the supported atom set: %s" % (h.name, [a for a, c in cl.items() if c is None]))
    out = set()
    for r in rows:
        if not all(want[cl[a]] == v for a, v in r.val.items()): continue
        if r.exit_kind == "return" and r.exit_node.value is not None: out.add(_value_kind(r.exit_node.value))
        else: out.add("<no value>")
    return out
def r_C01ef(root):
    out = []; inst = 0
    t = load(root, MM); fn = find(t, "TextXMetaModel._init_obj_attrs"); fi = sem.info(fn)
    loop = next((s for s in fn.body if isinstance(s, ast.For) and "_tx_attrs" in ast.unparse(s.iter)), None)
    if loop is None: raise AnalysisError("_init_obj_attrs: loop over _tx_attrs not found")
    def expand(test): return fi.expand(test, at=test)
    names, rows = atoms.table(loop.body, feasible=None, expand=expand)
    cls = {a: _classify_atom(a) for a in names}
    unk = [a for a, c in cls.items() if c is None]
    # a guard outside the four documented determinants is a free condition: the table must give the documented default whatever its value
    for a in unk: cls[a] = "free:" + a
    def expected(many, base, auto, boo):
        if many: return "[]"
        if base: return "pytype()" if auto else ("False" if boo else "None")
        return "None"
    for many in (True, False):
        for base in (True, False):
            for auto in (True, False):
                for boo in (True, False):
                    want = {"many": many, "base": base, "auto": auto, "bool": boo}
                    sel = [r for r in rows if all(want[cls[a]] == v for a, v in r.val.items() if not cls[a].startswith("free:"))]
                    inst += 1
                    vals = set()
                    for r in sel:
                        st = [e for e in r.effects if isinstance(e, ast.Expr) and isinstance(e.value, ast.Call) and callee_name(e.value) == "setattr" and len(e.value.args) == 3]
                        if not st: vals.add("<unset>"); continue
                        v = st[-1].value.args[2]
                        if isinstance(v, ast.Name):          # value chosen in the branches, one setattr at the end
                            idx = r.effects.index(st[-1])
                            asg = [e for e in r.effects[:idx] if isinstance(e, ast.Assign) and any(isinstance(tg, ast.Name) and tg.id == v.id for tg in e.targets)]
                            if asg: v = asg[-1].value
                        if isinstance(v, ast.Call) and _helper(t, fn, v) is not None:      # value computed by an extracted helper
                            for hv in _helper_values(t, fn, v, want, _classify_atom): vals.add(hv)
                        else: vals.add(_value_kind(v))
                    exp = expected(many, base, auto, boo)
                    okc = vals == {exp}
                    ob("C01", "C01.e", MM, "TextXMetaModel._init_obj_attrs", "many=%s base=%s auto_init=%s bool=%s -> %s" % (many, base, auto, boo, sorted(vals)), okc)
                    if not okc:
                        out.append(Finding("C01", "C01.e", MM, "TextXMetaModel._init_obj_attrs", "many=%s base_type=%s auto_init_attributes=%s bool_assignment=%s" % (many, base, auto, boo),
                                           "attribute is initialised to %s, documented default is %s%s" % (sorted(vals), exp, (" (depending on the extra condition %s)" % unk[0]) if unk else ""), witness="grammar with a repeated plain assignment of a base type (a=INT a=INT) and auto_init_attributes=False" if many else None))
    # python_type covers the base types: by evaluation of python_type for every documented base type (module-level tables evaluated too)
    from sa import pyeval as _pe
    from sa.exprs import HS as _HS
    lang = load(root, L); pt = find(lang, "python_type")
    SPEC = {"ID": str, "BOOL": bool, "INT": int, "FLOAT": float, "STRICTFLOAT": float, "STRING": str, "NUMBER": float, "BASETYPE": str}
    declared = set()
    for n in lang.body:
        if isinstance(n, ast.Assign) and isinstance(n.value, ast.Call):
            for k in n.value.keywords:
                if k.arg == "rule_name" and isinstance(k.value, ast.Constant): declared.add(k.value.value)
            if len(n.value.args) >= 2 and isinstance(n.value.args[1], ast.Constant) and isinstance(n.value.args[1].value, str): declared.add(n.value.args[1].value)      # RegExMatch(to_match, rule_name, ...)
    if not set(SPEC) <= declared: raise AnalysisError("lang.py: base type rules %s not found" % sorted(set(SPEC) - declared))
    def _rule(*a, **k): return _HS({".kind": "rule", ".rule_name": k.get("rule_name", a[1] if len(a) > 1 else None), ".root": k.get("root"), ".nodes": k.get("nodes")})
    pps = [a.arg for a in pt.args.args]
    for nm, want in list(SPEC.items()) + [("Person", "Person"), ("OBJECT", "OBJECT")]:
        inst += 1
        env = {"__module__": lang, "__functions__": {k_: v_ for k_, v_ in helper_functions(root, L, "python_type").items() if k_ != "python_type"}, "_": _pe.PyFn(_rule), "RegExMatch": _pe.PyFn(_rule), "OrderedChoice": _pe.PyFn(_rule), "Sequence": _pe.PyFn(_rule), pps[0]: nm}
        try: got = _pe.run_block(pt.body, env)
        except _pe.Raised as r_: got = "raises " + r_.cls
        except _pe.Unsupported as u_: raise AnalysisError("python_type: outside the evaluated subset: %s" % u_)
        okc = (got == want) if isinstance(want, type) else got == want
        shown = got.fn.__name__ if isinstance(got, _pe.PyFn) and isinstance(got.fn, type) else got
        ob("C01", "C01.e", L, "python_type", "%s -> %s" % (nm, shown), bool(okc))
        if not okc: out.append(Finding("C01", "C01.e", L, "python_type", "%s: %s" % (nm, shown), "python_type(%r) gives %s, documented %s" % (nm, shown, want.__name__ if isinstance(want, type) else "the name itself (not a base type)")))
    # C01.g (use_regexp_group) is decided by evaluation: C01.k (sa/rules/cpn.py)
    return inst, out
def r_C01i(root):
    """C01.i  attribute type over repeated assignments (visit_assignment): the type recorded by the first assignment
       (ClassCrossRef(cls_name=T)) and the type a later assignment is compared with (cls_attr.cls.cls_name != T') are the
       same expression; a mismatch demotes the attribute to OBJECT.  (sibling agreement of writer and comparer)"""
    out = []; inst = 0
    fn = find_i(root, L, "TextXVisitor.visit_assignment"); fi = sem.info(fn)
    w = [c for c in calls(fn, own=True) if callee_name(c) == "ClassCrossRef" and any(k.arg == "cls_name" for k in c.keywords)]
    cmps = [n for n in own_nodes(fn) if isinstance(n, ast.Compare) and len(n.ops) == 1 and isinstance(n.ops[0], (ast.NotEq, ast.Eq)) and any(isinstance(y, ast.Attribute) and y.attr == "cls_name" for x in (n.left, n.comparators[0]) for y in ast.walk(x))]
    if not w or not cmps: raise AnalysisError("visit_assignment: type writer (ClassCrossRef) / type comparison (cls_name) not found")
    T = " ".join(fi.text(next(k.value for k in w[0].keywords if k.arg == "cls_name"), at=w[0]).split())
    for c in cmps:
        inst += 1
        sides = [c.left, c.comparators[0]]
        rec = next((x for x in sides if isinstance(x, ast.Attribute) and x.attr == "cls_name"), None)
        if rec is None:
            # the recorded type is compared through a projection (e.g. its last dotted component)
            for pr in ("C01", "C07", "C25"): out.append(Finding(pr, "C01.i", L, "TextXVisitor.visit_assignment", " ".join(ast.unparse(c).split())[:100], "the recorded attribute type is compared through a projection, not as the full (qualified) name: same-named rules of different grammar files count as the same type and the qualified reference is not honoured", witness="t=[Thing] | '@' t=[right.Thing]"))
            ob("C01", "C01.i", L, "TextXVisitor.visit_assignment", "recorded type compared in full", False); continue
        other = sides[1] if sides[0] is rec else sides[0]
        T2 = " ".join(fi.text(other, at=c).split())
        ok = T == T2
        ob("C01", "C01.i", L, "TextXVisitor.visit_assignment", "recorded type %s / compared type %s" % (T[:50], T2[:50]), ok)
        if not ok: out.append(Finding("C01", "C01.i", L, "TextXVisitor.visit_assignment", " ".join(ast.unparse(c).split()), "a repeated assignment compares the recorded attribute type with %s but the first assignment recorded %s: attributes assigned twice with the same kind of value are demoted to OBJECT (default None instead of the base type's default) or differing types go unnoticed" % (T2, T), witness="Model: v='public' | v='private'; with auto_init_attributes and input matching neither"))
    return inst, out
