"""C21.a / C21.d / C20.d / C23.b  the string- and regex-match visitors decided by evaluation (sa/pyeval.py; nothing of
textX runs; `re` and `codecs` are the standard library's own - a trusted base like the str methods).

TextXVisitor.__init__ is interpreted to obtain the keyword classifier the visitor really builds (for ignore_case off
and on); then visit_str_match is interpreted for sample literals, with recording stand-ins for StrMatch / RegExMatch:
   autokwd off                  every literal becomes a StrMatch of the decoded text
   autokwd on, keyword-like     (a letter or underscore followed by word characters, as a whole: begin, _x, end_2, été)
                                -> a compiled RegExMatch of <text>\\b (word boundary), printed as the text
   autokwd on, anything else    ('+', 'a-b', 'ab+', '2nd', 'a b', '', 'end;') -> StrMatch
   escapes are decoded before the classification ('caf\\xe9' is the keyword café); a broken escape is a TextXSyntaxError
   ignore_case of the meta-model reaches every match object
visit_re_match: the pattern is handed on unchanged with the meta-model's ignore_case, compiled, and an invalid pattern is
a TextXSyntaxError located at the node (never a bare re.error)."""
import ast, re
from sa.util import *
from sa import pyeval
L = "textx/lang.py"
def r_matchvisitors(root):
    out = []; inst = 0
    t = load(root, L)
    init = find(t, "TextXVisitor.__init__"); vs = find(t, "TextXVisitor.visit_str_match"); vr = find(t, "TextXVisitor.visit_re_match")
    fns = {k: v for k, v in helper_functions(root, L, "TextXVisitor.visit_str_match").items() if not (k.startswith("__") or k.startswith("visit_") or k.startswith("second_"))}
    made = []
    def mk(kind):
        def ctor(to_match=None, rule_name="", root=False, ignore_case=None, multiline=None, str_repr=None, re_flags=None, **kw):
            o = {".kind": kind, ".to_match": to_match, ".ignore_case": ignore_case, ".str_repr": str_repr, ".compiled": False, ".rule_name": rule_name, ".re_flags": re_flags, ".multiline": multiline}
            def compile_():
                if kind == "RegExMatch":
                    try: re.compile(to_match)
                    except re.error as ex:
                        r_ = pyeval.Raised("error", str(ex)); r_.bases = ["error", "Exception", "BaseException"]; raise r_
                o[".compiled"] = True
            o[".compile"] = pyeval.PyFn(compile_); made.append(o); return o
        return pyeval.PyFn(ctor)
    def base_env(self_):
        return {"__functions__": fns, "__module__": t, "re": pyeval.TRUSTED["re"], "codecs": pyeval.TRUSTED["codecs"], "unicodedata": pyeval.TRUSTED["unicodedata"],
                "StrMatch": mk("StrMatch"), "RegExMatch": mk("RegExMatch"),
                "TextXSyntaxError": pyeval.PyFn(lambda *a, **k: {".kind": "error", ".cls": "TextXSyntaxError", ".args": a, ".kw": k}), "TextXSemanticError": pyeval.PyFn(lambda *a, **k: {".kind": "error", ".cls": "TextXSemanticError"}),
                "super": pyeval.PyFn(lambda *a: {".__init__": pyeval.PyFn(lambda *a2, **k2: None)})}
    def new_visitor(ignore_case, autokwd):
        mm = {".kind": "metamodel", ".ignore_case": ignore_case, ".autokwd": autokwd, ".debug": False, ".file_name": "g.tx"}
        gp = {".kind": "grammar-parser", ".pos_to_linecol": pyeval.PyFn(lambda pos: (("line", pos), ("col", pos))), ".debug": False}
        self_ = {".kind": "visitor"}
        ips = [a.arg for a in init.args.args]
        env = base_env(self_); env[ips[0]] = self_
        for p_ in ips[1:]: env[p_] = gp if "parser" in p_ else (mm if "metamodel" in p_ else None)
        for p_, d_ in zip(ips[len(ips) - len(init.args.defaults):], init.args.defaults): env.setdefault(p_, pyeval.evaluate(d_, {}))
        try: pyeval.run_block(init.body, env)
        except pyeval.Raised as r_: raise AnalysisError("TextXVisitor.__init__ raises %s under evaluation" % r_.cls)
        except pyeval.Unsupported as u_: raise AnalysisError("TextXVisitor.__init__: outside the evaluated subset: %s" % u_)
        self_.setdefault(".metamodel", mm); self_.setdefault(".grammar_parser", gp)
        return self_, mm
    def visit(fn, self_, node, children):
        ps = [a.arg for a in fn.args.args]
        env = base_env(self_); env.update({ps[0]: self_, ps[1]: node, ps[2]: children})
        try: return ("ret", pyeval.run_block(fn.body, env))
        except pyeval.Raised as r_: return ("raise", r_)
        except pyeval.Unsupported as u_: raise AnalysisError("%s: outside the evaluated subset: %s" % (fn.name, u_))
    W = "TextXVisitor.visit_str_match"
    def rep(props_, clause, fn_, what, ok, msg, witness=""):
        nonlocal inst
        inst += 1
        for pr in props_:
            ob(pr, clause, L, fn_, what, ok)
            if not ok: out.append(Finding(pr, clause, L, fn_, what, msg, witness=witness))
    KW = ["begin", "_x", "end_2", "été", "Begin", "_", "x", "é1"]; NOKW = ["+", "a-b", "ab+", "2nd", "a b", "", "end;", "(x", "x.y", "=>", "a(", "x[", "if)", "begin\n", "\nbegin", "x ", " x", "9", "a\tb"]
    def describe(k, v):
        if k == "raise": return "raises %s" % v.cls
        if not isinstance(v, dict): return "returns %r" % (v,)
        return "%s(%r, ignore_case=%r%s)" % (v.get(".kind"), v.get(".to_match"), v.get(".ignore_case"), ", compiled" if v.get(".compiled") else "")
    for ic in (False, True):
        for ak in (False, True):
            self_, mm = new_visitor(ic, ak)
            for lit in KW + NOKW:
                node = {".kind": "node", ".position": 3, ".value": "'%s'" % lit}
                k, v = visit(vs, self_, node, ["'%s'" % lit])
                want_kw = ak and lit in KW
                if want_kw: ok = k == "ret" and isinstance(v, dict) and v.get(".kind") == "RegExMatch" and v.get(".to_match") in (lit + "\\b", re.escape(lit) + "\\b") and v.get(".compiled") and v.get(".str_repr") == lit
                else: ok = k == "ret" and isinstance(v, dict) and v.get(".kind") == "StrMatch" and v.get(".to_match") == lit
                rep(("C21",), "C21.a", W, "autokwd %s, ignore_case %s, literal %r" % ("on" if ak else "off", "on" if ic else "off", lit), ok,
                    "with autokwd %s the literal %r becomes %s; documented: %s" % ("on" if ak else "off", lit, describe(k, v), ("a compiled RegExMatch of %r printed as %r (a keyword matches only up to a word boundary)" % (lit + "\\b", lit)) if want_kw else ("a StrMatch of %r (%s)" % (lit, "autokwd is off" if not ak else "only a literal that is an identifier as a whole is a keyword"))), witness="grammar literal '%s' with autokwd=%s" % (lit, ak))
                if k == "raise" and not v.cls.startswith("TextX"):
                    rep(("C23",), "C23.b", W, "literal %r (autokwd %s)" % (lit, "on" if ak else "off"), False, "compiling the grammar literal %r raises a bare %s (%s): a grammar must be compiled or rejected with a TextX error" % (lit, v.cls, v.msg), witness="grammar literal '%s' with autokwd=%s" % (lit, ak))
                okc = k == "ret" and isinstance(v, dict) and v.get(".ignore_case") == ic
                rep(("C20",), "C20.d", W, "ignore_case %s reaches the match built for %r (autokwd %s)" % (ic, lit, "on" if ak else "off"), okc, "with ignore_case=%s the match object built for the literal %r has ignore_case=%r" % (ic, lit, v.get(".ignore_case") if isinstance(v, dict) else None))
    # escapes are decoded first
    self_, mm = new_visitor(False, True)
    for spelled, text, kw in (("caf\\xe9", "café", True), ("a\\tb", "a\tb", False), ("it\\'s", "it's", False), ("\\\\", "\\", False), ("\\u00e9t\\u00e9", "été", True), ("\u2192\\t", "\u2192\t", False), ("caf\u00e9\\x41", "caf\u00e9A", True), ("\u00fc\\\\", "\u00fc\\", False)):
        k, v = visit(vs, self_, {".kind": "node", ".position": 3}, ["'%s'" % spelled])
        ok = k == "ret" and isinstance(v, dict) and ((v.get(".kind") == "RegExMatch" and v.get(".to_match") in (text + "\\b", re.escape(text) + "\\b") and v.get(".str_repr") == text) if kw else (v.get(".kind") == "StrMatch" and v.get(".to_match") == text))
        rep(("C21", "C01"), "C21.d", W, "literal spelled %s" % spelled, ok, "the grammar literal spelled '%s' denotes the text %r; with autokwd on it becomes %s; documented: %s of the decoded text (escapes are decoded before the keyword classification)" % (spelled, text, describe(k, v), "a keyword RegExMatch" if kw else "a StrMatch"), witness="'%s'" % spelled)
    for spelled in ("\\N{NO SUCH CHARACTER NAME}", "\\x4", "\\u12"):
        k, v = visit(vs, self_, {".kind": "node", ".position": 3}, ["'%s'" % spelled])
        ok = (k == "raise" and v.cls.startswith("TextX")) or (k == "ret" and isinstance(v, dict) and v.get(".kind") in ("StrMatch", "RegExMatch"))
        rep(("C23",), "C23.b", W, "literal with the broken escape %s" % spelled, ok, "a grammar literal with the broken escape '%s' %s: a malformed grammar must end in a TextX error (or be accepted), never in a bare Python exception" % (spelled, describe(k, v)), witness="'%s'" % spelled)
    # ---- visit_re_match
    W2 = "TextXVisitor.visit_re_match"
    for ic in (False, True):
        self_, mm = new_visitor(ic, False)
        for pat, valid in (("\\d+", True), ("[a-z]+\\b", True), ("(unclosed", False), ("*", False), ("[z-a]", False)):
            m_ = re.match(r"/(.*)/", "/%s/" % pat)
            node = {".kind": "node", ".position": 5, ".extra_info": m_, ".value": "/%s/" % pat}
            k, v = visit(vr, self_, node, ["/%s/" % pat])
            if valid:
                ok = k == "ret" and isinstance(v, dict) and v.get(".kind") == "RegExMatch" and v.get(".to_match") == pat and v.get(".compiled") and v.get(".ignore_case") == ic
                fl = v.get(".re_flags") if isinstance(v, dict) else None
                okm = not (k == "ret" and isinstance(v, dict) and v.get(".kind") == "RegExMatch") or ((fl is None or (isinstance(fl, int) and bool(fl & re.MULTILINE))) and v.get(".multiline") in (None, True))
                rep(("C22", "C01"), "C22.m", W2, "regex /%s/ with ignore_case %s keeps multi-line matching" % (pat, ic), okm, "the grammar regex /%s/ under ignore_case=%s is built with re_flags=%r multiline=%r; documented: Arpeggio's default flags (re.MULTILINE: ^ and $ match at line ends - a Comment rule /\\/\\/.*?$/ depends on it), whatever ignore_case is" % (pat, ic, fl, v.get(".multiline") if isinstance(v, dict) else None), witness="Comment: /\\/\\/.*?$/; with ignore_case=True and a comment that is not on the last line")
                rep(("C20", "C01"), "C20.d", W2, "regex /%s/ with ignore_case %s" % (pat, ic), ok, "the grammar regex /%s/ under ignore_case=%s becomes %s; documented: a compiled RegExMatch of exactly that pattern with the meta-model's ignore_case" % (pat, ic, describe(k, v)))
                k2, v2 = visit(vr, self_, dict(node, **{".position": 40}), ["/%s/" % pat])
                rep(("C19", "C01", "C06"), "C19.e", W2, "two occurrences of /%s/ are two expressions" % pat, k2 == "ret" and isinstance(v2, dict) and v2 is not v, "the regex /%s/ written twice in a grammar %s; documented: each occurrence is its own RegExMatch (the suppression flag '-', the rule name and the memoization table belong to one occurrence)" % (pat, "gives the same RegExMatch object twice" if v2 is v else describe(k2, v2)), witness="A: x=/%s/ /%s/-;" % (pat, pat))
            else:
                ok = k == "raise" and v.cls == "TextXSyntaxError"
                rep(("C23",), "C23.b", W2, "invalid regex /%s/" % pat, ok, "the invalid grammar regex /%s/ %s; documented: a TextXSyntaxError located at the regex (never a bare re.error, never acceptance)" % (pat, describe(k, v)), witness="Rule: /%s/;" % pat)
    return inst, out
