"""C32 scope provider selection
   C32.a  the candidate keys, computed by evaluating the key-list expression (sa/pyeval.py) for a sample class 'Cls' and
          attribute 'attr', are [Cls.attr, *.attr, Cls.*, *.*] in this order; the registered providers are scanned in
          that order, the FIRST key that is registered decides (its provider is called and the scan ends whatever the
          provider returns), the default provider is used only if no key is registered, and a provider given in the
          grammar (RREL) is asked before the table
   C32.b  register_scope_providers replaces the table with the given one and converts every string value with
          create_rrel_scope_provider (the constructor the grammar path uses)"""
import ast
from sa.util import *
from sa import sem, pyeval
M = "textx/model.py"; MM = "textx/metamodel.py"
W = "ReferenceResolver.resolve_one_step"
def r_C32(root):
    out = []; inst = 0
    t = load(root, M); fn = find_i(root, M, W); fi = sem.info(fn)
    from sa.rules import resolver as RS
    _R = RS.roles(root); R_obj, R_attr, R_ref = _R.v_obj, _R.v_attr, _R.v_ref
    # ---- key list
    loop_scan = None; keyvar = None
    for n in own_nodes(fn):
        if isinstance(n, ast.For) and isinstance(n.iter, ast.Name) and any(isinstance(x, ast.Compare) and isinstance(x.ops[0], ast.In) and "scope_providers" in ast.unparse(x.comparators[0]) and isinstance(x.left, ast.Name) and x.left.id in {y.id for y in ast.walk(n.target) if isinstance(y, ast.Name)} for x in ast.walk(n)):
            if loop_scan is None or (n.end_lineno - n.lineno) < (loop_scan.end_lineno - loop_scan.lineno): loop_scan = n; keyvar = n.iter.id
    lst = None
    cand = [n for n in own_nodes(fn) if isinstance(n, ast.Assign) and isinstance(n.targets[0], ast.Name) and (n.targets[0].id == keyvar or (keyvar is None and n.targets[0].id == "attr_refs"))]
    if not cand: raise AnalysisError("candidate key list not found in resolve_one_step")
    lst = cand[0]; keyvar = lst.targets[0].id
    env = {"obj.__class__.__name__": "Cls", "type(obj).__name__": "Cls", "attr.name": "attr"}
    inst += 1
    try: got = pyeval.evaluate(fi.expand(lst.value, at=lst), env)
    except pyeval.Unsupported as e: raise AnalysisError("key list expression: %s" % e)
    want = ["Cls.attr", "*.attr", "Cls.*", "*.*"]
    ob("C32", "C32.a", M, W, "candidate keys for class Cls, attribute attr: %s" % got, got == want)
    if got != want:
        out.append(Finding("C32", "C32.a", M, W, " ".join(ast.unparse(lst).split())[:120], "the scope-provider keys are tried in the order %s; documented precedence: %s" % (got, want), witness="providers registered for both '*.attr' and 'Cls.*' (and none for 'Cls.attr')"))
    # ---- scan: decided by evaluating the selection fragment (from the key list to the last provider call of that block)
    #      for every subset of registered keys x {provider attached in the grammar or not} x {providers find something or not}
    inst += 1
    blk = None
    for n in ast.walk(fn):
        for fld in ("body", "orelse", "finalbody"):
            b = getattr(n, fld, None)
            if isinstance(b, list) and any(x is lst for x in b): blk = b
    if blk is None: raise AnalysisError("block of the key list not found")
    from sa.rules import gen as _gen
    def is_pcall(c): return _gen._is_provider_call(c) or [ast.unparse(a) for a in c.args] == [R_obj, R_attr, R_ref]
    i0 = next(i for i, x in enumerate(blk) if x is lst)
    last = max([i for i, x in enumerate(blk) if i >= i0 and any(is_pcall(c) for c in calls(x))], default=None)
    if last is None: raise AnalysisError("no provider call after the key list in resolve_one_step")
    frag = blk[i0:last + 1]
    import itertools
    bad = None; n_cfg = 0
    for attached in (False, True):
        for k in range(0, 5):
            for reg in itertools.combinations(want, k):
                for ret in ("result", None):
                    log = []
                    table = {key: pyeval.Callee("registered:" + key, log, ret) for key in reg}
                    att_ = pyeval.Callee("attached", log, ret) if attached else None
                    env = {"%s.__class__.__name__" % R_obj: "Cls", "type(%s).__name__" % R_obj: "Cls", "%s.name" % R_attr: "attr", R_obj: {".kind": "obj", ".__class__": {".__name__": "Cls"}}, R_attr: {".name": "attr"}, R_ref: {".kind": "ref", ".scope_provider": att_},
                           "metamodel": {".scope_providers": table, ".debug": False, ".builtins": {}},
                           "%s.scope_provider" % R_ref: att_,
                           "metamodel.scope_providers": table, "self.parser.metamodel.scope_providers": table, "default_scope": pyeval.Callee("default", log, ret),
                           "self.parser.debug": False, "self.debug": False, "metamodel.debug": False,
                           "__functions__": {f_.name: f_ for f_ in ast.walk(t) if isinstance(f_, ast.FunctionDef) and f_.name.startswith("_") and not f_.name.startswith("__")}}
                    # the default provider kept on the resolver (built once in __init__): an attribute of self called with the triple that is no method
                    meths_ = {f_.name for f_ in ast.walk(t) if isinstance(f_, ast.FunctionDef)}
                    for c_ in [c_ for st_ in frag for c_ in calls(st_)]:
                        if isinstance(c_.func, ast.Attribute) and isinstance(c_.func.value, ast.Name) and c_.func.value.id == "self" and c_.func.attr not in meths_ and [ast.unparse(a) for a in c_.args] == [R_obj, R_attr, R_ref]:
                            env.setdefault("self." + c_.func.attr, pyeval.Callee("default", log, ret))
                    for x_ in [x_ for st_ in frag for x_ in ast.walk(st_) if isinstance(x_, ast.Attribute) and isinstance(x_.value, ast.Name) and x_.value.id == "self" and "default" in x_.attr and x_.attr not in meths_]:
                        env.setdefault("self." + x_.attr, pyeval.Callee("default", log, ret))
                    # locals computed before the fragment (e.g. a hoisted class-name variable): bound from their single definition
                    assigned = {x.id for st_ in frag for x in ast.walk(st_) if isinstance(x, ast.Name) and isinstance(x.ctx, ast.Store)}
                    for x in [x for st_ in frag for x in ast.walk(st_) if isinstance(x, ast.Name) and isinstance(x.ctx, ast.Load)]:
                        if x.id in env or x.id in assigned: continue
                        v_ = fi.expand(ast.Name(id=x.id, ctx=ast.Load()), at=lst)
                        if isinstance(v_, ast.Name): continue
                        try: env[x.id] = pyeval.evaluate(v_, env)
                        except pyeval.Unsupported: pass
                    try: pyeval.run_block(frag, env)
                    except pyeval.Unsupported as e: raise AnalysisError("provider selection in resolve_one_step: outside the evaluated subset: %s" % e)
                    except pyeval.Raised as e: log.append("raise " + e.cls)
                    expect = ["attached"] if attached else (["registered:" + next(key for key in want if key in reg)] if reg else ["default"])
                    n_cfg += 1
                    if log != expect and bad is None: bad = (attached, reg, ret, log, expect)
    oks = bad is None
    ob("C32", "C32.a", M, W, "provider selection evaluated for %d configurations (registered key subsets x attached x provider result): grammar RREL first, then the first registered key in precedence order, default otherwise, exactly one provider asked" % n_cfg, oks)
    if bad:
        attached, reg, ret, log, expect = bad
        out.append(Finding("C32", "C32.a", M, W, "registered keys %s, provider in grammar: %s, providers %s" % (list(reg), attached, "find nothing" if ret is None else "find an object"), "the providers asked are %s, documented: %s (a provider given in the grammar first, else the first registered key of %s decides whatever it returns, else the default provider)" % (log, expect, want), witness="providers registered for %s" % list(reg)))
    # ---- C32.b by evaluation: register_scope_providers is interpreted on a sample table; afterwards the meta-model's table
    #      holds exactly the given keys, callables unchanged, every string replaced by the RREL provider made from it, and
    #      nothing of an earlier registration survives
    mm = load(root, MM); rg = find(mm, "TextXMetaModel.register_scope_providers"); inst += 2
    rps = [a_.arg for a_ in rg.args.args]
    prov = {".kind": "callable", ".tag": "given-provider"}
    given = {"A.x": prov, "*.y": "^pkg.items", "B.*": "+m:~imports.things", "*.*": prov}
    old_tab = {"Old.key": {".kind": "callable", ".tag": "old"}, "A.x": {".kind": "callable", ".tag": "old"}}
    self_ = {".kind": "metamodel", ".scope_providers": old_tab}
    env = {"__functions__": helper_functions(root, MM, "TextXMetaModel.register_scope_providers"), rps[0]: self_, rps[1]: dict(given),
           "create_rrel_scope_provider": pyeval.PyFn(lambda text, *a, **k: {".kind": "rrel-provider", ".text": text})}
    env["__functions__"] = {k_: v_ for k_, v_ in env["__functions__"].items() if k_ not in ("register_scope_providers", "create_rrel_scope_provider")}
    try: pyeval.run_block(rg.body, env); err_ = None
    except pyeval.Raised as r_: err_ = "raises " + r_.cls
    except pyeval.Unsupported as u_: raise AnalysisError("register_scope_providers: outside the evaluated subset: %s" % u_)
    tab = self_.get(".scope_providers")
    ok_repl = err_ is None and isinstance(tab, dict) and set(tab) == set(given) and tab.get("A.x") is prov
    ob("C32", "C32.b", MM, "TextXMetaModel.register_scope_providers", "the provider table is replaced by the given one", ok_repl)
    if not ok_repl:
        out.append(Finding("C32", "C32.b", MM, "TextXMetaModel.register_scope_providers", "self.scope_providers", "after registering the keys %s over an earlier table %s the meta-model's table has the keys %s%s: registration must replace the table (a more specific key from an earlier registration would keep winning)" % (sorted(given), sorted(old_tab), sorted(tab) if isinstance(tab, dict) else tab, "" if err_ is None else " (" + err_ + ")")))
    okb = err_ is None and isinstance(tab, dict) and all(isinstance(tab.get(k_), dict) and tab[k_].get(".kind") == "rrel-provider" and tab[k_].get(".text") == v_ for k_, v_ in given.items() if isinstance(v_, str)) and all(tab.get(k_) is v_ for k_, v_ in given.items() if not isinstance(v_, str))
    ob("C32", "C32.b", MM, "TextXMetaModel.register_scope_providers", "string values become RREL providers", okb)
    if not okb: out.append(Finding("C32", "C32.b", MM, "TextXMetaModel.register_scope_providers", "create_rrel_scope_provider", "string values of the provider table are not converted to RREL providers made from that string (or a callable is not kept as given)"))
    return inst, out

def r_C32c(root):
    """C32.c  a provider built from an RREL *string* (register_scope_providers) and one built from the parsed expression of a
       grammar reference are configured alike, decided by evaluation of create_rrel_scope_provider with recording stand-ins
       for parse() and the two provider classes: for every flag combination the string form and the pre-parsed form give
       the same provider class (the model-loading one iff +m), the same use_proxy, the parsed tree and the split string."""
    from sa import pyeval
    from sa.exprs import HS
    R = "textx/scoping/rrel.py"; out = []; inst = 0
    t = load(root, R); fn = find(t, "create_rrel_scope_provider")
    ps = [a.arg for a in fn.args.args]
    if len(ps) < 2: raise AnalysisError("create_rrel_scope_provider: parameters %s" % ps)
    fns = {k: v for k, v in helper_functions(root, R, "create_rrel_scope_provider").items() if k not in ("create_rrel_scope_provider", "parse", "find", "find_object_with_path", "__init__", "__call__")}
    def tree_for(text): return HS({".kind": "RRELExpression", ".text": text, ".importURI": text.startswith("+") and "m" in text.split(":")[0], ".use_proxy": text.startswith("+") and "p" in text.split(":")[0], ".seq": HS({".kind": "seq"}), ".flags": text.split(":")[0][1:] if text.startswith("+") else ""})
    def run(arg, split):
        made = []; parsed = []
        def parse_(txt): tr = tree_for(txt); parsed.append(tr); return tr
        def mk(kind):
            def ctor(rrel_tree=None, split_string=None, use_proxy=None, *a, **k): o = HS({".kind": kind, ".rrel_tree": rrel_tree, ".split_string": split_string, ".use_proxy": use_proxy, ".extra": (a, k)}); made.append(o); return o
            return pyeval.PyFn(ctor)
        env = {"__functions__": fns, "__module__": t, ps[0]: arg, ps[1]: split, "parse": pyeval.PyFn(parse_), "RREL": mk("RREL"), "RRELImportURI": mk("RRELImportURI"), "ImportURI": pyeval.PyFn(lambda *a, **k: None),
               "__classes__": {"str": lambda v: isinstance(v, str), "RRELExpression": lambda v: isinstance(v, dict) and v.get(".kind") == "RRELExpression"}}
        if fn.args.kwarg: env[fn.args.kwarg.arg] = {}
        try: res = pyeval.run_block(fn.body, env, max_steps=4000)
        except pyeval.Raised as r_: return ("raise", r_.cls), parsed
        except pyeval.Unsupported as u_: raise AnalysisError("create_rrel_scope_provider: outside the evaluated subset: %s" % u_)
        return res, parsed
    for text in ("a.b", "+m:a.b", "+p:a*", "+mp:^a", "+pm:a"):
        for split in (None, "::"):
            inst += 1
            want_kind = "RRELImportURI" if "m" in (text.split(":")[0] if text.startswith("+") else "") else "RREL"; want_proxy = "p" in (text.split(":")[0] if text.startswith("+") else "")
            rs, parsed_s = run(text, split); pre = tree_for(text); rt, parsed_t = run(pre, split)
            def good(r, tree): return isinstance(r, dict) and r.get(".kind") == want_kind and r.get(".use_proxy") is want_proxy and r.get(".rrel_tree") is tree and r.get(".split_string") == split
            oks = len(parsed_s) == 1 and good(rs, parsed_s[0]); okt = not parsed_t and good(rt, pre)
            def show(r): return "%s(use_proxy=%r%s)" % (r.get(".kind"), r.get(".use_proxy"), "" if isinstance(r.get(".rrel_tree"), dict) and r[".rrel_tree"].get(".kind") == "RRELExpression" else ", tree=%r" % (r.get(".rrel_tree"),)) if isinstance(r, dict) else repr(r)
            for pr in ("C32", "C11"): ob(pr, "C32.c", R, "create_rrel_scope_provider", "%s as a string and as a parsed expression, split %r" % (text, split), oks and okt)
            if not (oks and okt):
                for pr in ("C32", "C11"): out.append(Finding(pr, "C32.c", R, "create_rrel_scope_provider", "%s (split %r)" % (text, split), "the expression  %s  registered as a string gives %s, given as a parsed expression it gives %s; documented: both give %s(use_proxy=%r) on the parsed expression with the caller's split string (a provider registered as a string must behave like the same expression written in the grammar)" % (text, show(rs), show(rt), want_kind, want_proxy), witness="register_scope_providers({'R.a': %r})" % text))
    return inst, out

def r_C32de(root):
    """C32.d  every ObjCrossRef is built with the scope provider, match rule name and target class of one and the same
              attribute description: scope_provider=<A>.scope_provider, match_rule_name=<A>.match_rule_name, cls=<A>.cls,
              unconditionally (a registered RREL string needs the match rule name just as a grammar RREL does).
       C32.e  visit_assignment records the reference's RREL provider and match rule on the attribute whenever the right-hand
              side is an object reference: the two stores depend on nothing else (in particular not on the attribute
              already being a reference: a later assignment may carry the RREL)."""
    L = "textx/lang.py"; out = []; inst = 0
    # C32.d (fields of a queued reference) is decided by evaluation: C32.f (sa/rules/cpn.py)
    va = find_i(root, L, "TextXVisitor.visit_assignment"); fia = sem.info(va)
    stores = [n for n in own_nodes(va) if isinstance(n, ast.Assign) and any(isinstance(tg, ast.Attribute) and tg.attr in ("scope_provider", "match_rule_name") for tg in n.targets)]
    if len(stores) < 2: raise AnalysisError("visit_assignment: stores of scope_provider / match_rule_name on the attribute not found")
    for st in stores:
        inst += 1
        extra = [(a, pol) for a, pol in fia.atoms_at(st) if "obj_ref" not in a and "isinstance(rhs_rule" not in a.replace(" ", "") and not a.replace(" ", "").startswith("isinstance(")]
        ob("C32", "C32.e", L, "TextXVisitor.visit_assignment", " ".join(ast.unparse(st).split())[:70], not extra)
        if extra: out.append(Finding("C32", "C32.e", L, "TextXVisitor.visit_assignment", " ".join(ast.unparse(st).split())[:70] + " under " + ("" if extra[0][1] else "not ") + extra[0][0][:50], "the RREL written at a reference is recorded on the attribute only under an extra condition: a later assignment to the same attribute that carries an RREL is resolved by a registered or the default provider instead", witness="'use' target=[Item] | 'pick' target=[Item|FQN|groups.items]"))
    return inst, out
