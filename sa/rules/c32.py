"""C32 scope provider selection
   C32.a  the candidate keys, computed by evaluating the key-list expression (sa/pyeval.py) for a sample class 'Cls' and
          attribute 'attr', are [Cls.attr, *.attr, Cls.*, *.*] in this order; the registered providers are scanned in
          that order, the FIRST key that is registered decides (its provider is called and the scan ends whatever the
          provider returns), the default provider is used only if no key is registered, and a provider given in the
          grammar (RREL) is asked before the table
   C32.b  register_scope_providers replaces the table with the given one and converts every string value with
          create_rrel_scope_provider (the constructor the grammar path uses)"""
import ast
from sa.util import *
from sa import sem, pyeval
M = "textx/model.py"; MM = "textx/metamodel.py"
W = "ReferenceResolver.resolve_one_step"
def r_C32(root):
    out = []; inst = 0
    t = load(root, M); fn = find_i(root, M, W); fi = sem.info(fn)
    from sa.rules import resolver as RS
    _R = RS.roles(root); R_obj, R_attr, R_ref = _R.v_obj, _R.v_attr, _R.v_ref
    # ---- key list
    loop_scan = None; keyvar = None
    for n in own_nodes(fn):
        if isinstance(n, ast.For) and isinstance(n.iter, ast.Name) and any(isinstance(x, ast.Compare) and isinstance(x.ops[0], ast.In) and "scope_providers" in ast.unparse(x.comparators[0]) and isinstance(x.left, ast.Name) and x.left.id in {y.id for y in ast.walk(n.target) if isinstance(y, ast.Name)} for x in ast.walk(n)):
            if loop_scan is None or (n.end_lineno - n.lineno) < (loop_scan.end_lineno - loop_scan.lineno): loop_scan = n; keyvar = n.iter.id
    lst = None
    cand = [n for n in own_nodes(fn) if isinstance(n, ast.Assign) and isinstance(n.targets[0], ast.Name) and (n.targets[0].id == keyvar or (keyvar is None and n.targets[0].id == "attr_refs"))]
    if not cand: raise AnalysisError("candidate key list not found in resolve_one_step")
    lst = cand[0]; keyvar = lst.targets[0].id
    env = {"obj.__class__.__name__": "Cls", "type(obj).__name__": "Cls", "attr.name": "attr"}
    inst += 1
    try: got = pyeval.evaluate(fi.expand(lst.value, at=lst), env)
    except pyeval.Unsupported as e: raise AnalysisError("key list expression: %s" % e)
    want = ["Cls.attr", "*.attr", "Cls.*", "*.*"]
    ob("C32", "C32.a", M, W, "candidate keys for class Cls, attribute attr: %s" % got, got == want)
    if got != want:
        out.append(Finding("C32", "C32.a", M, W, " ".join(ast.unparse(lst).split())[:120], "the scope-provider keys are tried in the order %s; documented precedence: %s" % (got, want), witness="providers registered for both '*.attr' and 'Cls.*' (and none for 'Cls.attr')"))
    # ---- scan
    inst += 1
    if loop_scan is None:
        # a different shape: look for a loop that calls its loop variable as a provider and breaks on the result
        chained = None
        for n in own_nodes(fn):
            if isinstance(n, ast.For) and isinstance(n.target, ast.Name):
                called = [c for c in calls(n) if isinstance(c.func, ast.Name) and c.func.id == n.target.id]
                brk = [b for b in ast.walk(n) if isinstance(b, ast.Break)]
                if called and brk and any(any("resolved" in ast.unparse(g) or "result" in ast.unparse(g) for g, p in fi.guards(b)) for b in brk): chained = n
        if chained is not None:
            out.append(Finding("C32", "C32.a", M, W, " ".join(ast.unparse(chained).split())[:120], "the registered providers are chained: when the most specific provider finds nothing, the next less specific one is asked, so a reference that should be unknown resolves through a provider that the precedence rule excludes", witness="two registered keys matching one reference, a name only the less specific provider can find"))
            ob("C32", "C32.a", M, W, "first registered key decides", False)
        else: raise AnalysisError("scan loop over the candidate keys not found")
    else:
        oks = True
        brks = [b for b in ast.walk(loop_scan) if isinstance(b, ast.Break)]
        callp = [c for c in calls(loop_scan) if isinstance(c.func, ast.Subscript) and "scope_providers" in ast.unparse(c.func.value)]
        selected = None
        if brks and not callp:
            # idiom: the loop only *selects* the provider (P = table[key]; break), a default is bound before the loop (or in its else), the call follows
            sel = [a for a in ast.walk(loop_scan) if isinstance(a, ast.Assign) and isinstance(a.targets[0], ast.Name) and isinstance(a.value, ast.Subscript) and "scope_providers" in ast.unparse(a.value.value)]
            if sel:
                pv = sel[0].targets[0].id
                n_ = fi.node_of(loop_scan); dflt = [fi.cfg.nodes[d_].ast for d_ in fi.rd.defs_of(n_, pv)] if n_ is not None else []
                dflt_ok = any(isinstance(a, ast.Assign) and ("default" in ast.unparse(a.value)) for a in dflt) or any("default" in ast.unparse(s_) for s_ in loop_scan.orelse)
                called = [c for c in calls(fn, own=True) if isinstance(c.func, ast.Name) and c.func.id == pv and [ast.unparse(a) for a in c.args] == [R_obj, R_attr, R_ref]]
                if dflt_ok and called: selected = pv
        if selected is None and (not brks or not callp or not loop_scan.orelse):
            oks = False; out.append(Finding("C32", "C32.a", M, W, "for %s in %s" % (ast.unparse(loop_scan.target), keyvar), "the scan over the candidate keys is not 'first registered key decides, default provider otherwise'"))
        for b in brks:
            for g, pol in fi.guards(b):
                if not any(a is loop_scan for a in ancestors(g)): continue
                if "scope_providers" in ast.unparse(g): continue
                oks = False
                out.append(Finding("C32", "C32.a", M, W, "break under " + ast.unparse(g)[:80], "the scan ends only if %s: a less specific provider is asked after a more specific registered one" % ast.unparse(g)[:60], witness="two registered keys matching one reference"))
        if selected is None and loop_scan.orelse and not any(callee_name(c) in ("default_scope", "DefaultScopeProvider") or "default" in ast.unparse(c.func) for s in loop_scan.orelse for c in calls(s)):
            oks = False; out.append(Finding("C32", "C32.a", M, W, "for ... else", "without a registered key the default provider is not used"))
        gl = fi.guards(loop_scan.iter)
        if not any(ast.unparse(tst).replace(" ", "") == "crossref.scope_providerisnotNone" and pol is False for tst, pol in gl):
            oks = False; out.append(Finding("C32", "C32.a", M, W, "for %s in %s" % (ast.unparse(loop_scan.target), keyvar), "registered providers are not subordinate to the provider given in the grammar (RREL)"))
        ob("C32", "C32.a", M, W, "first registered key decides; default otherwise; grammar RREL first", oks)
    # ---- C32.b
    mm = load(root, MM); rg = find(mm, "TextXMetaModel.register_scope_providers"); inst += 2
    p0 = rg.args.args[1].arg
    repl = [n for n in own_nodes(rg) if isinstance(n, ast.Assign) and any(ast.unparse(tg) == "self.scope_providers" for tg in n.targets) and p0 in {x.id for x in ast.walk(n.value) if isinstance(x, ast.Name)}]
    ob("C32", "C32.b", MM, "TextXMetaModel.register_scope_providers", "the provider table is replaced by the given one", bool(repl))
    if not repl:
        out.append(Finding("C32", "C32.b", MM, "TextXMetaModel.register_scope_providers", "self.scope_providers", "registration merges into the existing table instead of replacing it: a more specific key from an earlier registration stays active and overrides the newly registered providers", witness="register {'User.ref': p1}, later register {'*.*': p2}"))
    conv = [c for c in calls(rg) if callee_name(c) == "create_rrel_scope_provider"]
    okb = bool(conv) and any("isinstance" in ast.unparse(g) and "str" in ast.unparse(g) for c in conv for g, p in sem.info(rg).guards(c))
    ob("C32", "C32.b", MM, "TextXMetaModel.register_scope_providers", "string values become RREL providers", okb)
    if not okb: out.append(Finding("C32", "C32.b", MM, "TextXMetaModel.register_scope_providers", "create_rrel_scope_provider", "string values of the provider table are not converted to RREL providers"))
    return inst, out
