"""rule prototypes, batch 7: A5-Origin — C28.a / C06.a ownership pairing of (parser, offset)"""
import ast, sys
from sa.util import *
PASS_THROUGH = {"get_model", "get_parser"}
BREAKERS = {"local_models", "all_models", "builtin_models", "_tx_loaded_models", "filename_to_model"}   # containers of *other* models
def root_of(e, fn, depth=0):
    """root variable an expression derives from, following local single assignments and loop targets"""
    while True:
        if isinstance(e, ast.Attribute) and e.attr in BREAKERS: return "other-model:" + e.attr
        if isinstance(e, ast.Attribute): e = e.value
        elif isinstance(e, ast.Call) and callee_name(e) in PASS_THROUGH and e.args: e = e.args[0]
        elif isinstance(e, ast.Subscript): e = e.value
        else: break
    if not isinstance(e, ast.Name): return None
    if depth > 6: return e.id
    # local definitions
    defs = [n for n in own_nodes(fn) if isinstance(n, ast.Assign) and any(isinstance(t, ast.Name) and t.id == e.id for t in n.targets)]
    if len(defs) == 1 and not isinstance(defs[0].value, (ast.Constant, ast.List, ast.Dict)):
        r = root_of(defs[0].value, fn, depth + 1)
        if r is not None and r != e.id: return r
    for lp in [n for n in own_nodes(fn) if isinstance(n, ast.For)]:
        names = [x.id for x in ast.walk(lp.target) if isinstance(x, ast.Name)]
        if e.id in names:
            r = root_of(lp.iter, fn, depth + 1)
            if r is not None: return ("elem", r, tuple(names)) if len(names) > 1 else r
    return e.id
def flat(r): return r[1] if isinstance(r, tuple) else r
def paired(r1, r2, fn, extra):
    if r1 is None or r2 is None: return False
    a, b = flat(r1), flat(r2)
    if a == b: return True
    return frozenset((a, b)) in extra
CONTRACT = {   # pairs guaranteed by a function's contract (confirmed by reading)
    "parse_tree_to_objgraph": {frozenset(("parser", "parse_tree")), frozenset(("parser", "node")), frozenset(("parser", "nt"))},
    "process_node": {frozenset(("parser", "node"))}, "process_match": {frozenset(("parser", "nt"))},
    "resolve_one_step": {frozenset(("self", "current_crossrefs"))},
}
def eval_get_location(root, string_model=False):
    """(result of get_location on a sample object, log of pos_to_linecol calls) by evaluation"""
    from sa import pyeval
    log = []
    def p2lc(tag): return pyeval.PyFn(lambda pos: (log.append((tag, pos)), [100 + pos // 4, (pos * 7) % 13 + 1])[1])
    model = {".kind": "model", "._tx_parser": {".pos_to_linecol": p2lc("model-parser")}, "._tx_filename": "model.file", "._tx_position": 0, "._tx_position_end": 100}
    mid = {".kind": "obj", ".parent": model, "._tx_position": 3, "._tx_position_end": 40, "._tx_parser": {".pos_to_linecol": p2lc("foreign-parser")}, "._tx_filename": "other.file"}
    obj = {".kind": "obj", ".parent": mid, "._tx_position": 7, "._tx_position_end": 19}
    if string_model: model["._tx_filename"] = None; obj["._tx_filename"] = "stale.file"          # a model loaded from a string; the object carries an attribute of that name of its own
    t = load(root, "textx/model.py"); gl = find(t, "get_location")
    env = {"__functions__": {k: v for k, v in helper_functions(root, "textx/model.py", "get_location").items()}, gl.args.args[0].arg: obj}
    try: return pyeval.run_block(gl.body, env), log
    except pyeval.Raised as r_: return ("raises", r_.cls), log
    except pyeval.Unsupported as u_: raise AnalysisError("get_location: outside the evaluated subset: %s" % u_)
def r_origin(root):
    out = []; inst = 0; obligations = []
    for rel in ("textx/model.py", "textx/scoping/providers.py"):
        t = load(root, rel)
        # private helpers that are called from elsewhere in the module are analysed through their callers (inlined copies):
        # on their own the pairing of their parameters is the caller's business
        called = {callee_name(c) for c in calls(t)}
        todo = []
        for f0 in [n for n in ast.walk(t) if isinstance(n, ast.FunctionDef)]:
            if not any(callee_name(c) == "pos_to_linecol" for c in calls(f0, own=True)) and not any(callee_name(c) in called and (callee_name(c) or "").startswith("_") for c in calls(f0, own=True)): continue
            if f0.name.startswith("_") and not f0.name.startswith("__") and f0.name in called and len([d for d in ast.walk(t) if isinstance(d, ast.FunctionDef) and d.name == f0.name]) == 1: continue
            try: todo.append(find_i(root, rel, qualname(f0)))
            except AnalysisError: todo.append(f0)
        for c in [c for f1 in todo for c in calls(f1, own=True)]:
            if callee_name(c) != "pos_to_linecol": continue
            fn = enclosing_func(c); inst += 1
            fexpr = c.func
            if isinstance(fexpr, ast.Name) and fn is not None:
                from sa import sem as _sem
                fexpr = _sem.info(fn).expand(fexpr, at=c)
            if not isinstance(fexpr, ast.Attribute): raise AnalysisError("pos_to_linecol called through %s: receiver cannot be determined" % ast.unparse(c.func))
            recv = root_of(fexpr.value, fn); pos = root_of(c.args[0], fn)
            extra = set()
            f = fn
            while f is not None:
                extra |= CONTRACT.get(f.name, set()); f = enclosing_func(getattr(f, "_parent", None)) if getattr(f, "_parent", None) is not None else None
            params = {a.arg for a in fn.args.args}
            if flat(recv) in params and flat(pos) in params and flat(recv) != flat(pos) and fn.name == "__call__":
                obligations.append((rel, fn, [a.arg for a in fn.args.args].index(flat(recv)) - 1, [a.arg for a in fn.args.args].index(flat(pos)) - 1)); continue
            if not paired(recv, pos, fn, extra):
                out.append(Finding("C28", "C28.a", rel, qualname(c), " ".join(ast.unparse(stmt_of(c)).split())[:100], "offset of %r is converted with the parser of %r: line/column (and file) belong to different models" % (flat(pos), flat(recv)), witness="reference error located in an imported file"))
    # obligations at provider call sites
    P = "textx/scoping/providers.py"; tp = load(root, P)
    for rel, fn, i_recv, i_pos in obligations:
        for c in calls(tp):
            if ast.unparse(c.func) == "self.scope_provider" and len(c.args) == 3:
                cf = enclosing_func(c); inst += 1
                a0 = root_of(c.args[i_recv], cf); a2 = root_of(c.args[i_pos], cf)
                cparams = [a.arg for a in cf.args.args]
                ok = flat(a0) in cparams and flat(a2) in cparams       # forwarded unchanged: the obligation moves to the caller (the resolver pairs them)
                if not ok:
                    out.append(Finding("C28", "C28.a", P, qualname(c), ast.unparse(c), "provider that locates errors with the parser of its first argument is called with %r, which does not own the reference %r" % (flat(a0), flat(a2)), witness="duplicate names in an imported file"))
    # C06.a get_location, by evaluation (sa/pyeval.py) over a sample object two levels below its model
    loc, calls_ = eval_get_location(root)
    inst += 1
    okl = isinstance(loc, dict) and set(loc) == {"line", "col", "nchar", "filename"} and loc["filename"] == "model.file" and loc["line"] == 101 and loc["col"] == 11 and ("model-parser", 7) in calls_ and all(tag_ == "model-parser" for tag_, _p in calls_)
    ob("C06", "C06.a", "textx/model.py", "get_location", "location of a sample object: keys, owner model's file and parser, start offset", okl)
    if not okl: out.append(Finding("C06", "C06.a", "textx/model.py", "get_location", "get_location(<object at 7..19 inside model.file>)", "the location of a sample object is %s; documented: line/col of its start offset converted by the parser of the model that contains it, and that model's file name" % (loc,)))
    loc2, _c2 = eval_get_location(root, string_model=True)
    inst += 1
    oks = isinstance(loc2, dict) and "filename" in loc2 and loc2["filename"] is None and loc2.get("line") == 101
    ob("C06", "C06.a", "textx/model.py", "get_location", "a model loaded from a string has no file name", oks)
    if not oks: out.append(Finding("C06", "C06.a", "textx/model.py", "get_location", "get_location(<object of a model loaded from a string>)", "for an object of a model loaded from a string the location is %s; documented: filename None (the file of the model that contains the object, whatever the object itself carries), line/col as usual" % (loc2,)))
    inst += 1
    okn = isinstance(loc, dict) and loc.get("nchar") == 12
    ob("C06", "C06.a", "textx/model.py", "get_location", "nchar = end - start", okn)
    if not okn: out.append(Finding("C06", "C06.a", "textx/model.py", "get_location", "nchar = %r" % (loc.get("nchar") if isinstance(loc, dict) else loc), "nchar is not end - start of the object's span (sample object at 7..19)"))
    return inst, out
ALL = [r_origin]
if __name__ == "__main__":
    from sa import util
    for root in sys.argv[1:] or ["/repo"]:
        print("=====", root); util._cache.clear()
        for r in ALL:
            try:
                inst, fs = r(root); print("%-22s instances=%-3d findings=%d" % (r.__name__, inst, len(fs)))
                for f in fs: print("     ", f)
            except AnalysisError as e: print(r.__name__, "ANALYSIS-ERROR", e)
