"""C05.h  get_children / get_children_of_type decided by evaluation (sa/pyeval.py) on a sample object tree

      R { kids+=[A1{inner=C1} A2]  one=B1  ref=[A2] (a reference, not contained)  frozen+=(X1, X2) (a user class froze the
          list into a tuple)  opt=None  empty=[]  text='t' (a base-type value)  mixed*=['a value' 7 X3] }

   parents first:  R A1 C1 A2 B1 X1 X2 X3      children first:  C1 A1 A2 B1 X1 X2 X3 R      (containment order, attributes in
   declaration order, every object once, references and base-type values not followed, should_follow prunes a subtree,
   the selector only filters)"""
import ast
from sa.util import *
from sa import pyeval
from sa.exprs import HS
M = "textx/model.py"
def r_C05children(root):
    out = []; inst = 0
    t = load(root, M); gc = find(t, "get_children"); gt = find(t, "get_children_of_type")
    ct = load(root, "textx/const.py"); consts = {}
    for st in ct.body:
        if isinstance(st, ast.Assign) and isinstance(st.targets[0], ast.Name):
            try: consts[st.targets[0].id] = pyeval.evaluate(st.value, dict(consts))
            except (pyeval.Unsupported, pyeval.Raised): pass
    ONE, OPT, MANY, SOME = consts.get("MULT_ONE"), consts.get("MULT_OPTIONAL"), consts.get("MULT_ZEROORMORE"), consts.get("MULT_ONEORMORE")
    if None in (ONE, OPT, MANY, SOME): raise AnalysisError("const.py: multiplicity constants not found")
    def attr(name, mult, cont=True): return HS({".kind": "metaattr", ".name": name, ".mult": mult, ".cont": cont, ".ref": not cont})
    def mcls(name, attrs): return pyeval.ClassObj(name, {"__name__": name, "_tx_attrs": {a[".name"]: a for a in attrs}, "_tx_fqn": name})
    cR = mcls("R", [attr("kids", SOME), attr("one", ONE), attr("ref", ONE, cont=False), attr("frozen", MANY), attr("opt", OPT), attr("empty", MANY), attr("text", ONE), attr("mixed", MANY)])
    cA = mcls("A", [attr("inner", OPT)]); cB = mcls("B", []); cC = mcls("C", []); cX = mcls("X", [])
    def obj(c, tag, **kw): o = pyeval.InstObj(c); o.own.update(kw); o.own["tag"] = tag; return o
    C1 = obj(cC, "C1"); A1 = obj(cA, "A1", inner=C1); A2 = obj(cA, "A2", inner=None); B1 = obj(cB, "B1"); X1 = obj(cX, "X1"); X2 = obj(cX, "X2"); X3 = obj(cX, "X3")
    R = obj(cR, "R", kids=[A1, A2], one=B1, ref=A2, frozen=(X1, X2), opt=None, empty=[], text="t", mixed=["a value", 7, X3])          # mixed: a list typed by an abstract rule of base types and objects
    fns = {k: v for k, v in helper_functions(root, M, "get_children").items() if k not in ("get_children_of_type",)}
    fns["get_children"] = gc
    def run(fn, **args):
        ps = [a.arg for a in fn.args.args]
        env = dict(consts); env.update({"__functions__": fns, "__module__": t, "__maxdepth__": 40})
        for st_ in load(root, "textx/lang.py").body:          # constants of lang.py a rewritten walker may consult
            if isinstance(st_, ast.Assign) and len(st_.targets) == 1 and isinstance(st_.targets[0], ast.Name) and st_.targets[0].id in ("PRIMITIVE_PYTHON_TYPES",):
                try: env[st_.targets[0].id] = pyeval.evaluate(st_.value, {})
                except (pyeval.Unsupported, pyeval.Raised): pass
        dflt = dict(zip(ps[len(ps) - len(fn.args.defaults):], fn.args.defaults))
        for k_, d_ in dflt.items(): env[k_] = pyeval.evaluate(d_, dict(env))
        env.update(args)
        miss = [p for p in ps if p not in env]
        if miss: raise AnalysisError("%s: parameters %s not understood" % (fn.name, miss))
        try: return "ret", pyeval.run_block(fn.body, env, max_steps=5000)
        except pyeval.Raised as r_: return "raise", r_
        except pyeval.Unsupported as u_: raise AnalysisError("%s: outside the evaluated subset: %s" % (fn.name, u_))
    def tags(v): return [x.own.get("tag") if isinstance(x, pyeval.InstObj) else repr(x) for x in v] if isinstance(v, list) else v
    every = pyeval.PyFn(lambda o: True)
    CASES = [("every object, parents first", dict(selector=every, root=R), ["R", "A1", "C1", "A2", "B1", "X1", "X2", "X3"]),
             ("every object, children first", dict(selector=every, root=R, children_first=True), ["C1", "A1", "A2", "B1", "X1", "X2", "X3", "R"]),
             ("objects of class A", dict(selector=pyeval.PyFn(lambda o: o.cls is cA), root=R), ["A1", "A2"]),
             ("the selector rejects the root and A1", dict(selector=pyeval.PyFn(lambda o: o.own.get("tag") not in ("R", "A1")), root=R), ["C1", "A2", "B1", "X1", "X2", "X3"]),
             ("should_follow prunes A1 and its subtree", dict(selector=every, root=R, should_follow=pyeval.PyFn(lambda o: not (isinstance(o, pyeval.InstObj) and o.own.get("tag") == "A1"))), ["R", "A2", "B1", "X1", "X2", "X3"]),
             ("search below A1", dict(selector=every, root=A1), ["A1", "C1"]),
             ("a leaf", dict(selector=every, root=C1), ["C1"])]
    for what, args, want in CASES:
        inst += 1
        k, v = run(gc, **args)
        okc = k == "ret" and tags(v) == want
        ob("C05", "C05.h", M, "get_children", what, okc)
        if not okc: out.append(Finding("C05", "C05.h", M, "get_children", what, "get_children (%s) on the sample tree %s; documented %s (containment order, every contained object once - also the elements a user class keeps in a tuple -, references and base-type values not followed)" % (what, "gives %s" % tags(v) if k == "ret" else "raises %s" % v.cls, want)))
    for what, args, want in (("by class name", dict(typ="A", root=R), ["A1", "A2"]), ("by class", dict(typ=cX, root=R), ["X1", "X2", "X3"]), ("children first", dict(typ="C", root=R, children_first=True), ["C1"]), ("a class without objects", dict(typ="Nope", root=R), [])):
        inst += 1
        k, v = run(gt, **args)
        okc = k == "ret" and tags(v) == want
        ob("C05", "C05.h", M, "get_children_of_type", what, okc)
        if not okc: out.append(Finding("C05", "C05.h", M, "get_children_of_type", what, "get_children_of_type (%s) on the sample tree %s; documented %s" % (what, "gives %s" % tags(v) if k == "ret" else "raises %s" % v.cls, want)))
    return inst, out
