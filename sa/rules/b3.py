"""rule prototypes, batch 3: C09 C13 C07 C11 C05/C10 C02.c/d C16.a C08.a C34 C28.b C33.b C30.b/c C03.d/e C17.b/c"""
import ast, sys
from sa.util import *
from sa import atoms, sem
M = "textx/model.py"
from sa.rules import resolver as RS
def _resolver_loop(root):
    R = RS.roles(root)
    return R.fn, R.loop
def _effects(row, R=None):
    return RS.effects(row, R)
def r_C09(root):
    R = RS.roles(root); fn, loop = R.fn, R.loop; out = []
    W = "ReferenceResolver.resolve_one_step"
    names, rows = atoms.table(loop.body)
    inst = 0
    sigs = set()
    if R.requeue is None: out.append(Finding("C09", "C09.a", M, W, "self.parser._crossrefs = ...", "pending list is not replaced by the re-queued references"))
    if R.count is None: raise AnalysisError("resolve_one_step does not return (count, delayed)")
    for r in rows:
        e = RS.effects(r, R); kind = r.exit_kind
        sig = (kind if kind == "raise" else "", e["requeue"], e["count"], e["store"], e["delayed"])
        if sig in sigs: continue
        sigs.add(sig); inst += 1
        n_out = (1 if kind == "raise" else 0) + (1 if e["requeue"] else 0) + (1 if e["count"] or e["store"] else 0)
        bad = None
        if n_out != 1: bad = "cross-reference is %s" % ("lost (neither re-queued, stored nor failing)" if n_out == 0 else "handled twice (re-queued and stored/counted)")
        elif (e["count"] > 0) != (e["store"] > 0): bad = "count and store disagree"
        elif e["delayed"] and not e["requeue"]: bad = "delayed but not re-queued"
        ob("C09", "C09.a", M, W, "path class %s" % (sig,), bad is None)
        if bad: out.append(Finding("C09", "C09.a", M, W, "path " + str(sorted(k for k, v in r.val.items() if v))[:200], bad))
    # b: driver loop, by evaluation (sa/pyeval.py): the rounds loop of parse_tree_to_objgraph (with the assignments right before it) is
    #    interpreted with scripted resolvers (what each model's resolve_one_step reports in each round); documented: a round is run,
    #    and another one follows iff references are left AND the last round resolved something (every round counts afresh)
    from sa import pyeval as _pe
    drv, wl, rc, uc, ml = RS.driver(root)
    blk_ = block_of(wl); i_ = [k for k, x in enumerate(blk_) if x is wl][0]
    pre_ = []
    for st_ in reversed(blk_[:i_]):
        if isinstance(st_, ast.Assign) and all(isinstance(t_, ast.Name) for t_ in st_.targets) and isinstance(st_.value, (ast.Constant, ast.Name, ast.UnaryOp)): pre_.insert(0, st_)
        else: break
    iters_ = {n.iter.id for n in ast.walk(wl) if isinstance(n, ast.For) and isinstance(n.iter, ast.Name)}
    if not iters_: raise AnalysisError("rounds loop: loop over the models not found")
    after_ = next_stmt(wl)
    SCRIPTS = [("everything resolves in the first round", [[(2, 0), (1, 0)]], 1, False),
               ("one reference needs a second round", [[(1, 1), (0, 0)], [(1, 0), (0, 0)]], 2, False),
               ("nothing can be resolved", [[(0, 1), (0, 0)]], 1, True),
               ("progress in the first round, none in the second", [[(1, 1), (1, 0)], [(0, 1), (0, 0)]], 2, True),
               ("the models unblock each other over three rounds", [[(1, 1), (0, 1)], [(0, 1), (1, 0)], [(1, 0), (0, 0)]], 3, False),
               ("a lot resolved early, a cycle left", [[(5, 2), (3, 0)], [(0, 2), (0, 0)]], 2, True)]
    for what, script, want_rounds, want_left in SCRIPTS:
        inst += 1
        calls_ = []
        def mkres(mi):
            def step():
                rnd = sum(1 for x in calls_ if x == mi); calls_.append(mi)
                cnt, nd = script[rnd][mi] if rnd < len(script) else (0, script[-1][mi][1])
                return (cnt, [("obj", "attr", {".kind": "crossref"})] * nd)
            return {".resolve_one_step": _pe.PyFn(step), ".delayed_crossrefs": [], ".parser": {".pos_to_linecol": _pe.PyFn(lambda p_: (1, p_))}, ".kind": "resolver"}
        models_ = [{".kind": "model", "._tx_reference_resolver": mkres(0), "._tx_filename": "a"}, {".kind": "model", "._tx_reference_resolver": mkres(1), "._tx_filename": "b"}]
        env = {"__module__": load(root, M), "parser": {".debug": False, ".dprint": _pe.PyFn(lambda *a: None)}, "metamodel": {".debug": False}, "model": models_[0]}
        for nm in iters_: env[nm] = models_
        try: _pe.run_block(pre_ + [wl], env, max_steps=1500); outcome = None
        except _pe.Raised as r_: outcome = "raises %s" % r_.cls
        except _pe.Unsupported as u_:
            if "too many steps" in str(u_): outcome = "does not terminate"
            else: raise AnalysisError("rounds loop: outside the evaluated subset: %s" % u_)
        rounds = calls_.count(0)
        left = None
        if outcome is None and isinstance(after_, ast.If):
            try: left = bool(_pe.evaluate(after_.test, env))
            except (_pe.Unsupported, _pe.Raised): left = None
        okb = outcome is None and rounds == want_rounds and calls_.count(1) == want_rounds and (left is None or left == want_left)
        ob("C09", "C09.b", M, "parse_tree_to_objgraph", "%s: %s round(s)" % (what, rounds if outcome is None else outcome), okb)
        if not okb:
            out.append(Finding("C09", "C09.b", M, "parse_tree_to_objgraph", what, "resolution rounds with scripted resolvers (%s): the loop %s; documented: %d round(s), then %s" % (what, outcome or "runs %d round(s) for the first and %d for the second model and %s" % (rounds, calls_.count(1), "reports unresolved references" if left else "reports none"), want_rounds, "the unresolved-reference error" if want_left else "success"), witness="two files that reference each other"))
    # c: the failure after a round without progress
    inst += 1
    after = next_stmt(wl)
    okc = isinstance(after, ast.If) and ast.unparse(after.test).replace(" ", "") == "%s>0" % uc and any(isinstance(b, ast.Raise) for b in ast.walk(after))
    ob("C09", "C09.c", M, "parse_tree_to_objgraph", "if %s > 0: ... raise" % uc, okc)
    if not okc:
        out.append(Finding("C09", "C09.c", M, "parse_tree_to_objgraph", ast.unparse(after)[:80] if after is not None else "", "no failure after a round without progress"))
    # (which lists the report iterates is decided by evaluation: C09.d, sa/rules/cmisc.py)
    return inst, out
def r_C08_C34(root):
    R = RS.roles(root); fn, loop = R.fn, R.loop; out = []; inst = 0
    names, rows = atoms.table(loop.body)
    defer = any(RS.effects(r, R)["requeue"] and r.exit_kind != "raise" and not RS.effects(r, R)["store"] for r in rows)
    stores = [c for c in calls(loop) if isinstance(c.func, ast.Attribute) and ast.unparse(c.func.value) == R.store_list and c.func.attr in ("append", "insert", "extend")]
    inst += len(stores)
    for c in stores:
        positional = c.func.attr == "insert" and _depends_on(c.args[0], R.v_ref, loop)
        if defer and not positional:
            out.append(Finding("C08", "C08.a", M, "ReferenceResolver.resolve_one_step", ast.unparse(c), "list reference stored in resolution order although references can be postponed", witness="refs+=[T]; first reference postponed once"))
    # C34.a / C34.e (which offsets a recorded reference carries) are decided by evaluation: C34.h, sa/rules/cres.py
    # C34.b (the published list is sorted) is decided by evaluation of the driver: C34.j (sa/rules/cdrv.py)
    # C34.c (innermost object wins for a shared span) and C34.d (order of the span map) are decided by evaluation: C34.i (sa/rules/cpn.py), C34.j (sa/rules/cdrv.py)
    return inst, out
def _depends_on(expr, rootname, region, depth=0):
    """does expr data-depend on variable rootname via local assignments in region (flow-insensitive, all defs)"""
    if depth > 5: return False
    names = {x.id for x in ast.walk(expr) if isinstance(x, ast.Name)}
    if rootname in names: return True
    for nm in names:
        defs = [n for n in ast.walk(region) if isinstance(n, ast.Assign) and any(isinstance(t, ast.Name) and t.id == nm for t in n.targets)]
        if defs and all(_depends_on(d.value, rootname, region, depth + 1) for d in defs): return True
    return False
def r_C13(root):
    t = load(root, M); out = []; inst = 0
    # the walker itself (order, replacement, containment) is decided by evaluation: sa/rules/c13.py
    # ordering in the driver
    drv = find(t, "parse_tree_to_objgraph"); inst += 1
    call = next((c for c in calls(drv, own=True) if callee_name(c) == "call_obj_processors"), None)
    endc = next((c for c in calls(drv, own=True) if callee_name(c) == "_end_model_construction"), None)
    wl = next((n for n in ast.walk(drv) if isinstance(n, ast.While)), None)
    if call is None or endc is None: out.append(Finding("C13", "C13.a", M, "parse_tree_to_objgraph", "call_obj_processors / _end_model_construction", "object processors or user-class initialisation missing from the load sequence"))
    else:
        lp_end = next(a for a in ancestors(endc) if isinstance(a, ast.For)); lp_call = next(a for a in ancestors(call) if isinstance(a, ast.For))
        same_block = lp_end._parent is lp_call._parent and wl._parent is lp_end._parent
        if not (same_block and wl.lineno < lp_end.lineno < lp_call.lineno and ast.unparse(lp_end.iter) == ast.unparse(lp_call.iter)):
            out.append(Finding("C13", "C13.a", M, "parse_tree_to_objgraph", ast.unparse(call), "object processors are not sequenced after resolution and after user-class initialisation of all models"))
    return inst, out
def r_C07(root):
    out = []; inst = 0
    # C07.a / C07.c (PlainName itself) are decided by evaluation: sa/rules/c07.py
    # b: builtins fallback
    fnr, loop = _resolver_loop(root); inst += 2
    fb = [s for s in ast.walk(loop) if isinstance(s, ast.Assign) and ast.unparse(s.targets[0]) == "resolved" and "builtins[" in ast.unparse(s.value)]
    if not fb: out.append(Finding("C07", "C07.b", M, "ReferenceResolver.resolve_one_step", "builtins fallback", "builtins fallback missing"))
    for s in fb:
        g = [ast.unparse(x).replace("\n", "") for x, pol in guards(s) if pol]
        if not (any("resolved is None" in x for x in g) and any("textx_isinstance" in x and "crossref.cls" in x for x in g)):
            out.append(Finding("C07", "C07.b", M, "ReferenceResolver.resolve_one_step", ast.unparse(s), "builtin used without the provider having failed / without type conformance test (guards %s)" % g))
    unk = [s for s in ast.walk(loop) if isinstance(s, ast.Raise) and "UNKNOWN_OBJ_ERROR" in ast.unparse(s)]
    if not unk or not any(ast.unparse(x) == "resolved is None" for x, pol in guards(unk[0]) if pol): out.append(Finding("C07", "C07.b", M, "ReferenceResolver.resolve_one_step", "raise ... UNKNOWN_OBJ_ERROR", "unresolved reference does not fail with an 'Unknown object' error"))
    return inst, out
def r_C05_C10(root):
    out = []; inst = 0
    t = load(root, M); fol = find_i(root, M, "get_children.follow")
    fi_f = sem.info(fol)
    recs_c = [c for c in calls(fol, own=True) if callee_name(c) == "follow"]
    if not recs_c: raise AnalysisError("get_children.follow: recursive descent not found")
    for c in recs_c:
        inst += 1
        at = [(a.replace(" ", ""), pol) for a, pol in fi_f.atoms_at(c)]
        okc = any(a.endswith(".cont") and pol for a, pol in at)
        oks = any("should_follow(" in a and pol for a, pol in at)
        ob("C05", "C05.a", M, "get_children.follow", "descent %s under containment test" % ast.unparse(c), okc)
        if not okc: out.append(Finding("C05", "C05.a", M, "get_children.follow", ast.unparse(c), "descent through an attribute that is not tested for containment"))
        if not oks: out.append(Finding("C05", "C05.b", M, "get_children.follow", ast.unparse(c), "should_follow is not honoured"))
    inst += 1
    # visited check: an early return for an element whose id is already in the visited set, before anything is collected
    vis = [n for n in own_nodes(fol) if isinstance(n, ast.If) and any(isinstance(b, ast.Return) for b in n.body) and any(isinstance(x, ast.Compare) and isinstance(x.ops[0], ast.In) and "id(" in ast.unparse(x.left) for x in ast.walk(n.test))]
    apps_c = [c for c in calls(fol, own=True) if callee_name(c) == "append" and isinstance(c.func, ast.Attribute)]
    if not apps_c: raise AnalysisError("get_children.follow: collection of elements not found")
    nid = lambda x: (fi_f.node_of(x).id if fi_f.node_of(x) is not None else -1)
    okv = bool(vis) and all(nid(vis[0].test) < nid(a) for a in apps_c)
    ob("C05", "C05.b", M, "get_children.follow", "visited check before collection", okv)
    if not okv: out.append(Finding("C05", "C05.b", M, "get_children.follow", "visited check", "objects can be collected more than once"))
    # children_first: the collection under `not children_first` precedes every descent, the one under `children_first` follows every descent
    inst += 1
    pre = [a for a in apps_c if any(x.replace(" ", "") == "children_first" and not pol for x, pol in fi_f.atoms_at(a))]
    post = [a for a in apps_c if any(x.replace(" ", "") == "children_first" and pol for x, pol in fi_f.atoms_at(a))]
    oko = bool(pre) and bool(post) and len(pre) + len(post) == len(apps_c) and all(nid(a) < min(nid(r) for r in recs_c) for a in pre) and all(nid(a) > max(nid(r) for r in recs_c) for a in post)
    ob("C05", "C05.b", M, "get_children.follow", "collection before the descent unless children_first, after it if children_first", oko)
    if not oko: out.append(Finding("C05", "C05.b", M, "get_children.follow", "children_first", "collection order does not follow children_first (pre-order collection before every descent, post-order after)"))
    # C10.a/b/c/f (the FQN search itself) are decided by evaluation: C10.h, sa/rules/c10e.py
    P = "textx/scoping/providers.py"
    # FQNImportURI: the redirection through the models loaded by an import statement exists only with importAs
    fqi_init = find(load(root, P), "FQNImportURI.__init__"); inst += 1
    fi_i = sem.info(fqi_init)
    uses = [n for n in ast.walk(fqi_init) if isinstance(n, ast.Name) and n.id == "follow_loaded_models_scope_redirection_logic"]
    if not uses: raise AnalysisError("FQNImportURI.__init__: loaded-models redirection not found")
    for u in uses:
        # the statement of __init__ itself (a nested def or an assignment) that introduces the redirection
        st_ = None
        for a in [u] + list(ancestors(u)):
            if a is fqi_init: break
            if isinstance(a, ast.stmt) and enclosing_func(getattr(a, "_parent", None)) is fqi_init: st_ = a; break
        if st_ is None: raise AnalysisError("FQNImportURI.__init__: statement that installs the redirection not found")
        okr_ = any(a.replace(" ", "") == "importAs" and pol for a, pol in fi_i.atoms_at(st_)) or any(ast.unparse(g_).replace(" ", "") == "importAs" and pol for g_, pol in guards(st_))
        ob("C10", "C10.g", P, "FQNImportURI.__init__", "loaded-models redirection only under importAs", okr_)
        if not okr_: out.append(Finding("C10", "C10.g", P, "FQNImportURI.__init__", " ".join(ast.unparse(st_).split())[:90], "the scope redirection through the models loaded by an import statement is installed although importAs is off: a name that starts with the import's name walks into the imported models through a non-containment link", witness="FQNImportURI() (importAs=False), a named import object L, reference L.p.A"))
    return inst, out
def r_C02cd(root):
    pn = find_i(root, M, "parse_tree_to_objgraph.process_node"); out = []; inst = 0
    plain = next((n for n in ast.walk(pn) if isinstance(n, ast.If) and ast.unparse(n.test) == "op == 'plain'"), None)
    if plain is None: raise AnalysisError("plain assignment branch not found")
    inst += 1
    chk = [s for s in plain.body if isinstance(s, ast.If) and any(isinstance(b, ast.Raise) and "MULT_ASSIGN_ERROR" in ast.unparse(b) for b in s.body)]
    conv = next((s for s in plain.body if isinstance(s, ast.Assign) and "process_node(node[0])" in ast.unparse(s)), None)
    ok = False
    if chk and conv is not None and chk[0].lineno < conv.lineno:
        names, rows = atoms.table([chk[0]], feasible=None)
        a_val = next((a for a in names if a == "attr_value"), None); a_list = next((a for a in names if a.startswith("isinstance(attr_value, list")), None)
        if a_val and a_list: ok = all((r.exit_kind == "raise") == bool(r.val.get(a_val) and r.val.get(a_list) is False) for r in rows)
    if not ok: out.append(Finding("C02", "C02.d", M, "process_node", ast.unparse(chk[0].test) if chk else "plain assignment", "a second value for a single-valued attribute is not rejected before it is stored"))
    lst = plain.orelse[0] if plain.orelse and isinstance(plain.orelse[0], ast.If) else None
    inst += 1
    if lst is None or "oneormore" not in ast.unparse(lst.test): raise AnalysisError("list assignment branch not found")
    loop = next((s for s in lst.body if isinstance(s, ast.For)), None)
    if loop is None: raise AnalysisError("list assignment branch: loop over the matched children not found")
    # path form: on every path through one iteration either the child is a separator, or the path ends in an error, or the
    # value is appended (to the attribute list or, for a reference, to the cross-reference work list); nothing is inserted
    lv = loop.target.id if isinstance(loop.target, ast.Name) else None
    names_, rows_ = atoms.table(loop.body, feasible=None)
    sep_atom = next((a for a in names_ if a.replace(" ", "").replace('"', "'") in ("%s.rule_name=='sep'" % lv,)), None)
    def _appends(row):
        return any(isinstance(c, ast.Call) and callee_name(c) == "append" for e in row.effects for c in ast.walk(e))
    bad_rows = [r for r in rows_ if r.exit_kind != "raise" and not (sep_atom and r.val.get(sep_atom) is True) and not _appends(r)]
    other_filter = [a for a in names_ if a != sep_atom and any(r.val.get(a) is not None and not _appends(r) and r.exit_kind != "raise" and not (sep_atom and r.val.get(sep_atom) is True) for r in rows_)]
    inserts = [c for c in calls(loop) if callee_name(c) == "insert"]
    okc_ = sep_atom is not None and not bad_rows and not inserts
    ob("C02", "C02.c", M, "process_node", "every non-separator child is appended (%d paths through one iteration)" % len(rows_), okc_)
    if not okc_:
        why_ = "no separator test on the child's rule name" if sep_atom is None else ("values are inserted, not appended" if inserts else "a path through the loop body neither appends the value nor is a separator (%s)" % ", ".join("%s=%s" % kv for kv in sorted(bad_rows[0].val.items()))[:160])
        out.append(Finding("C02", "C02.c", M, "process_node", sep_atom or "list loop", "list assignment does not append every non-separator match in input order: " + why_))
    # the loop visits every child of the assignment node: its iterable is the node itself (not a slice / filter of it)
    inst += 1
    fi_pn = sem.info(pn); it = fi_pn.expand(loop.iter, at=loop.iter)
    p_node = pn.args.args[0].arg
    ok_it = isinstance(it, ast.Name) and it.id == p_node
    ob("C02", "C02.c", M, "process_node", "list loop iterates over every child of the assignment node (%s)" % ast.unparse(it)[:50], ok_it)
    if not ok_it: out.append(Finding("C02", "C02.c", M, "process_node", "for %s in %s" % (ast.unparse(loop.target), " ".join(ast.unparse(loop.iter).split())[:70]), "the list assignment does not visit every child of the assignment node (it iterates %s): matched values are skipped when the children are not laid out as assumed (a separator that matched nothing leaves no node)" % ast.unparse(it)[:50], witness="items+=INT[/,?/] with input '1 2,3 4'"))
    return inst, out
def r_C16a(root):
    t = load(root, M); out = []; inst = 0
    init = find_i(root, M, "get_model_parser.TextXModelParser.__init__"); cl = find_i(root, M, "get_model_parser.TextXModelParser.clone")
    def containers(fn, recv):
        s = set()
        for n in own_nodes(fn):
            if not isinstance(n, ast.Assign): continue
            pairs = list(zip(n.targets[0].elts, n.value.elts)) if isinstance(n.targets[0], ast.Tuple) and isinstance(n.value, ast.Tuple) and len(n.targets[0].elts) == len(n.value.elts) else [(n.targets[0], n.value)]
            for tg, v in pairs:
                if isinstance(tg, ast.Attribute) and isinstance(tg.value, ast.Name) and tg.value.id == recv and isinstance(v, (ast.List, ast.Dict, ast.Set)): s.add(tg.attr)
        return s
    made = containers(init, "self")
    if not made: raise AnalysisError("TextXModelParser.__init__: per-parse containers not found")
    # by evaluation of clone() on a sample blueprint whose per-parse containers are in use: the clone gets fresh empty ones, everything else is shared
    from sa import pyeval as _pe
    from sa.exprs import HS as _HS
    per_parse = sorted(made | {"comments", "comment_positions"})
    blue = _HS({".kind": "parser", ".parser_model": _HS({".kind": "peg"}), ".metamodel": _HS({".kind": "metamodel"}), ".debug": False, ".file_name": "first.file", ".memoization": False})
    proto = {}
    for n_ in own_nodes(init):
        if isinstance(n_, ast.Assign):
            for tg_, v_ in (list(zip(n_.targets[0].elts, n_.value.elts)) if isinstance(n_.targets[0], ast.Tuple) and isinstance(n_.value, ast.Tuple) and len(n_.targets[0].elts) == len(n_.value.elts) else [(n_.targets[0], n_.value)]):
                if isinstance(tg_, ast.Attribute) and tg_.attr in made: proto[tg_.attr] = {ast.List: list, ast.Dict: dict, ast.Set: set}[type(v_)]
    proto.setdefault("comments", list); proto.setdefault("comment_positions", dict)
    for f in per_parse: blue["." + f] = {list: ["in use"], dict: {"in": "use"}, set: {"in use"}}[proto[f]]
    fns_ = {k_: v_ for k_, v_ in helper_functions(root, M, "get_model_parser.TextXModelParser.clone").items() if k_ != "clone"}
    def _shallow(o):
        c_ = _HS(o); return c_
    env_ = {"__functions__": fns_, "__module__": t, cl.args.args[0].arg: blue, "copy": {".copy": _pe.PyFn(_shallow), ".deepcopy": _pe.PyFn(lambda o: (_ for _ in ()).throw(_pe.Unsupported("deepcopy of a parser")))}}
    try: k_, cln = "ret", _pe.run_block(cl.body, env_)
    except _pe.Raised as r_: k_, cln = "raise", r_
    except _pe.Unsupported as u_: raise AnalysisError("TextXModelParser.clone: outside the evaluated subset: %s" % u_)
    for f in per_parse:
        inst += 1
        okf = k_ == "ret" and isinstance(cln, dict) and cln is not blue and ("." + f) in cln and cln["." + f] is not blue["." + f] and type(cln["." + f]) is proto[f] and len(cln["." + f]) == 0 and len(blue["." + f]) == 1
        ob("C16", "C16.a", M, "TextXModelParser.clone", "the clone gets a fresh empty %s" % f, okf)
        if not okf: out.append(Finding("C16", "C16.a", M, "TextXModelParser.clone", "the_clone.%s" % f, ("clone() raises %s" % cln.cls) if k_ == "raise" else "per-parse container %r is shared between the blueprint and its clones (or is not a fresh empty %s): loads made with one meta-model influence each other" % (f, proto[f].__name__)))
    inst += 1
    oks = k_ == "ret" and isinstance(cln, dict) and cln.get(".parser_model") is blue[".parser_model"] and cln.get(".metamodel") is blue[".metamodel"]
    ob("C16", "C16.a", M, "TextXModelParser.clone", "the clone shares the compiled grammar and the meta-model", oks)
    if not oks: out.append(Finding("C16", "C16.a", M, "TextXModelParser.clone", "the_clone.parser_model / metamodel", "the clone does not share the blueprint's compiled grammar and meta-model"))
    mm = load(root, "textx/metamodel.py")
    for c in calls(mm):
        if callee_name(c) in ("get_model_from_str", "get_model_from_file") and isinstance(c.func, ast.Attribute):
            inst += 1
            f_ = enclosing_func(c)
            recv = ast.unparse(sem.info(f_).expand(c.func.value, at=c)) if f_ is not None else ast.unparse(c.func.value)
            if not recv.endswith(".clone()"): out.append(Finding("C16", "C16.a", "textx/metamodel.py", qualname(c), ast.unparse(c)[:80], "model loaded with the shared parser blueprint instead of a clone"))
    return inst, out
def r_C28b_C33b_C30bc(root):
    out = []; inst = 0
    t = load(root, M)
    # C28.b: raise sites carry filename+line+col
    SITES = [("ReferenceResolver.resolve_one_step", "UNKNOWN_OBJ_ERROR"), ("parse_tree_to_objgraph", "Unresolvable cross references")]
    for q, marker in SITES:
        if marker == "Unresolvable cross references":
            rs = RS.unresolved_raises(root)[2]
        else:
            fn = find_i(root, M, q)
            rs = [r for r in own_nodes(fn) if isinstance(r, ast.Raise) and r.exc is not None and marker in ast.unparse(r)]
        if not rs: raise AnalysisError("raise site not found: %s %s" % (q, marker))
        for r in rs:
            inst += 1
            kws = {k.arg for k in r.exc.keywords} if isinstance(r.exc, ast.Call) else set()
            miss = {"line", "col", "filename"} - kws
            if miss: out.append(Finding("C28", "C28.b", M, q.split(".")[-1], " ".join(ast.unparse(r).split())[:90], "error raised without %s" % sorted(miss)))
    # C28.g  the syntax error of a failed parse, by evaluation of TextXModelParser._parse (exception classes interpreted too)
    from sa import pyeval as _pe0
    pf = find(t, "get_model_parser.TextXModelParser._parse"); xt = load(root, "textx/exceptions.py")
    xcds = {c.name: c for c in xt.body if isinstance(c, ast.ClassDef)}
    if "TextXSyntaxError" not in xcds: raise AnalysisError("exceptions.py: TextXSyntaxError not found")
    def _nomatch():
        e = {".kind": "NoMatch", ".__complete__": "all", ".rules": ["rule-a", "rule-b"], ".parser": {".kind": "parser", ".file_name": "input.file", ".__complete__": "all"}}
        def eval_attrs(): e.update({".message": "Expected 'x' at position ...", ".line": 7, ".col": 3, ".context": "ab*cd", ".position": 40})
        e[".eval_attrs"] = _pe0.PyFn(eval_attrs); return e
    def _failing(nm):
        def parse(*a, **k):
            r_ = _pe0.Raised("NoMatch"); r_.value = nm; raise r_
        return parse
    for what, raises in (("the input does not match", True), ("the input matches", False)):
        inst += 1; nm = _nomatch(); tree_ = {".kind": "parse tree"}
        self_ = {".kind": "parser", ".file_name": "other.file", ".parser_model": {".parse": _pe0.PyFn(_failing(nm) if raises else (lambda *a, **k: tree_))}}
        env = {"__classdefs__": xcds, "__functions__": {k_: v_ for k_, v_ in helper_functions(root, M, "get_model_parser.TextXModelParser._parse").items() if k_ not in ("_parse",)}, pf.args.args[0].arg: self_, "TextXSyntaxError": _pe0.ClassRef("TextXSyntaxError"),
               "TextXError": _pe0.ClassRef("TextXError"), "TextXSemanticError": _pe0.ClassRef("TextXSemanticError")}
        try: k_, v_ = "ret", _pe0.run_block(pf.body, env)
        except _pe0.Raised as r_: k_, v_ = "raise", r_
        except _pe0.Unsupported as u_: raise AnalysisError("_parse: outside the evaluated subset: %s" % u_)
        if raises:
            ev = v_.value if k_ == "raise" else None
            g = (lambda a: ev.get("." + a)) if isinstance(ev, dict) else (lambda a: None)
            okp = k_ == "raise" and v_.cls == "TextXSyntaxError" and (g("line"), g("col"), g("filename"), g("message"), g("context")) == (7, 3, "input.file", "Expected 'x' at position ...", "ab*cd") and g("expected_rules") == ["rule-a", "rule-b"]
            ob("C28", "C28.g", M, "TextXModelParser._parse", "a NoMatch becomes a TextXSyntaxError with its message, line, col, file, context and expected rules", okp)
            if not okp: out.append(Finding("C28", "C28.g", M, "TextXModelParser._parse", "NoMatch -> TextXSyntaxError", "a failed parse (NoMatch at line 7, col 3 of input.file) %s; documented: TextXSyntaxError with message, line 7, col 3, filename of the parser that reported it, context and expected rules of the NoMatch" % (("raises %s with line=%r col=%r filename=%r message=%r context=%r expected_rules=%r" % (v_.cls, g("line"), g("col"), g("filename"), g("message"), g("context"), g("expected_rules"))) if k_ == "raise" else "returns %r" % (v_,))))
        else:
            okp = k_ == "ret" and v_ is tree_
            ob("C28", "C28.g", M, "TextXModelParser._parse", "a successful parse returns the parse tree", okp)
            if not okp: out.append(Finding("C28", "C28.g", M, "TextXModelParser._parse", "successful parse", "a successful parse %s; documented: the parse tree" % ("raises " + v_.cls if k_ == "raise" else "returns something else")))
    # C28.i  how an error prints: located (gcc style) as soon as ANY of line / col / file name is known
    for cls_ in ("TextXError", "TextXSemanticError", "TextXSyntaxError"):
        if cls_ not in xcds: continue
        for line, col, fname, ctx, want in ((3, 4, "m.file", None, "m.file:3:4: boom"), (None, None, "m.file", None, "m.file:None:None: boom"), (3, None, None, None, "None:3:None: boom"), (None, 4, None, None, "None:None:4: boom"),
                                            (None, None, None, None, "boom"), (3, 4, "m.file", "ab*cd", "m.file:3:4: boom => 'ab*cd'")):
            inst += 1
            envx = {"__classdefs__": xcds, "__functions__": {}, "__module__": xt}
            kwx = {"line": line, "col": col, "filename": fname}
            if ctx is not None: kwx["context"] = ctx
            try:
                e_ = _pe0.instantiate(cls_, ["boom"], kwx, envx); got_ = _pe0.text_of(e_, envx)
            except _pe0.Raised as r_:
                got_ = "boom" if (r_.cls in ("Unsupported",)) else "raises " + r_.cls
            except _pe0.Unsupported as u_:
                if "super().__str__" in str(u_): got_ = "boom"        # the unlocated form delegates to Exception.__str__ (outside the interpreted classes): the message itself
                else: raise AnalysisError("%s.__str__: outside the evaluated subset: %s" % (cls_, u_))
            okx = got_ == want
            ob("C28", "C28.i", "textx/exceptions.py", cls_ + ".__str__", "str of an error with line=%r col=%r filename=%r%s" % (line, col, fname, " and context" if ctx else ""), okx)
            if not okx: out.append(Finding("C28", "C28.i", "textx/exceptions.py", cls_ + ".__str__", "line=%r col=%r filename=%r" % (line, col, fname), "%s('boom', line=%r, col=%r, filename=%r%s) prints as %r; documented %r (file:line:col: message as soon as any of the three is known - an error located only by its file must still say which file)" % (cls_, line, col, fname, ", context=%r" % ctx if ctx else "", got_, want)))
    pv = find(load(root, "textx/scoping/providers.py"), "PlainName.__call__")
    for r in [r for r in ast.walk(pv) if isinstance(r, ast.Raise) and "not unique" in ast.unparse(r)]:
        inst += 1
        kws = {k.arg for k in r.exc.keywords}
        if kws and {"line", "col", "filename"} - kws: out.append(Finding("C28", "C28.b", "textx/scoping/providers.py", "PlainName.__call__", " ".join(ast.unparse(r).split())[:90], "partial location on the non-unique error"))
    # C33.b  (the dispatch in call_obj_processors is decided by evaluation in sa/rules/c13.py)
    # textxerror_wrap by evaluation: the wrapper is interpreted with processors that return / raise
    from sa import pyeval as _pe
    tw = find(t, "textxerror_wrap.wrapper"); tw_outer = find(t, "textxerror_wrap")
    p_obj = tw.args.args[0].arg if tw.args.args else None
    p_proc = tw_outer.args.args[0].arg
    if p_obj is None: raise AnalysisError("textxerror_wrap.wrapper takes no object")
    LOC = {"line": 3, "col": 4, "nchar": 5, "filename": "obj.file"}
    def _mkerr(message=None, line=None, col=None, err_type=None, expected_obj_cls=None, filename=None, nchar=None, **kw):
        return {".kind": "error", ".message": message, ".line": line, ".col": col, ".filename": filename, ".nchar": nchar}
    def _run_wrapper(obj, proc):
        env = {"__functions__": {k_: v_ for k_, v_ in helper_functions(root, M, "textxerror_wrap.wrapper").items() if k_ not in ("get_location", "wrapper", "textxerror_wrap")}, p_obj: obj, p_proc: _pe.PyFn(proc),
               "get_location": _pe.PyFn(lambda o: dict(LOC)), "TextXError": _pe.PyFn(_mkerr), "__classes__": {"TextXError": lambda v: isinstance(v, dict) and str(v.get(".cls", "")).startswith("TextX"), "Exception": lambda v: True}}
        try: return ("ret", _pe.run_block(tw.body, env))
        except _pe.Raised as r_: return ("raise", r_)
        except _pe.Unsupported as u_: raise AnalysisError("textxerror_wrap.wrapper: outside the evaluated subset: %s" % u_)
    located = {".kind": "obj", "._tx_position": 7, "._tx_position_end": 12, "._tx_filename": "obj.file"}; bare_obj = {".kind": "obj"}
    def _raiser(cls):
        def f(o): raise _pe.Raised(cls)
        return f
    def rep33(ok, what, msg, props_=("C33",)):
        nonlocal inst
        inst += 1
        for pr in props_:
            ob(pr, "C33.b", M, "textxerror_wrap", what, ok)
            if not ok: out.append(Finding(pr, "C33.b", M, "textxerror_wrap", what, msg))
    k, v = _run_wrapper(located, lambda o: "replacement")
    inst += 1; okv_ = k == "ret" and v == "replacement"
    ob("C13", "C13.f", M, "textxerror_wrap", "the processor's return value is passed on", okv_)
    if not okv_: out.append(Finding("C13", "C13.f", M, "textxerror_wrap", "return value of the wrapped processor", "a wrapped processor returns 'replacement', the wrapper %s: the value a processor returns replaces the object in the model" % ("returns %r" % (v,) if k == "ret" else "raises %s" % v.cls)))
    k, v = _run_wrapper(located, _raiser("ValueError"))
    okw = k == "raise" and v.cls == "TextXError" and isinstance(v.value, dict) and {f_: v.value["." + f_] for f_ in LOC} == LOC
    rep33(okw, "a foreign exception becomes a TextXError located at the object", "a processor raising ValueError on an object that has a position: the wrapper %s; documented: a TextXError carrying line, col, nchar and filename of get_location(obj)" % ("raises %s with location %s" % (v.cls, {f_: v.value.get("." + f_) for f_ in LOC} if isinstance(v.value, dict) else "unknown") if k == "raise" else "returns"), props_=("C33", "C30"))
    k, v = _run_wrapper(bare_obj, _raiser("ValueError"))
    rep33(k == "raise" and v.cls == "TextXError", "a foreign exception on an object without position becomes a TextXError", "a processor raising ValueError on a value without position (match-rule value): the wrapper %s; documented: a TextXError (located later by the caller)" % ("raises %s" % v.cls if k == "raise" else "returns"))
    orig = _pe.Raised("TextXSemanticError"); orig.value = {".cls": "TextXSemanticError", ".message": "m", ".line": 1, ".col": 2, ".nchar": None, ".filename": "processor.file"}; before_ = dict(orig.value)
    def _raise_orig(o): raise orig
    k, v = _run_wrapper(located, _raise_orig)
    rep33(k == "raise" and v is orig and orig.value == before_, "a TextXError of the processor passes unchanged", "a processor raising TextXSemanticError: the wrapper %s; documented: the very same error is re-raised (its own location and type are kept)" % (("changes its location fields to %s" % {f_: orig.value.get("." + f_) for f_ in ("line", "col", "filename")} if v is orig else "raises another error (%s)" % v.cls) if k == "raise" else "returns"))
    # C30.b/c (validation before the generator call, exit status of the handlers) are decided by evaluation: C30.g / C30.d (sa/rules/c29.py)
    return inst, out
def r_C03de_C11a_C17bc(root):
    out = []; inst = 0
    t = load(root, M); ti = find(t, "textx_isinstance"); inst += 1
    lang = load(root, "textx/lang.py"); mm = load(root, "textx/metamodel.py")
    ch = {}
    for n in lang.body:
        if isinstance(n, ast.Assign) and isinstance(n.value, ast.Call) and getattr(n.value.func, "id", None) == "OrderedChoice": ch[n.targets[0].id] = [e.id for k in n.value.keywords if k.arg == "nodes" for e in k.value.elts]
    # C03.e by evaluation (sa/pyeval.py; nothing of textX runs): the statements of __init__ that create the base classes are
    # interpreted with a recording stand-in for _new_class, whatever their form (one statement each, a loop over a table, a dict)
    from sa import pyeval as _pe
    init = find(mm, "TextXMetaModel.__init__")
    sts = [st for st in init.body if any(isinstance(c, ast.Call) and callee_name(c) == "_new_class" for c in ast.walk(st))]
    if not sts: raise AnalysisError("TextXMetaModel.__init__: creation of the base classes (_new_class) not found")
    i0 = init.body.index(sts[0]); i1 = init.body.index(sts[-1])
    used_ = {n.id for st in sts for n in ast.walk(st) if isinstance(n, ast.Name) and isinstance(n.ctx, ast.Load)}
    block = [st for st in init.body[:i1 + 1] if st in sts or (isinstance(st, ast.Assign) and all(isinstance(t, ast.Name) and t.id in used_ for t in st.targets) and isinstance(st.value, (ast.Dict, ast.List, ast.Tuple, ast.Constant, ast.Name)))]
    made = []
    def _rec(name, peg_rule=None, position=None, position_end=None, inherits=None, root=False, rule_type=None, **kw):
        made.append((name, [x[".name"] if isinstance(x, dict) else x for x in (inherits or [])], rule_type)); return {".name": name, ".kind": "cls"}
    env = {"self._new_class": _pe.PyFn(_rec)}
    assigned = {t.id for st in block for t in ast.walk(st) if isinstance(t, ast.Name) and isinstance(t.ctx, ast.Store)}
    for st in block:
        for n in ast.walk(st):
            if isinstance(n, ast.Name) and isinstance(n.ctx, ast.Load) and n.id not in assigned and n.id != "self": env.setdefault(n.id, n.id)
    try: _pe.run_block(block, env)
    except _pe.Unsupported as u: raise AnalysisError("TextXMetaModel.__init__: base class creation outside the evaluated subset: %s" % u)
    except _pe.Raised as r_: raise AnalysisError("TextXMetaModel.__init__: base class creation raises %s under evaluation" % r_.cls)
    by = {nm: (inh, rt) for nm, inh, rt in made}
    for nm in ch:
        inst += 1
        if nm not in by: out.append(Finding("C03", "C03.e", "textx/metamodel.py", "TextXMetaModel.__init__", nm, "base type %s is an ordered choice in the grammar language but no class is created for it" % nm)); continue
        if by[nm][0] != ch[nm]: out.append(Finding("C03", "C03.e", "textx/metamodel.py", "TextXMetaModel.__init__", "_new_class(%r, ...)" % nm, "%s inherits %s but its ordered choice is %s" % (nm, by[nm][0], ch[nm])))
    inst += 1
    if "OBJECT" not in by or by["OBJECT"][0] != ["BASETYPE"] or by["OBJECT"][1] != "RULE_ABSTRACT":
        out.append(Finding("C03", "C03.e", "textx/metamodel.py", "TextXMetaModel.__init__", "_new_class('OBJECT', ...)", "OBJECT must be abstract over BASETYPE"))
    # C11.a
    R = "textx/scoping/rrel.py"; fo = find(load(root, R), "find_object_with_path"); inst += 1
    inner = next(n for n in ast.walk(fo) if isinstance(n, ast.For) and "get_next_matches" in ast.unparse(n.iter))
    names, rows = atoms.table(inner.body, feasible=None)
    a_post = next((a for a in names if "Postponed" in a), None); a_len = next((a for a in names if a.replace(" ", "") == "len(lookup_list_res)==0"), None)
    a_none = next((a for a in names if a == "obj_cls is None"), None); a_inst = next((a for a in names if a.startswith("textx_isinstance(obj_res")), None)
    if None in (a_post, a_len, a_none, a_inst): out.append(Finding("C11", "C11.a", R, "find_object_with_path", str(names), "acceptance conditions changed: need Postponed, all name parts consumed, and type conformance"))
    else:
        for r in rows:
            v = r.val.get
            want = "post" if v(a_post) else ("match" if v(a_len) and (v(a_none) or v(a_inst)) else "next")
            got = "post" if r.exit_kind == "return" and r.exit_text() == "return obj_res" else "match" if r.exit_kind == "return" and "matched_path" in r.exit_text() else "next"
            if want != got: out.append(Finding("C11", "C11.a", R, "find_object_with_path", r.exit_text() or "continue", "candidate %s but should be %s when %s" % (got, want, r.val))); break
    outer = inner._parent
    if not (isinstance(outer, ast.For) and ast.unparse(outer.iter) == "rrel_tree.paths"): out.append(Finding("C11", "C11.a", R, "find_object_with_path", ast.unparse(outer.iter) if isinstance(outer, ast.For) else "", "alternatives are not tried in the order they are written"))
    # C17.b/c
    S = "textx/scoping/__init__.py"; lm = find_i(root, S, "GlobalModelRepository.load_model"); inst += 1
    ld = next((c for c in calls(lm) if callee_name(c) == "internal_model_from_file"), None)
    pol = {a.replace(" ", ""): p for a, p in sem.info(lm).atoms_at(ld)} if ld else {}
    if not (ld and pol.get("self.all_models.has_model(filename)") is False): out.append(Finding("C17", "C17.b", S, "GlobalModelRepository.load_model", ast.unparse(stmt_of(ld))[:60] if ld else "", "file is loaded although it is already in the shared repository"))
    # C17.c (lookup order of ImportURI) is decided by evaluation: C17.n, sa/rules/c17e.py
    return inst, out
ALL = [r_C09, r_C08_C34, r_C13, r_C07, r_C05_C10, r_C02cd, r_C16a, r_C28b_C33b_C30bc, r_C03de_C11a_C17bc]
if __name__ == "__main__":
    from sa import util
    for root in sys.argv[1:] or ["/repo"]:
        print("=====", root); util._cache.clear()
        for r in ALL:
            try:
                inst, fs = r(root); print("%-22s instances=%-3d findings=%d" % (r.__name__, inst, len(fs)))
                for f in fs: print("     ", f)
            except AnalysisError as e: print(r.__name__, "ANALYSIS-ERROR", e)
