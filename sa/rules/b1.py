"""rule prototypes, batch 1: C03.a C33.a C30.a C12.a C32.a C20.a C27.a/b C14.c"""
import ast, sys
from sa.util import *
from sa import atoms, sem
KIND_RULE = ("_tx_type", "typ", "rule_type")
KIND_MULT = ("mult",)
def r_C03a(root):
    inst, out = 0, []
    for rel in ("textx/model.py", "textx/lang.py", "textx/metamodel.py", "textx/export.py", "textx/scoping/providers.py", "textx/scoping/rrel.py", "textx/scoping/__init__.py", "textx/scoping/tools.py"):
        t = load(root, rel)
        for n in ast.walk(t):
            if not isinstance(n, ast.Compare): continue
            operands = [n.left] + list(n.comparators)
            consts = set()
            for o in operands:
                for x in ast.walk(o):
                    if isinstance(x, ast.Name) and x.id.startswith(("RULE_", "MULT_")): consts.add(x.id.split("_")[0])
            if not consts: continue
            inst += 1
            want = KIND_RULE if "RULE" in consts else KIND_MULT
            for o in operands:
                if any(isinstance(x, ast.Name) and x.id.startswith(("RULE_", "MULT_")) for x in ast.walk(o)): continue
                ok = (isinstance(o, ast.Attribute) and o.attr in want) or (isinstance(o, ast.Name) and o.id in want + ("many",))
                if not ok:
                    out.append(Finding("C03", "C03.a", rel, qualname(n), ast.unparse(n), "operand %r is not of kind %s" % (ast.unparse(o), want[0])))
    return inst, out
def r_C33a(root):
    """C33.a by evaluation (sa/pyeval.py): the exception handler of TextXMetaModel.process is run on a sample TextXError for
    every subset of location fields already set by the processor: afterwards each field of get_location() holds the
    processor's value if it gave one, else the location of the object, and the error is re-raised; another exception is
    re-raised untouched."""
    from sa import pyeval
    import itertools
    fn = find_i(root, "textx/metamodel.py", "TextXMetaModel.process")
    from sa.rules.b7 import eval_get_location
    loc_, _log = eval_get_location(root)
    if not isinstance(loc_, dict): raise AnalysisError("get_location does not yield a dict under evaluation: %r" % (loc_,))
    keys = list(loc_)
    out = []; inst = 0
    tr = next((n for n in fn.body if isinstance(n, ast.Try)), None)
    if tr is None or not tr.handlers: raise AnalysisError("TextXMetaModel.process: try/except around the processor call not found")
    h = tr.handlers[0]; en = h.name
    if en is None: raise AnalysisError("TextXMetaModel.process: the handler does not bind the exception")
    params = [a.arg for a in fn.args.args]
    given = {"filename": "obj.file", "line": 11, "col": 22, "nchar": 33}
    if not set(keys) <= set(given) or not set(keys) <= set(params): raise AnalysisError("process(): location parameters %s do not cover get_location() keys %s" % (params, keys))
    bad = None
    for r in range(len(keys) + 1):
        for preset in itertools.combinations(keys, r):
            err = {".__textx__": True}
            for k in keys: err["." + k] = ("proc-" + k) if k in preset else None
            env = {en: err, "__classes__": {"TextXError": lambda v: isinstance(v, dict) and bool(v.get(".__textx__")), "Exception": lambda v: True, "BaseException": lambda v: True}}
            env.update(given)
            raised = None
            try: pyeval.run_block(h.body, env)
            except pyeval.Raised as e_: raised = e_.cls
            except pyeval.Unsupported as e_: raise AnalysisError("TextXMetaModel.process: handler outside the evaluated subset: %s" % e_)
            inst += 1
            want = {k: (("proc-" + k) if k in preset else given[k]) for k in keys}
            got = {k: err.get("." + k) for k in keys}
            if (got != want or raised is None) and bad is None: bad = (preset, got, want, raised)
    ob("C33", "C33.a", "textx/metamodel.py", "TextXMetaModel.process", "handler evaluated for every subset of fields supplied by the processor (%d cases)" % inst, bad is None)
    if bad:
        preset, got, want, raised = bad
        wrong = [k for k in keys if got[k] != want[k]]
        out.append(Finding("C33", "C33.a", "textx/metamodel.py", "TextXMetaModel.process", "processor supplied %s" % (list(preset) or "no location"), ("location field(s) %s end up as %s, documented %s" % (wrong, {k: got[k] for k in wrong}, {k: want[k] for k in wrong})) if wrong else "the located error is not re-raised", witness="processor raising TextXError(msg%s)" % "".join(", %s=..." % k for k in preset)))
    # another exception type passes through untouched
    err = {".__textx__": False}
    for k in keys: err["." + k] = None
    env = {en: err, "__classes__": {"TextXError": lambda v: isinstance(v, dict) and bool(v.get(".__textx__")), "Exception": lambda v: True, "BaseException": lambda v: True}}; env.update(given)
    try: pyeval.run_block(h.body, env); raised = None
    except pyeval.Raised as e_: raised = e_.cls
    except pyeval.Unsupported as e_: raise AnalysisError("TextXMetaModel.process: handler outside the evaluated subset: %s" % e_)
    inst += 1
    if raised is None: out.append(Finding("C33", "C33.a", "textx/metamodel.py", "TextXMetaModel.process", "non-TextX exception", "an exception of another type raised by a processor is swallowed"))
    return inst, out
def _has_dash_norm(e):
    for c in calls(e):
        if callee_name(c) == "replace" and len(c.args) == 2 and all(isinstance(a, ast.Constant) for a in c.args) and c.args[0].value == "-" and c.args[1].value == "_": return True
    return False
def r_C30a(root):
    t = load(root, "textx/cli/generate.py"); out = []; inst = 0
    for n in ast.walk(t):
        if isinstance(n, ast.Assign) and isinstance(n.targets[0], ast.Subscript) and isinstance(n.targets[0].value, ast.Name) and n.targets[0].value.id == "custom_args":
            inst += 1
            fi = sem.info(enclosing_func(n))
            if not _has_dash_norm(fi.expand(n.targets[0].slice, at=n)):
                out.append(Finding("C30", "C30.a", "textx/cli/generate.py", qualname(n), ast.unparse(n), "custom argument key stored without '-'→'_' normalisation"))
    return inst, out
def r_C12a(root):
    t = load(root, "textx/scoping/rrel.py"); out = []; inst = 0
    for cls in [n for n in t.body if isinstance(n, ast.ClassDef) and n.name.startswith("RREL") and n.name not in ("RRELBase", "RRELVisitor")]:
        init = next((f for f in cls.body if isinstance(f, ast.FunctionDef) and f.name == "__init__"), None)
        rep = next((f for f in cls.body if isinstance(f, ast.FunctionDef) and f.name == "__repr__"), None)
        if init is None or rep is None:
            out.append(Finding("C12", "C12.a", "textx/scoping/rrel.py", cls.name, "class " + cls.name, "node class without __init__/__repr__")); continue
        params = [a.arg for a in init.args.args[1:]]
        field_src = {}   # field -> set(params it derives from)
        for n in own_nodes(init):
            if isinstance(n, ast.Assign) and isinstance(n.targets[0], ast.Attribute) and isinstance(n.targets[0].value, ast.Name) and n.targets[0].value.id == "self":
                used = {x.id for x in ast.walk(n.value) if isinstance(x, ast.Name) and x.id in params}
                if used: field_src[n.targets[0].attr] = used
        read = {x.attr for x in ast.walk(rep) if isinstance(x, ast.Attribute) and isinstance(x.value, ast.Name) and x.value.id == "self"}
        for p in params:
            inst += 1
            fields = [f for f, src in field_src.items() if p in src]
            if not any(f in read for f in fields):
                out.append(Finding("C12", "C12.a", "textx/scoping/rrel.py", cls.name + ".__repr__", "self." + (fields[0] if fields else p), "constructor parameter %r is never printed" % p))
        # flag-domain check for RRELExpression
        if cls.name == "RRELExpression":
            derived = {}
            for n in own_nodes(init):
                if isinstance(n, ast.Assign) and isinstance(n.targets[0], ast.Attribute) and isinstance(n.value, ast.Compare) and isinstance(n.value.ops[0], ast.In) \
                   and isinstance(n.value.left, ast.Constant) and isinstance(n.value.comparators[0], ast.Name) and n.value.comparators[0].id == "flags":
                    derived["self." + n.targets[0].attr] = n.value.left.value
            # (that the flags an expression was written with are printed again is decided by evaluation: C12.g, sa/rules/c12e.py)
    return inst, out
def r_C32a(root):
    t = load(root, "textx/model.py"); fn = find(t, "ReferenceResolver.resolve_one_step"); out = []
    lst = None
    for n in own_nodes(fn):
        if isinstance(n, ast.Assign) and isinstance(n.targets[0], ast.Name) and n.targets[0].id == "attr_refs" and isinstance(n.value, ast.List): lst = n
    if lst is None: raise AnalysisError("candidate key list not found in resolve_one_step")
    def classify(e):
        toks = []
        def w(x):
            if isinstance(x, ast.BinOp) and isinstance(x.op, ast.Add): w(x.left); w(x.right)
            elif isinstance(x, ast.Constant) and isinstance(x.value, str): toks.append(x.value)
            elif isinstance(x, ast.JoinedStr):
                for v in x.values: w(v.value if isinstance(v, ast.FormattedValue) else v)
            else:
                u = ast.unparse(x)
                toks.append("<CLS>" if "__class__.__name__" in u else "<ATTR>" if u.endswith("attr.name") else "<?%s>" % u)
        w(e); return "".join(toks)
    fi = sem.info(fn)
    got = [classify(fi.expand(e, at=lst)) for e in lst.value.elts]
    want = ["<CLS>.<ATTR>", "*.<ATTR>", "<CLS>.*", "*.*"]
    if got != want: out.append(Finding("C32", "C32.a", "textx/model.py", "ReferenceResolver.resolve_one_step", ast.unparse(lst), "provider key precedence is %s, documented %s" % (got, want)))
    # first-hit scan with break, else default; grammar RREL first
    loop = next((n for n in own_nodes(fn) if isinstance(n, ast.For) and isinstance(n.iter, ast.Name) and n.iter.id == "attr_refs"), None)
    if loop is None: raise AnalysisError("scan loop over attr_refs not found")
    has_break = any(isinstance(x, ast.Break) for x in ast.walk(loop))
    if not has_break or not loop.orelse: out.append(Finding("C32", "C32.a", "textx/model.py", "ReferenceResolver.resolve_one_step", "for attr_ref in attr_refs", "scan is not first-hit with default fallback"))
    g = guards(loop)
    if not any(ast.unparse(tst).replace(" ", "") == "crossref.scope_providerisnotNone" and pol is False for tst, pol in g):
        out.append(Finding("C32", "C32.a", "textx/model.py", "ReferenceResolver.resolve_one_step", "for attr_ref in attr_refs", "registered providers are not subordinate to the grammar RREL provider (guards: %s)" % [ast.unparse(x) for x, _ in g]))
    return 4 + 2, out
def r_C20a(root):
    t = load(root, "textx/lang.py"); cls = find(t, "TextXVisitor"); out = []; inst = 0
    for c in calls(cls):
        if callee_name(c) in ("StrMatch", "RegExMatch"):
            inst += 1
            kw = {k.arg: k.value for k in c.keywords}
            v = kw.get("ignore_case")
            if v is None or "ignore_case" not in ast.unparse(v):
                out.append(Finding("C20", "C20.a", "textx/lang.py", qualname(c), ast.unparse(c), "Match built from a grammar literal without ignore_case=metamodel.ignore_case"))
    return inst, out
def r_C27(root):
    out = []; inst = 0
    mm = load(root, "textx/metamodel.py")
    for name in ("model_from_str", "model_from_file"):
        fn = find(mm, "TextXMetaModel." + name); inst += 1
        fi = sem.info(fn); g = fi.cfg
        chk = [n for n in g.nodes if n.kind == "stmt" and any(callee_name(c) == "check_params" and "model_param_defs" in fi.text(c.func, at=c) and any(k.arg is None for k in c.keywords) for c in calls(n.ast))]
        loaders = [n for n in g.nodes if n.ast is not None and n.kind in ("stmt", "return") and any(callee_name(c) in ("internal_model_from_file", "get_model_from_str", "clone") for c in calls(n.ast))]
        bad = None
        for ld in loaders:
            if g.paths_avoiding(g.entry, ld, lambda n: n in chk): bad = ld; break
        if not chk or bad is not None:
            out.append(Finding("C27", "C27.a", "textx/metamodel.py", "TextXMetaModel." + name, " ".join(ast.unparse(bad.ast).split())[:80] if bad is not None else name, "a model can be loaded without check_params(**kwargs) having run"))
    LOADERS = ("internal_model_from_file", "load_model", "load_models_using_filepattern", "load_model_using_search_path")
    for rel in ("textx/metamodel.py", "textx/scoping/__init__.py", "textx/scoping/providers.py", "textx/scoping/rrel.py", "textx/model.py"):
        t = load(root, rel)
        for c in calls(t):
            if callee_name(c) in LOADERS:
                inst += 1
                kw = {k.arg: k.value for k in c.keywords}
                v = kw.get("model_params")
                src = ast.unparse(v) if v is not None else None
                ok = src is not None and (src == "model_params" or src.endswith("._tx_model_params") or src == "ModelParams(kwargs)")
                if not ok: out.append(Finding("C27", "C27.b", rel, qualname(c), ast.unparse(c), "model parameters not forwarded (model_params=%s)" % src))
                elif isinstance(v, ast.Name):
                    # the forwarded name is the caller's parameter itself: no definition other than the parameter reaches the call
                    f_ = enclosing_func(c)
                    if f_ is not None:
                        fi_ = sem.info(f_); n_ = fi_.node_of(c)
                        # the parameter may belong to an enclosing function (closure): then it must not be re-bound here at all
                        ds = fi_.rd.defs_of(n_, v.id) if n_ is not None else []
                        rebound = [fi_.cfg.nodes[d] for d in ds if fi_.cfg.nodes[d].kind != "entry"]
                        ob("C27", "C27.b", rel, qualname(c), "model_params=%s is the caller's parameter, unchanged" % v.id, not rebound)
                        if rebound: out.append(Finding("C27", "C27.b", rel, qualname(c), " ".join(ast.unparse(rebound[0].ast).split())[:100], "the parameters forwarded to the imported model are re-built on the way (%s is re-bound before the call): the imported model does not see exactly the parameters of the load" % v.id, witness="two languages registered by file pattern; the importing language declares a parameter the imported one does not"))
    # ---- C27.c  every loaded model gets the parameters of the load before any user callback sees it: by evaluation (sa/pyeval.py)
    #      of the two pre-reference-resolution closures on a textX model and on a foreign object, with a recording user callback
    from sa import pyeval as _pe
    for q, pname in (("TextXMetaModel.model_from_str.kwargs_callback", "kwargs"), ("TextXMetaModel.internal_model_from_file.kwargs_callback", "model_params")):
        fn = find(mm, q); inst += 1
        p0_ = fn.args.args[0].arg
        fns_ = {k_: v_ for k_, v_ in helper_functions(root, "textx/metamodel.py", q).items() if k_ != "kwargs_callback"}
        why = None
        for is_textx in (True, False):
            for with_cb in (True, False):
                given = {"outDir": "/o"} if pname == "kwargs" else {".kind": "model-params", ".tag": "params of this load"}
                seen_ = []
                other = {".kind": "model"} if is_textx else {".kind": "foreign"}
                if is_textx: other["._tx_metamodel"] = {".kind": "metamodel"}
                cb = _pe.PyFn(lambda m_: seen_.append(m_.get("._tx_model_params"))) if with_cb else None
                env = {"__functions__": fns_, p0_: other, pname: given, "ModelParams": _pe.PyFn(lambda *a, **k: {".kind": "ModelParams", ".store": dict(*a, **k)}),
                       "pre_ref_resolution_callback": cb, "callback": cb, "self": {".kind": "metamodel"}, "TextXMetaModel": _pe.ClassRef("TextXMetaModel")}
                try: _pe.run_block(fn.body, env); err_ = None
                except _pe.Raised as r_: err_ = "raises " + r_.cls
                except _pe.Unsupported as u_: raise AnalysisError("%s: outside the evaluated subset: %s" % (q, u_))
                got = other.get("._tx_model_params")
                def is_load_params(v_): return (isinstance(v_, dict) and v_.get(".kind") == "ModelParams" and v_.get(".store") == given) if pname == "kwargs" else (v_ is given)
                if err_: why = why or "the callback %s" % err_
                elif is_textx and not is_load_params(got): why = why or "a textX model ends up with %s instead of the parameters of this load" % ("no parameters" if got is None else "other parameters")
                elif not is_textx and got is not None: why = why or "an object that is not a textX model gets model parameters attached"
                elif with_cb and len(seen_) != 1: why = why or "the user callback runs %d times" % len(seen_)
                elif with_cb and is_textx and not is_load_params(seen_[0]): why = why or "the user callback runs before the parameters are attached (it sees %s)" % ("none" if seen_[0] is None else "others")
        okc = why is None
        ob("C27", "C27.c", "textx/metamodel.py", q, "_tx_model_params attached (for every textX model) before the user callback", okc)
        if not okc: out.append(Finding("C27", "C27.c", "textx/metamodel.py", q, "kwargs_callback", why + ": callbacks and scope providers that read model._tx_model_params see nothing or another load's parameters"))
    return inst, out
def r_C14c(root):
    t = load(root, "textx/model.py"); out = []
    def names_in(fn):
        fi_ = sem.info(fn)
        for n in own_nodes(fn):
            if not isinstance(n, ast.For): continue
            it = fi_.expand(n.iter, at=n.iter)
            if isinstance(it, ast.Call) and isinstance(it.func, ast.Attribute) and it.func.attr in ("items", "keys"): it = it.func.value
            if isinstance(it, (ast.Tuple, ast.List)) and it.elts and all(isinstance(e, ast.Constant) and isinstance(e.value, str) for e in it.elts): return {e.value for e in it.elts}
            if isinstance(it, ast.Dict) and it.keys and all(isinstance(k, ast.Constant) and isinstance(k.value, str) for k in it.keys): return {k.value for k in it.keys}
        raise AnalysisError("dunder name table not found in " + fn.name)
    rep = names_in(find(t, "_replace_user_attr_methods_for_class")); res = names_in(find(t, "_restore_user_attr_methods"))
    if not rep <= res: out.append(Finding("C14", "C14.c", "textx/model.py", "_restore_user_attr_methods", str(sorted(res)), "replaced but never restored: %s" % sorted(rep - res)))
    return len(rep), out
ALL = [r_C03a, r_C33a, r_C30a, r_C12a, r_C32a, r_C20a, r_C27, r_C14c]
if __name__ == "__main__":
    from sa import util
    for root in sys.argv[1:] or ["/repo"]:
        print("=====", root); util._cache.clear()
        for r in ALL:
            try:
                inst, fs = r(root); print("%-8s instances=%-3d findings=%d" % (r.__name__, inst, len(fs)))
                for f in fs: print("     ", f)
            except AnalysisError as e: print(r.__name__, "ANALYSIS-ERROR", e)
