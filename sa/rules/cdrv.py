"""The model-construction driver parse_tree_to_objgraph, decided by evaluation (sa/pyeval.py): its body is interpreted with
recording stand-ins for the nested tree walkers (process_node, call_obj_processors), the resolver class, the model
loaders and the cleanup functions; _start_model_construction / _end_model_construction are interpreted themselves.

   C18.k  order of a successful load of a main model that includes another model: build the objects -> file name,
          meta-model and 'under construction' mark -> the caller's pre-resolution callback -> every ModelLoader provider
          (registered or attached to a reference) loads its models with the caller's encoding -> a resolver for this model
          -> rounds over every included model that is still under construction (a model already finished is left alone)
          -> construction ended for every model -> only then object processors, model by model; the model is returned
   C06.g  _tx_filename is the file the model was loaded from, None for a model loaded from a string
   C34.j  with tool support the model publishes the very list its resolver filled, sorted by reference position, and its
          span map ordered innermost-first
   C15.k  a failure in resolution / in a processor / in a loader removes the models of this load from the repositories,
          abandons their user objects, un-marks the models under construction and re-raises the same error; no processor
          runs after a resolution failure
   C14.n  a model that cannot carry attributes (a match-rule result) restores the user classes at once and returns"""
import ast
from sa.util import *
from sa import pyeval
from sa.exprs import HS
M = "textx/model.py"
def r_driver(root):
    out = []; inst = 0
    t = load(root, M); fn = find(t, "parse_tree_to_objgraph")
    ps = [a.arg for a in fn.args.args]
    for need in ("parser", "parse_tree", "file_name", "pre_ref_resolution_callback", "is_main_model", "encoding"):
        if need not in ps: raise AnalysisError("parse_tree_to_objgraph: parameter %s not found (%s)" % (need, ps))
    STANDIN = ("process_node", "process_match", "call_obj_processors")
    body = [st for st in fn.body if not (isinstance(st, ast.FunctionDef) and st.name in STANDIN)]
    if len(body) == len(fn.body): raise AnalysisError("parse_tree_to_objgraph: nested tree walkers not found")
    SKIP = set(STANDIN) | {"parse_tree_to_objgraph", "get_included_models", "remove_models_from_repositories", "_abandon_user_objects", "_remove_all_affected_models_in_construction", "get_children_of_type", "get_location", "get_model"}
    fns = {k: v for k, v in helper_functions(root, M, "parse_tree_to_objgraph").items() if k not in SKIP}
    # methods of the parser class: a helper method the driver calls on the parser is interpreted on the parser sample
    for k_, v_ in helper_functions(root, M, "get_model_parser.TextXModelParser._restore_user_attr_methods").items():
        if isinstance(getattr(v_, "_parent", None), ast.ClassDef) and v_._parent.name == "TextXModelParser" and k_ not in fns and not k_.startswith("__"): fns[k_] = v_
    cds = {c.name: c for c in t.body if isinstance(c, ast.ClassDef)}
    cModel = pyeval.ClassObj("Model", {"__name__": "Model", "_tx_fqn": "Model"})
    prim = None
    for st in load(root, "textx/lang.py").body:
        if isinstance(st, ast.Assign) and len(st.targets) == 1 and isinstance(st.targets[0], ast.Name) and st.targets[0].id == "PRIMITIVE_PYTHON_TYPES":
            try: prim = pyeval.evaluate(st.value, {})
            except (pyeval.Unsupported, pyeval.Raised): prim = None
    if not prim or not any(x == str for x in prim): raise AnalysisError("lang.py: PRIMITIVE_PYTHON_TYPES not found")
    def scenario(file_name="m.file", tools=True, main=True, unresolvable=False, proc_fails=False, immutable=False, loader_fails=False, callback=True):
        ev = []
        mm = HS({".kind": "metamodel", ".textx_tools_support": tools, ".file_name": "grammar.tx", ".debug": False})
        def restore(tag): return pyeval.PyFn(lambda: ev.append(("restore", tag)))
        parser = HS({".kind": "parser", ".metamodel": mm, ".debug": False, ".dprint": pyeval.PyFn(lambda *a: None), "._inst_stack": [], "._crossrefs": [], "._user_class_inst": [], "._user_obj_ids": [],
                     "._restore_user_attr_methods": restore("main"), "._release_user_obj_attrs": pyeval.PyFn(lambda: ev.append(("release", "main"))), ".pos_to_linecol": pyeval.PyFn(lambda pos: (("line", pos), ("col", pos)))})
        parser2 = HS({".kind": "parser", ".metamodel": mm, "._inst_stack": [], "._user_class_inst": [], "._restore_user_attr_methods": restore("imported"), ".pos_to_linecol": pyeval.PyFn(lambda pos: (("line2", pos), ("col2", pos)))})
        model = "matched text" if immutable else pyeval.InstObj(cModel)
        imported = pyeval.InstObj(cModel); finished = pyeval.InstObj(cModel)
        imported.own.update({"_tx_filename": "imp.file", "_tx_metamodel": mm, "_tx_parser": parser2}); finished.own.update({"_tx_filename": "done.file", "_tx_metamodel": mm, "_tx_parser": parser2})
        def mkref(start): return HS({".kind": "refpos", ".ref_pos_start": start})
        def delayed(name, pos): return ("obj", "attr", HS({".kind": "crossref", ".obj_name": name, ".position": pos, ".cls": {".__name__": "Target"}}))
        def resolver(tag, script, parser_, lst, model_=None):
            # an instance of the real ReferenceResolver class (constructor interpreted) whose resolve_one_step is scripted
            try: r = pyeval.instantiate("ReferenceResolver", [parser_, model_, lst], {}, {"__classdefs__": cds, "__functions__": fns, "__module__": t, "DefaultScopeProvider": pyeval.PyFn(lambda *a, **k: HS({".kind": "provider", ".is_loader": False, ".tag": "default"}))})
            except (pyeval.Raised, pyeval.Unsupported) as x_: raise AnalysisError("ReferenceResolver(parser, model, list): %s" % x_)
            if r.get(".pos_crossref_list") is not lst: r[".pos_crossref_list_given"] = lst
            r[".tag"] = tag; r.setdefault(".delayed_crossrefs", []); state = {"i": 0}
            def step():
                i = state["i"]; state["i"] += 1
                n, delayed_, starts = script[min(i, len(script) - 1)]
                ev.append(("round", tag, i)); r[".delayed_crossrefs"] = list(delayed_)
                for s_ in starts: r[".pos_crossref_list"].append(mkref(s_))
                return n, list(delayed_)
            r[".resolve_one_step"] = pyeval.PyFn(step); return r
        stuck = [(0, [delayed("ghost", 33)], [])]
        imp_res = imported.own["_tx_reference_resolver"] = resolver("imported", stuck if unresolvable else [(0, [delayed("later", 5)], [70]), (1, [], [20])], parser2, [], imported)
        loaderA = HS({".kind": "provider", ".is_loader": True}); loaderB = HS({".kind": "provider", ".is_loader": True}); plain = HS({".kind": "provider", ".is_loader": False})
        def load(tag):
            def f(m, encoding=None, **k):
                ev.append(("load_models", tag, m, encoding))
                if loader_fails and tag == "B":
                    r_ = pyeval.Raised("TextXSyntaxError"); r_.bases = ["TextXSyntaxError", "TextXError", "Exception"]; raise r_
            return pyeval.PyFn(f)
        loaderA[".load_models"] = load("A"); loaderB[".load_models"] = load("B")
        mm[".scope_providers"] = {"*.ref": loaderA, "X.y": plain}
        env = {}
        def process_node(tree):
            ev.append(("process_node", tree))
            parser["._crossrefs"].extend([("o", "a", HS({".kind": "crossref", ".scope_provider": loaderB})), ("o", "b", HS({".kind": "crossref", ".scope_provider": None})), ("o", "c", HS({".kind": "crossref", ".scope_provider": plain}))])
            if "pos_rule_dict" in env: env["pos_rule_dict"].update({(0, 100): "root", (5, 20): "a", (5, 9): "a-inner", (30, 40): "b", (30, 35): "b-inner", (5, 10): "a-mid"})
            return model
        created = []
        def new_resolver(parser_, model_, lst):
            ev.append(("resolver", parser_ is parser, model_ is model)); created.append(lst)
            return resolver("main", stuck if unresolvable else [(1, [delayed("d1", 8)], [50]), (1, [], [10])], parser_, lst, model_)
        def call_proc(mm_, m, *a):
            ev.append(("processors", m, mm_ is mm))
            if proc_fails and m is model:
                r_ = pyeval.Raised("TextXSemanticError"); r_.bases = ["TextXSemanticError", "TextXError", "Exception"]; r_.value = {".cls": "TextXSemanticError", ".tag": "from the processor"}; raise r_
        def cb(m):
            ev.append(("callback", m, isinstance(m, pyeval.InstObj) and "_tx_reference_resolver" in m.own and m.own.get("_tx_filename", "unset") == file_name and m.own.get("_tx_metamodel") is mm))
            if isinstance(m, pyeval.InstObj): m.own["_tx_model_params"] = {}
        def included(m):
            ev.append(("get_included_models", m)); return [imported, finished, m] if not immutable else [m]
        env.update({"__functions__": fns, "__classdefs__": cds, "__module__": t, "__maxdepth__": 20,
                    "parser": parser, "parse_tree": "THE-TREE", "file_name": file_name, "pre_ref_resolution_callback": pyeval.PyFn(cb) if callback else None, "is_main_model": main, "encoding": "enc-1",
                    "process_node": pyeval.PyFn(process_node), "call_obj_processors": pyeval.PyFn(call_proc), "ReferenceResolver": pyeval.PyFn(new_resolver), "get_included_models": pyeval.PyFn(included),
                    "get_children_of_type": pyeval.PyFn(lambda *a: []), "Postponed": HS({".kind": "cls", ".__class__": "PostponedMeta"}),
                    "remove_models_from_repositories": pyeval.PyFn(lambda a, b: ev.append(("remove_from_repositories", list(a), list(b)))), "_abandon_user_objects": pyeval.PyFn(lambda ms: ev.append(("abandon_user_objects", list(ms)))),
                    "_remove_all_affected_models_in_construction": pyeval.PyFn(lambda m: ev.append(("remove_in_construction", m))),
                    "TextXSemanticError": pyeval.PyFn(lambda *a, **k: {".cls": "TextXSemanticError", ".args": a, ".kw": k}), "OrderedDict": pyeval.PyFn(lambda items=(): dict(items)), "PRIMITIVE_PYTHON_TYPES": prim,
                    "__classes__": {"ModelLoader": lambda v: isinstance(v, dict) and v.get(".is_loader") is True, "list": lambda v: isinstance(v, list), "str": lambda v: isinstance(v, str)}})
        for p_ in ps: env.setdefault(p_, None)
        try: k, v = "ret", pyeval.run_block(body, env, max_steps=5000)
        except pyeval.Raised as r_: k, v = "raise", r_
        except pyeval.Unsupported as u_: raise AnalysisError("parse_tree_to_objgraph: outside the evaluated subset: %s" % u_)
        return dict(k=k, v=v, ev=ev, model=model, imported=imported, finished=finished, mm=mm, parser=parser, created=created, imported_list=imp_res[".pos_crossref_list"])
    W = "parse_tree_to_objgraph"
    def rep(prop, clause, what, ok, msg):
        nonlocal inst
        inst += 1; ob(prop, clause, M, W, what, ok)
        if not ok: out.append(Finding(prop, clause, M, W, what, msg))
    def kinds(ev): return [e[0] for e in ev]
    def show(ev):
        def nm(e):
            if e[0] in ("round",): return "%s(%s,%d)" % e
            if e[0] in ("load_models", "restore", "release"): return "%s(%s)" % (e[0], e[1])
            return e[0]
        return " > ".join(nm(e) for e in ev)
    # ---- A: successful load of a main model
    A = scenario(); ev = A["ev"]; model, imported, finished = A["model"], A["imported"], A["finished"]
    want = ["process_node", "callback", "load_models", "load_models", "resolver", "get_included_models", "round", "round", "round", "round", "restore", "restore", "processors", "processors"]
    ok_order = A["k"] == "ret" and A["v"] is model and kinds(ev) == want
    if ok_order:
        ok_order = ev[1][2] is True and [(e[1], e[2] is model, e[3]) for e in ev if e[0] == "load_models"] == [("A", True, "enc-1"), ("B", True, "enc-1")] and ev[4][1:] == (True, True) \
                   and sorted((e[1], e[2]) for e in ev if e[0] == "round") == [("imported", 0), ("imported", 1), ("main", 0), ("main", 1)] and [e[2] for e in ev if e[0] == "round"] == [0, 0, 1, 1] \
                   and sorted(e[1] for e in ev if e[0] == "restore") == ["imported", "main"] and {id(e[1]) for e in ev if e[0] == "processors"} == {id(model), id(imported)} and all(e[2] for e in ev if e[0] == "processors")
    rep("C18", "C18.k", "successful load of a main model that includes a model under construction and a finished one", ok_order,
        "loading a main model (one included model still under construction, one already finished) %s with the steps  %s ; documented: process_node > callback (model already marked, file name and meta-model set) > load_models(A) > load_models(B) (both with the caller's encoding) > resolver(parser, model, list) > get_included_models > two rounds over both unfinished models > construction ended for both > object processors of both; the finished model is neither resolved nor processed again" % ("returns" if A["k"] == "ret" else "raises " + A["v"].cls, show(ev)))
    if A["k"] == "ret" and isinstance(model, pyeval.InstObj):
        rep("C06", "C06.g", "the model knows the file it was loaded from", model.own.get("_tx_filename") == "m.file" and model.own.get("_tx_metamodel") is A["mm"] and model.own.get("_tx_parser") is A["parser"] and "_tx_reference_resolver" not in model.own and "_tx_reference_resolver" not in imported.own,
            "after the load the model has _tx_filename=%r, its meta-model: %s, its parser: %s, still marked under construction: %s; documented: the file name given by the caller, the meta-model and parser of the load, no construction mark" % (model.own.get("_tx_filename"), model.own.get("_tx_metamodel") is A["mm"], model.own.get("_tx_parser") is A["parser"], "_tx_reference_resolver" in model.own))
        lst = model.own.get("_pos_crossref_list"); prd = model.own.get("_pos_rule_dict")
        rep("C34", "C34.j", "the published reference list is the resolver's own list, sorted; the span map is ordered innermost-first", bool(A["created"]) and lst is A["created"][0] and [r[".ref_pos_start"] for r in lst] == [10, 50] and [r[".ref_pos_start"] for r in A["imported_list"]] == [20, 70] and isinstance(prd, dict) and list(prd) == [(30, 35), (30, 40), (5, 9), (5, 10), (5, 20), (0, 100)],
            "with tool support the model publishes %s with starts %s (the included model's list: %s) and the span map in the order %s; documented: the very list handed to its resolver (filled while resolving, also in later rounds), sorted by reference start [10, 50] - as the list of every model resolved in this load ([20, 70]) -, and the spans ordered by start descending, end ascending" % ("the resolver's list" if A["created"] and lst is A["created"][0] else "another list object" if isinstance(lst, list) else repr(lst), [r[".ref_pos_start"] for r in lst] if isinstance(lst, list) else None, [r[".ref_pos_start"] for r in A["imported_list"]], list(prd) if isinstance(prd, dict) else prd))
        il = imported.own.get("_tx_reference_resolver")
    # ---- B: a model loaded from a string
    B = scenario(file_name=None)
    cbs = [e for e in B["ev"] if e[0] == "callback"]
    rep("C18", "C18.k", "a model loaded from a string is marked as under construction like any other", B["k"] == "ret" and len(cbs) == 1 and cbs[0][2] is True and kinds(B["ev"]) == want,
        "loading a model from a string (no file name) runs  %s  and the pre-resolution callback sees the model %s; documented: the same steps as for a file, the model carrying the construction mark, its (absent) file name and its meta-model when the callback runs (a failure while its imports are loaded must find it)" % (show(B["ev"]), "marked" if cbs and cbs[0][2] is True else "without the construction mark / file name / meta-model"))
    rep("C06", "C06.g", "a model loaded from a string has no file name", B["k"] == "ret" and isinstance(B["model"], pyeval.InstObj) and "_tx_filename" in B["model"].own and B["model"].own["_tx_filename"] is None,
        "a model loaded from a string gets _tx_filename=%r; documented None (the grammar's file is %r)" % (B["model"].own.get("_tx_filename", "unset") if isinstance(B["model"], pyeval.InstObj) else None, "grammar.tx"))
    # ---- without tool support nothing is published
    N = scenario(tools=False)
    rep("C34", "C34.j", "without tool support no position tables are attached", N["k"] == "ret" and "_pos_crossref_list" not in N["model"].own and "_pos_rule_dict" not in N["model"].own and kinds(N["ev"]) == want, "without tool support the load %s and the model carries position tables: %s" % ("returns" if N["k"] == "ret" else "raises " + N["v"].cls, sorted(k_ for k_ in N["model"].own if k_.startswith("_pos"))))
    # ---- C: an imported (non-main) model
    Cc = scenario(main=False); evc = Cc["ev"]
    okc = Cc["k"] == "ret" and Cc["v"] is Cc["model"] and kinds(evc) == ["process_node", "callback", "load_models", "load_models", "resolver"] and isinstance(Cc["model"].own.get("_tx_reference_resolver"), dict) and Cc["model"].own.get("_tx_parser") is Cc["parser"]
    rep("C18", "C18.k", "a model loaded for another model is built but not resolved", okc, "loading a model on behalf of another model (is_main_model=False) runs  %s  and leaves the resolver %s; documented: process_node > callback > load_models(A) > load_models(B) > resolver, then return with the model still under construction (the main model's load resolves it and runs its processors)" % (show(evc), "attached" if isinstance(Cc["model"].own.get("_tx_reference_resolver"), dict) else "missing"))
    # ---- D: unresolvable references
    D = scenario(unresolvable=True); evd = D["ev"]
    tail = [e for e in evd if e[0] in ("remove_from_repositories", "abandon_user_objects", "remove_in_construction", "processors", "restore")]
    okd = D["k"] == "raise" and D["v"].cls == "TextXSemanticError" and [e[0] for e in tail] == ["remove_from_repositories", "abandon_user_objects", "remove_in_construction"] \
          and [id(x) for x in tail[0][1]] == [id(D["imported"]), id(D["model"])] and [id(x) for x in tail[0][2]] == [id(D["imported"]), id(D["model"])] and [id(x) for x in tail[1][1]] == [id(D["imported"]), id(D["model"])] and tail[2][1] is D["model"] \
          and len([e for e in evd if e[0] == "round"]) == 2
    rep("C15", "C15.k", "unresolvable references: one round, the error, the cleanup, no processors", okd, "a load whose references cannot be resolved %s after  %s ; documented: one round over the unfinished models, then TextXSemanticError, the models of this load (not the finished one) removed from the repositories, their user objects abandoned, the construction marks removed; no object processor runs" % ("raises " + D["v"].cls if D["k"] == "raise" else "returns", show(evd)))
    if D["k"] == "raise" and isinstance(D["v"].value, dict):
        kw = D["v"].value.get(".kw", {}); msg = (D["v"].value.get(".args") or [kw.get("message", "")])[0]
        okm = isinstance(msg, str) and '"ghost"' in msg and '"Target"' in msg and kw.get("filename") == "m.file" and kw.get("line") == ("line", 33) and kw.get("col") == ("col", 33)
        rep("C28", "C28.h", "the 'Unresolvable cross references' error names every reference and is located at the last one, in its own model's file", okm, "the error for unresolvable references is %r with line=%r col=%r filename=%r; documented: the name and class of every unresolved reference, located (line, col, file) at one of them, converted by the parser of the model that contains it" % (msg, kw.get("line"), kw.get("col"), kw.get("filename")))
    # ---- E: a processor fails
    E = scenario(proc_fails=True); eve = E["ev"]
    tail = [e[0] for e in eve if e[0] in ("remove_from_repositories", "abandon_user_objects", "remove_in_construction")]
    oke = E["k"] == "raise" and isinstance(E["v"].value, dict) and E["v"].value.get(".tag") == "from the processor" and tail == ["remove_from_repositories", "abandon_user_objects", "remove_in_construction"]
    rep("C15", "C15.k", "a failing object processor: the cleanup, the same error", oke, "a load whose object processor raises %s after the cleanup steps %s; documented: the models of the load removed from the repositories, user objects abandoned, construction marks removed, and the processor's own error re-raised" % (("raises %s%s" % (E["v"].cls, "" if isinstance(E["v"].value, dict) and E["v"].value.get(".tag") else " (another error object)")) if E["k"] == "raise" else "returns normally", tail))
    # ---- G: a loader fails
    G = scenario(loader_fails=True); evg = G["ev"]
    okg = G["k"] == "raise" and G["v"].cls == "TextXSyntaxError" and [e[0] for e in evg if e[0] in ("resolver", "round", "processors", "remove_in_construction")] == ["remove_in_construction"]
    rep("C15", "C15.k", "a failing model loader: the construction mark is removed, nothing is resolved", okg, "a load whose imported file cannot be loaded %s after  %s ; documented: the error of the imported file propagates, the model's construction mark is removed, no resolver is created and nothing is resolved or processed" % ("raises " + G["v"].cls if G["k"] == "raise" else "returns", show(evg)))
    # ---- F: immutable model
    F = scenario(immutable=True); evf = F["ev"]
    okf = F["k"] == "ret" and F["v"] == "matched text" and [e[:2] for e in evf if e[0] in ("restore", "release")] == [("restore", "main"), ("release", "main")] and not [e for e in evf if e[0] in ("resolver", "round", "processors")]
    rep("C14", "C14.n", "a model of an immutable type restores the user classes at once", okf, "a load whose result is a plain string %s after  %s ; documented: the user-class instrumentation is restored and the collected attributes released right away (the value cannot carry its parser to the end of the load), no resolver, no processors, the value is returned" % ("returns %r" % (F["v"],) if F["k"] == "ret" else "raises " + F["v"].cls, show(evf)))
    # ---- no callback
    NC = scenario(callback=False)
    rep("C18", "C18.k", "a load without a pre-resolution callback", NC["k"] == "raise" or kinds(NC["ev"])[:2] == ["process_node", "load_models"], "without a callback the load runs %s" % show(NC["ev"]))
    return inst, out
