"""rule prototypes, batch 2: C26.a-f C21.a C04.a/b/c C25.a-d"""
import ast, sys, symtable, re._parser as sre, re._constants as sc
from sa.util import *
from sa import atoms, sem
from sa.cfg import CFG
from sa.reach import Reaching
REG = {"languages", "generators", "metamodels"}
def _is_lowered(expr, rd, node, cfg, depth=0):
    if depth > 6: return False
    if isinstance(expr, ast.Constant) and isinstance(expr.value, str): return expr.value == expr.value.lower()
    if isinstance(expr, ast.Call) and isinstance(expr.func, ast.Attribute) and expr.func.attr in ("lower", "casefold") and not expr.args: return True
    if isinstance(expr, ast.Name):
        defs = rd.defs_of(node, expr.id)
        if not defs: return False
        for d in defs:
            dn = cfg.nodes[d]
            if dn.kind == "entry": return False
            a = dn.ast
            if not (isinstance(a, ast.Assign) and len(a.targets) == 1 and isinstance(a.targets[0], ast.Name) and _is_lowered(a.value, rd, dn, cfg, depth + 1)): return False
        return True
    return False
def _lowered_by_callers(t, fn, key, rd, node, cfg):
    """the key is (only) a parameter of a private module-level helper, and every call of the helper in the module passes a
    lower()-normalised value for it"""
    if not (isinstance(key, ast.Name) and fn.name.startswith("_")): return False
    params = [a.arg for a in fn.args.args]
    if key.id not in params: return False
    if not all(cfg.nodes[d].kind == "entry" for d in rd.defs_of(node, key.id)): return False
    idx = params.index(key.id); sites = [c for c in calls(t) if callee_name(c) == fn.name and isinstance(c.func, ast.Name)]
    if not sites: return False
    for c in sites:
        cf = enclosing_func(c)
        if cf is None or cf is fn: return False
        arg = c.args[idx] if idx < len(c.args) else next((k.value for k in c.keywords if k.arg == key.id), None)
        if arg is None: return False
        ccfg = CFG(cf); crd = Reaching(ccfg, cf)
        cn = next((x for x in ccfg.nodes if x.ast is not None and any(y is c for y in ast.walk(x.ast))), None)
        if cn is None or not _is_lowered(arg, crd, cn, ccfg): return False
    return True
def r_C26a(root):
    rel = "textx/registration.py"; t = load(root, rel); out = []; seen = set()
    st = symtable.symtable(open(root + "/" + rel).read(), rel, "exec")
    scopes = {c.get_name(): c for c in st.get_children() if c.get_type() == "function"}
    for fn in [n for n in t.body if isinstance(n, ast.FunctionDef)]:
        sc_ = scopes[fn.name]
        regs = {r for r in REG if r in [s.get_name() for s in sc_.get_symbols() if s.is_global()]}
        if not regs: continue
        cfg = CFG(fn); rd = Reaching(cfg, fn)
        second = set()
        for n in cfg.nodes:
            a = n.ast
            if isinstance(a, ast.Assign) and isinstance(a.targets[0], ast.Name):
                v = a.value
                if (isinstance(v, ast.Subscript) and isinstance(v.value, ast.Name) and v.value.id in regs) or \
                   (isinstance(v, ast.Call) and isinstance(v.func, ast.Attribute) and v.func.attr in ("setdefault", "get") and isinstance(v.func.value, ast.Name) and v.func.value.id in regs):
                    second.add(a.targets[0].id)
        names = regs | second
        for n in cfg.nodes:
            if n.ast is None or n.kind in ("def",): continue
            root_ast = n.ast if n.kind != "handler" else None
            if root_ast is None: continue
            for e in ast.walk(root_ast):
                key = None
                if isinstance(e, ast.Subscript) and isinstance(e.value, ast.Name) and e.value.id in names: key = e.slice
                elif isinstance(e, ast.Compare) and len(e.ops) == 1 and isinstance(e.ops[0], (ast.In, ast.NotIn)) and isinstance(e.comparators[0], ast.Name) and e.comparators[0].id in names: key = e.left
                elif isinstance(e, ast.Call) and isinstance(e.func, ast.Attribute) and e.func.attr in ("setdefault", "get", "pop") and isinstance(e.func.value, ast.Name) and e.func.value.id in names and e.args: key = e.args[0]
                if key is None or id(e) in seen: continue
                seen.add(id(e))
                if not _is_lowered(key, rd, n, cfg) and not _lowered_by_callers(t, fn, key, rd, n, cfg):
                    out.append(Finding("C26", "C26.a", rel, fn.name, ast.unparse(e), "registry key %r is not lower()-normalised on every reaching definition" % ast.unparse(key)))
    return len(seen), out
def r_C26bcdef(root):
    rel = "textx/registration.py"; t = load(root, rel); out = []; inst = 0
    # b: lazy rediscovery: functions reading a registry global must test 'is None' -> *_descriptions() or call it
    INIT = {"languages": "language_descriptions", "generators": "generator_descriptions"}
    st = symtable.symtable(open(root + "/" + rel).read(), rel, "exec")
    scopes = {c.get_name(): c for c in st.get_children() if c.get_type() == "function"}
    for fn in [n for n in t.body if isinstance(n, ast.FunctionDef)]:
        for g, init in INIT.items():
            if fn.name in (init,) or fn.name.startswith("clear_") or fn.name.startswith("_"): continue      # private helpers are reached through the public functions (also decided by evaluation, C26.h)
            syms = {s.get_name(): s for s in scopes[fn.name].get_symbols()}
            if g in syms and syms[g].is_global() and syms[g].is_referenced():
                reads = [x for x in own_nodes(fn) if isinstance(x, ast.Name) and x.id == g and isinstance(x.ctx, ast.Load)]
                real = [x for x in reads if not (isinstance(getattr(x, "_parent", None), ast.Compare) and isinstance(x._parent.ops[0], (ast.Is, ast.IsNot)))]
                if not real: continue
                inst += 1
                ok = any(isinstance(s, ast.If) and ast.unparse(s.test) == "%s is None" % g and any(callee_name(c) == init for c in calls(s)) for s in fn.body)
                if not ok: out.append(Finding("C26", "C26.b", rel, fn.name, g, "registry read without lazy (re)discovery guard"))
    clr = find(t, "clear_language_registrations"); inst += 1
    assigned = {x.id for n in own_nodes(clr) if isinstance(n, (ast.Assign, ast.AnnAssign, ast.AugAssign)) for tg in (n.targets if isinstance(n, ast.Assign) else [n.target]) for x in ast.walk(tg) if isinstance(x, ast.Name) and isinstance(x.ctx, ast.Store)}
    for c_ in calls(clr):            # metamodels.clear() empties the cache as well
        if callee_name(c_) == "clear" and isinstance(c_.func, ast.Attribute) and isinstance(c_.func.value, ast.Name): assigned.add(c_.func.value.id)
    if not {"languages", "metamodels"} <= assigned: out.append(Finding("C26", "C26.b", rel, "clear_language_registrations", str(sorted(assigned)), "clearing languages must also invalidate the metamodel cache"))
    # c: duplicates refused
    for fname, exc in (("register_language", "TextXRegistrationError"), ("register_generator", "TextXRegistrationError")):
        fn = find(t, fname); inst += 1
        ok = False
        for s in own_nodes(fn):
            if isinstance(s, ast.If) and isinstance(s.test, ast.Compare) and isinstance(s.test.ops[0], ast.In) and any(isinstance(b, ast.Raise) and exc in ast.unparse(b) for b in s.body): ok = True
        if not ok: out.append(Finding("C26", "C26.c", rel, fname, "if <key> in <registry>: raise", "duplicate registration is not refused"))
    # d: language_for_file cardinality table
    fn = find(t, "language_for_file"); names, rows = atoms.table(fn.body); inst += 3
    lv = next(ast.unparse(a.args[0]) for a in ast.walk(fn) if isinstance(a, ast.Call) and getattr(a.func, "id", "") == "len")
    import operator as op
    OPS = {ast.Eq: op.eq, ast.NotEq: op.ne, ast.Lt: op.lt, ast.LtE: op.le, ast.Gt: op.gt, ast.GtE: op.ge}
    for n_, want in ((0, "raise"), (1, "return"), (2, "raise")):
        sel = atoms.card_row(rows, lv, n_)
        if len(sel) != 1: raise AnalysisError("language_for_file: %d paths for cardinality %d" % (len(sel), n_))
        row = sel[0]
        if row.exit_kind != want or (want == "raise" and "TextXRegistrationError" not in row.exit_text()):
            out.append(Finding("C26", "C26.d", rel, "language_for_file", row.exit_text() or "fallthrough", "with %s matching language(s) the function does %s, documented %s" % (n_ if n_ < 2 else ">=2", row.exit_kind, want)))
    # e: metamodel_for_language rebuild condition
    fn = find(t, "metamodel_for_language"); names, rows = atoms.table(fn.body); inst += 4
    a_cached = next((a for a in names if "not in metamodels" in a or "in metamodels" in a), None); a_kw = "kwargs"
    if a_cached is None: raise AnalysisError("metamodel_for_language: cache membership test not found: %s" % names)
    cond = next((ast.unparse(x.test) for x in fn.body if isinstance(x, ast.If)), "cache condition")
    for cached in (True, False):
        for kw in (True, False):
            def want(a, cached=cached, kw=kw):
                if a == a_cached: return (not cached) if "not in" in a_cached else cached
                if a == a_kw: return kw
                return None
            sel = [r for r in rows if all(want(a) in (None, v) for a, v in r.val.items()) and r.exit_kind != "raise"]
            rebuilds = {any(isinstance(e, ast.Assign) and ast.unparse(e.targets[0]).startswith("metamodels[") for e in r.effects) for r in sel}
            if rebuilds != {(not cached) or kw}:
                out.append(Finding("C26", "C26.e", rel, "metamodel_for_language", cond, "cached=%s kwargs=%s: metamodel rebuilt=%s, documented %s" % (cached, kw, sorted(rebuilds), (not cached) or kw)))
    # f: the any-fallback of generator_description is decided by evaluation (C26.g, sa/rules/c26.py)
    return inst, out
# ---------------- regex helpers (A9)
def _cat_set(items):
    """category set of a char class: subset of {'digit','wordnd','other'} (word = digit|wordnd)"""
    cats = set(); neg = False
    for op_, av in items:
        if op_ is sc.NEGATE: neg = True
        elif op_ is sc.CATEGORY:
            cats |= {sc.CATEGORY_DIGIT: {"digit"}, sc.CATEGORY_NOT_DIGIT: {"wordnd", "other"}, sc.CATEGORY_WORD: {"digit", "wordnd"}, sc.CATEGORY_NOT_WORD: {"other"}}.get(av, {"?"})
        else: cats.add("?")
    return ({"digit", "wordnd", "other"} - cats) if neg else cats
def r_C21a(root):
    rel = "textx/lang.py"; t = load(root, rel); out = []
    init = find_i(root, rel, "TextXVisitor.__init__"); vs = find_i(root, rel, "TextXVisitor.visit_str_match")
    fi_i = sem.info(init); fi_v = sem.info(vs)
    rx = None
    # the keyword regex: a re.compile(<constant>) in __init__ or in a module-level function __init__ calls (constants folded)
    scopes = [init] + [f for f in t.body if isinstance(f, ast.FunctionDef) and any(callee_name(c) == f.name for c in calls(init))]
    for sc_ in scopes:
        fi_s = sem.info(sc_)
        for c in calls(sc_):
            if callee_name(c) == "compile" and c.args:
                a0 = fi_s.expand(c.args[0], at=c)
                v = a0.value if isinstance(a0, ast.Constant) and isinstance(a0.value, str) else const_str(a0, t)
                if isinstance(v, str): rx = v
    if rx is None: raise AnalysisError("keyword regex not found")
    p = list(sre.parse(rx))
    ok = len(p) == 2 and p[0][0] is sc.IN and _cat_set(p[0][1]) == {"wordnd"} and p[1][0] is sc.MAX_REPEAT and p[1][1][0] == 0 and p[1][1][1] == sc.MAXREPEAT \
         and list(p[1][1][2])[0][0] is sc.IN and _cat_set(list(p[1][1][2])[0][1]) == {"digit", "wordnd"}
    if not ok: out.append(Finding("C21", "C21.a", rel, "TextXVisitor.__init__", rx, "keyword classification regex is not (word minus digit)(word)*"))
    # (what visit_str_match builds for which literal is decided by evaluation: sa/rules/c21.py)
    return 1, out
def r_C04(root):
    out = []; inst = 0
    lang = load(root, "textx/lang.py"); mm = load(root, "textx/metamodel.py")
    regs = {}
    for n in lang.body:
        if isinstance(n, ast.Assign) and isinstance(n.value, ast.Call) and getattr(n.value.func, "id", None) in ("_", "RegExMatch") and isinstance(n.targets[0], ast.Name):
            regs[n.targets[0].id] = const_str(n.value.args[0], lang)
            if regs[n.targets[0].id] is None: raise AnalysisError("regex of base type %s is not a constant string expression" % n.targets[0].id)
        if isinstance(n, ast.Assign) and isinstance(n.value, ast.Call) and getattr(n.value.func, "id", None) == "OrderedChoice" and isinstance(n.targets[0], ast.Name):
            regs[n.targets[0].id] = [e.id for k in n.value.keywords if k.arg == "nodes" for e in k.value.elts]
    procs = None
    for n in ast.walk(find(mm, "TextXMetaModel.__init__")):
        if isinstance(n, ast.Assign) and ast.unparse(n.targets[0]) == "self._default_obj_processors":
            d_ = dict_literal_of(n.value, mm)
            if d_ is not None: procs = {k.value: v for k, v in zip(d_.keys, d_.values) if isinstance(k, ast.Constant)}
    if procs is None: raise AnalysisError("default processors table not found")
    # b: BOOL table
    # the BOOL token decided with the regex engine itself (Python's re: the semantics of the pattern, a trusted base): exactly the
    # documented spellings are accepted as a whole token, a token ends at a word boundary and what precedes it does not matter
    import re as _re_
    SPEC = {"True": True, "true": True, "False": False, "false": False, "0": False, "1": True}
    try: brx = _re_.compile(regs["BOOL"])
    except _re_.error as ex_: raise AnalysisError("BOOL regex does not compile: %s" % ex_)
    def _tok(word, before="", after=" "):
        m_ = brx.match(before + word + after, len(before))
        return m_ is not None and m_.end() == len(before) + len(word)
    cands = list(SPEC) + ["TRUE", "FALSE", "tru", "truee", "True1", "2", "01", "10", "yes", "no", "on", "t", "f", "T", "F", "None", "-1", "1.0"]
    spell = [w_ for w_ in cands if _tok(w_)]
    inst += len(SPEC)
    if set(spell) != set(SPEC): out.append(Finding("C04", "C04.b", "textx/lang.py", "BOOL", regs["BOOL"], "BOOL spellings %s differ from the documented %s" % (sorted(spell), sorted(SPEC))))
    ctx_bad = None
    for w_ in SPEC:
        for before in ("", " ", ".", "a", "1", "=", "'", "("):
            for after, want_ in ((" ", True), ("", True), (".", True), (",", True), (";", True), (")", True), ("-", True), ("a", False), ("1", False), ("_", False)):
                if w_ + after in SPEC: continue
                if _tok(w_, before, after) != want_ and ctx_bad is None: ctx_bad = (w_, before, after, want_)
    inst += 1
    ob("C04", "C04.b", "textx/lang.py", "BOOL", "a BOOL token ends at a word boundary, whatever precedes it", ctx_bad is None)
    if ctx_bad:
        w_, before, after, want_ = ctx_bad
        out.append(Finding("C04", "C04.b", "textx/lang.py", "BOOL", regs["BOOL"], "the BOOL token %r preceded by %r and followed by %r is %s; documented: a BOOL literal is one of the six spellings ending at a word boundary, independent of the preceding character" % (w_, before, after, "matched" if not want_ else "not matched"), witness="v*=BOOL['.'] on 'true.false'"))
    def _as_lambda(v):
        """a processor given as a lambda, or as the name of a function whose body is a single `return <expr>`: (parameter name, expression)"""
        if isinstance(v, ast.Lambda): return v
        if isinstance(v, ast.Name):
            for n in ast.walk(mm):
                if isinstance(n, ast.FunctionDef) and n.name == v.id and n.args.args:
                    body = [b for b in n.body if not (isinstance(b, ast.Expr) and isinstance(b.value, ast.Constant))]
                    if len(body) == 1 and isinstance(body[0], ast.Return) and body[0].value is not None:
                        return ast.Lambda(args=ast.arguments(posonlyargs=[], args=[ast.arg(arg=n.args.args[-1].arg)], kwonlyargs=[], kw_defaults=[], defaults=[]), body=body[0].value)
        return v
    procs = {k: _as_lambda(v) for k, v in procs.items()}
    lam = procs["BOOL"]
    if not isinstance(lam, ast.Lambda): raise AnalysisError("BOOL converter is neither a lambda nor a single-return function: " + ast.unparse(lam)[:60])
    def ev(e, x):
        if isinstance(e, ast.BoolOp): vs = [ev(v, x) for v in e.values]; return any(vs) if isinstance(e.op, ast.Or) else all(vs)
        if isinstance(e, ast.Compare) and isinstance(e.ops[0], ast.Eq): return sv(e.left, x) == sv(e.comparators[0], x)
        if isinstance(e, ast.Compare) and isinstance(e.ops[0], ast.In): return sv(e.left, x) in [sv(k, x) for k in e.comparators[0].elts]
        raise AnalysisError("BOOL converter outside the supported subset: " + ast.unparse(e))
    def sv(e, x):
        if isinstance(e, ast.Constant): return e.value
        if isinstance(e, ast.Name) and e.id == lam.args.args[0].arg: return x
        if isinstance(e, ast.Call) and isinstance(e.func, ast.Attribute) and e.func.attr == "lower": return sv(e.func.value, x).lower()
        raise AnalysisError("BOOL converter outside the supported subset: " + ast.unparse(e))
    for s_, want in SPEC.items():
        if s_ in spell and ev(lam.body, s_) != want: out.append(Finding("C04", "C04.b", "textx/metamodel.py", "TextXMetaModel.__init__", ast.unparse(lam), "spelling %r converts to %s" % (s_, not want)))
    # c: ordering + converters
    inst += 4
    if regs["NUMBER"] != ["STRICTFLOAT", "INT"]: out.append(Finding("C04", "C04.c", "textx/lang.py", "NUMBER", str(regs["NUMBER"]), "NUMBER must try STRICTFLOAT before INT"))
    if regs["BASETYPE"][0] != "NUMBER" or set(regs["BASETYPE"]) != {"NUMBER", "FLOAT", "BOOL", "ID", "STRING"}: out.append(Finding("C04", "C04.c", "textx/lang.py", "BASETYPE", str(regs["BASETYPE"]), "BASETYPE alternatives changed"))
    for k, f in (("INT", "int"), ("FLOAT", "float"), ("STRICTFLOAT", "float")):
        if isinstance(procs[k], ast.Name) and procs[k].id == f: continue          # the builtin itself
        if not isinstance(procs[k], ast.Lambda): raise AnalysisError("%s converter is neither the builtin, a lambda nor a single-return function" % k)
        b = procs[k].body
        if not (isinstance(b, ast.Call) and getattr(b.func, "id", "") == f and ast.unparse(b.args[0]) == procs[k].args.args[0].arg): out.append(Finding("C04", "C04.c", "textx/metamodel.py", "TextXMetaModel.__init__", ast.unparse(procs[k]), "%s converter is not %s(whole match)" % (k, f)))
    return inst, out
def r_C25(root):
    rel = "textx/metamodel.py"; t = load(root, rel); out = []; inst = 0
    from sa import pyeval
    gi = find_i(root, rel, "TextXMetaModel.__getitem__"); inst += 1
    # unqualified lookup evaluated (sa/pyeval.py) on a sample metamodel: the current namespace wins over imports, imports are searched in list order
    cur = {"A": "cur.A"}; imp1 = {"A": "imp1.A", "B": "imp1.B"}; imp2 = {"B": "imp2.B", "C": "imp2.C"}
    def lookup(name):
        self_ = {".kind": "metamodel", "._namespace_stack": ["cur"], "._imported_namespaces": {"cur": [imp1, imp2]}, ".namespaces": {"cur": cur, "imp1": imp1, "imp2": imp2}, ".referenced_languages": {}, ".debug": False}
        fns_ = {k_: v_ for k_, v_ in helper_functions(root, rel, "TextXMetaModel.__getitem__").items() if k_ != "__getitem__"}
        env = {gi.args.args[1].arg: name, gi.args.args[0].arg: self_, "__functions__": fns_}
        if not any(k_ == "_current_namespace" for k_ in fns_): env["self._current_namespace"] = cur
        try: return pyeval.run_block(gi.body, env)
        except pyeval.Raised as r: return "raise " + r.cls
    try: got = [lookup("A"), lookup("B"), lookup("C"), lookup("D"), lookup("imp2.B")]
    except pyeval.Unsupported as e: raise AnalysisError("TextXMetaModel.__getitem__: %s" % e)
    want = ["cur.A", "imp1.B", "imp2.C", "raise KeyError", "imp2.B"]
    if got != want:
        out.append(Finding("C25", "C25.a", rel, "TextXMetaModel.__getitem__", "lookup of A, B, C, D, imp2.B -> %s" % got, "name lookup on a sample metamodel (current namespace {A}, imports [{A,B}, {B,C}]) yields %s, documented order (current namespace, then imports in import order, qualified names directly) gives %s" % (got, want)))
    # C25.o  the sibling readers of the namespaces agree: `name in metamodel` holds exactly when metamodel[name] finds a class, and iterating
    # the meta-model yields every class of the current namespace and of the namespaces it imports (base types first among the imports)
    ci = find_i(root, rel, "TextXMetaModel.__contains__"); ii = find_i(root, rel, "TextXMetaModel.__iter__")
    base = {"INT": "base.INT", "ID": "base.ID"}; cur2 = {"A": "cur.A", "INT": "cur.INT"}; other = {"Z": "other.Z", "A": "other.A"}; nested = {"Q": "pkg.sub.Q"}
    def self2():
        return {".kind": "metamodel", "._namespace_stack": ["cur"], "._imported_namespaces": {"cur": [base, imp1, imp2], "other": [base], "pkg.sub": [base]}, ".namespaces": {"__base__": base, "cur": cur2, "imp1": imp1, "imp2": imp2, "other": other, "pkg.sub": nested}, ".referenced_languages": {}, ".debug": False}
    def fns_of(q):
        f_ = dict(helper_functions(root, rel, q)); f_["__getitem__"] = gi
        f_.pop(q.split(".")[-1], None); return f_
    names = ["A", "INT", "ID", "B", "C", "D", "Z", "Q", "imp2.B", "imp2.D", "other.Z", "other.B", "pkg.sub.Q", "pkg.sub.Z", "nope.A", "pkg.Q"]
    try:
        for nm in names:
            inst += 1
            s2 = self2(); env = {gi.args.args[1].arg: nm, gi.args.args[0].arg: s2, "__functions__": fns_of("TextXMetaModel.__getitem__")}
            try: found = ("found", pyeval.run_block(gi.body, env))
            except pyeval.Raised as r: found = ("raise", r.cls)
            s2 = self2(); env = {ci.args.args[1].arg: nm, ci.args.args[0].arg: s2, "__functions__": fns_of("TextXMetaModel.__contains__")}
            try: has = ("ret", pyeval.run_block(ci.body, env))
            except pyeval.Raised as r: has = ("raise", r.cls)
            okc = has[0] == "ret" and isinstance(has[1], bool) and has[1] == (found[0] == "found")
            ob("C25", "C25.o", rel, "TextXMetaModel.__contains__", "%r in metamodel" % nm, okc)
            if not okc:
                out.append(Finding("C25", "C25.o", rel, "TextXMetaModel.__contains__", "%r in metamodel" % nm, "on a sample meta-model (current namespace {A, INT}, imports [base types, {A,B}, {B,C}], two more grammar files `other` {Z,A} and `pkg.sub` {Q} that the current file does not import) `%r in metamodel` %s while metamodel[%r] %s: the existence test that guards every lookup in the grammar compiler disagrees with the lookup (an unknown rule is then a bare KeyError, or a known one is reported unknown)" % (nm, "is %r" % (has[1],) if has[0] == "ret" else "raises " + str(has[1]), nm, "finds " + str(found[1]) if found[0] == "found" else "raises " + str(found[1]))))
        inst += 1
        s2 = self2(); env = {ii.args.args[0].arg: s2, "__functions__": fns_of("TextXMetaModel.__iter__")}
        try: got_it = ("ret", list(pyeval._gen_call(ii.body, env)) if pyeval._own_yield0(ii) else list(pyeval.run_block(ii.body, env)))
        except pyeval.Raised as r: got_it = ("raise", r.cls)
    except pyeval.Unsupported as e: raise AnalysisError("TextXMetaModel.__contains__ / __iter__: outside the evaluated subset: %s" % e)
    want_it = sorted(list(cur2.values()) + list(base.values()) + list(imp1.values()) + list(imp2.values()))
    visible = {"cur.A", "cur.INT", "base.ID", "imp1.B", "imp2.C"}      # what a lookup by simple name can find; classes shadowed by a nearer namespace may or may not be yielded
    okc = got_it[0] == "ret" and visible <= set(got_it[1]) <= set(want_it)
    ob("C25", "C25.o", rel, "TextXMetaModel.__iter__", "classes yielded by iterating the meta-model", okc)
    if not okc:
        out.append(Finding("C25", "C25.o", rel, "TextXMetaModel.__iter__", "classes yielded by iterating the meta-model", "iterating the sample meta-model (current namespace {A, INT - a grammar rule named like a base type}, imports [base types, {A,B}, {B,C}]) %s; documented: every class of the current namespace and of its imported namespaces %s (the rule-kind and class-reference passes of the grammar compiler visit the classes this way)" % ("yields %s" % (sorted(got_it[1]),) if got_it[0] == "ret" else "raises " + str(got_it[1]), want_it)))
    ni = find_i(root, rel, "TextXMetaModel._new_import"); inst += 3
    load_call = next((c for c in calls(ni) if callee_name(c) == "metamodel_from_file"), None)
    if load_call is None: raise AnalysisError("import load call not found")
    g_at = [(a.replace(" ", ""), pol) for a, pol in sem.info(ni).atoms_at(load_call)]
    if not any(a.endswith("inself.namespaces") and not pol for a, pol in g_at): out.append(Finding("C25", "C25.b", rel, "TextXMetaModel._new_import", ast.unparse(stmt_of(load_call)), "grammar file is (re)loaded without the import-once guard"))
    fi_ni = sem.info(ni); cfg_ni = fi_ni.cfg
    # the namespace is registered (a call of _enter_namespace, or — when that helper is inlined — its store into self.namespaces)
    # on every path before the file of the import is loaded
    # helpers of the class that enter the namespace before they hand control back (a context manager: _enter_namespace before its first yield)
    tmod_ = load(root, rel); enter_names = {"_enter_namespace"}
    for f_ in [x for x in ast.walk(tmod_) if isinstance(x, ast.FunctionDef)]:
        first_yield = min([y.lineno for y in ast.walk(f_) if isinstance(y, (ast.Yield, ast.YieldFrom))] or [10 ** 9])
        if f_.name != "_new_import" and any(isinstance(c, ast.Call) and callee_name(c) == "_enter_namespace" and c.lineno < first_yield and not any(isinstance(a_, (ast.If, ast.Try, ast.For, ast.While)) for a_ in ancestors(c) if a_ is not f_ and isinstance(a_, ast.stmt)) for c in ast.walk(f_)): enter_names.add(f_.name)
    def _with_heads(n_):
        a_ = n_.ast
        return [i_.context_expr for i_ in a_.items] if isinstance(a_, ast.With) else []
    regn = [n for n in cfg_ni.nodes if n.ast is not None and ((isinstance(n.ast, ast.With) and any(isinstance(h_, ast.Call) and callee_name(h_) in enter_names for h_ in _with_heads(n))) or (isinstance(n.ast, ast.withitem) and isinstance(n.ast.context_expr, ast.Call) and callee_name(n.ast.context_expr) in enter_names))] + [n for n in cfg_ni.nodes if n.ast is not None and n.kind in ("stmt",) and (any(callee_name(c) in enter_names for c in calls(n.ast)) or (isinstance(n.ast, ast.Assign) and any(isinstance(tg, ast.Subscript) and ast.unparse(tg.value) == "self.namespaces" for tg in n.ast.targets)))]
    ln = fi_ni.node_of(load_call)
    if not regn or ln is None or cfg_ni.paths_avoiding_consistent(cfg_ni.entry, ln, lambda m: m in regn) is not None:
        out.append(Finding("C25", "C25.b", rel, "TextXMetaModel._new_import", ast.unparse(stmt_of(load_call)), "namespace not registered before loading (import cycles would recurse)"))
    fi = sem.info(ni)
    reg = [c for c in calls(ni) if isinstance(c.func, ast.Attribute) and c.func.attr in ("append", "insert", "extend", "appendleft") and "_imported_namespaces" in fi.text(c.func.value, at=c)]
    if not reg or any(c.func.attr != "append" for c in reg): out.append(Finding("C25", "C25.c", rel, "TextXMetaModel._new_import", ast.unparse(reg[0]) if reg else "", "imported namespace is not appended in import order"))
    # C25.d (qualified class name) is decided by evaluation of _init_class: sa/rules/cmeta.py
    return inst, out
ALL = [r_C26a, r_C26bcdef, r_C21a, r_C04, r_C25]
if __name__ == "__main__":
    from sa import util
    for root in sys.argv[1:] or ["/repo"]:
        print("=====", root); util._cache.clear()
        for r in ALL:
            try:
                inst, fs = r(root); print("%-10s instances=%-3d findings=%d" % (r.__name__, inst, len(fs)))
                for f in fs: print("     ", f)
            except AnalysisError as e: print(r.__name__, "ANALYSIS-ERROR", e)
