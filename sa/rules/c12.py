"""C12.b  every literal a printer (__repr__ of an RREL node class) emits can be segmented into terminals of the RREL
          grammar (string terminals of the rrel_* grammar functions and the literal characters of their regex tokens):
          a printer cannot emit punctuation the parser does not know.
   C12.e  fixed names round-trip, decided by abstract evaluation (sa/pyeval.py; nothing of textX runs) on EVERY word of
          the string_value token language up to length 5 over the alphabet {a, backslash, ', "} (enumerated from the two
          regex automata, sa/rx.py):  v = visit_string_value(w);  s = RRELNavigation.__repr__ with fixed_name = v;  the
          literal in front of '~' is again a word of the token language and visit_string_value gives v back."""
import ast, itertools
import re._parser as sre, re._constants as sc
from sa.util import *
from sa import rx, pyeval
R = "textx/scoping/rrel.py"; L = "textx/lang.py"
def _regex_literals(pat):
    out = set()
    def w(items):
        for op, av in items:
            if op is sc.LITERAL: out.add(chr(av))
            elif op is sc.IN:
                for o2, a2 in av:
                    if o2 is sc.LITERAL: out.add(chr(a2))
            elif op is sc.SUBPATTERN: w(list(av[3]))
            elif op is sc.BRANCH:
                for br in av[1]: w(list(br))
            elif op in (sc.MAX_REPEAT, sc.MIN_REPEAT): w(list(av[2]))
    try: w(list(sre.parse(pat)))
    except Exception: pass
    return out
def _grammar_terminals(root):
    t = load(root, R); G = set()
    for fn in t.body:
        if isinstance(fn, ast.FunctionDef) and fn.name.startswith("rrel_"):
            for n in ast.walk(fn):
                if isinstance(n, ast.Call) and getattr(n.func, "id", "") in ("_", "RegExMatch") and n.args:
                    pat_ = n.args[0].value if isinstance(n.args[0], ast.Constant) else const_str(n.args[0], t)
                    if not isinstance(pat_, str): raise AnalysisError("%s: the regex of a terminal is not a constant string: %s" % (fn.name, ast.unparse(n)[:60]))
                    G |= _regex_literals(pat_)
            regex_args = {id(n.args[0]) for n in ast.walk(fn) if isinstance(n, ast.Call) and getattr(n.func, "id", "") in ("_", "RegExMatch") and n.args}
            for n in ast.walk(fn):          # a literal of the grammar written as a module-level constant (PATH_UP = "^")
                if isinstance(n, ast.Name) and isinstance(n.ctx, ast.Load) and id(n) not in regex_args:
                    v_ = const_str(n, t)
                    if isinstance(v_, str) and v_ and not any(isinstance(x, ast.FunctionDef) and x.name == n.id for x in t.body): G.add(v_)
            for n in ast.walk(fn):
                if isinstance(n, ast.Constant) and isinstance(n.value, str) and id(n) not in regex_args and n.value: G.add(n.value)
    return G
def _string_value_patterns(root):
    lang = load(root, L); fn = find(lang, "string_value"); pats = []
    for n in ast.walk(fn):
        if isinstance(n, ast.Call) and getattr(n.func, "id", "") in ("_", "RegExMatch") and n.args:
            p = const_str(n.args[0], lang)
            if p is None: raise AnalysisError("string_value: pattern is not a constant string")
            pats.append(p)
    if not pats: raise AnalysisError("string_value: no regex alternative found")
    return pats
def _accepts(nfa, w):
    S = nfa.closure({nfa.start})
    for ch in w:
        S = nfa.step(S, ch)
        if not S: return False
    return nfa.accept in S
def _segmentable(s, G):
    s = s.replace(" ", "")
    ok = [True] + [False] * len(s)
    for i in range(len(s)):
        if not ok[i]: continue
        for g in G:
            if g and s.startswith(g, i): ok[i + len(g)] = True
    return ok[len(s)]
def r_C12b(root):
    out = []; inst = 0
    t = load(root, R); G = _grammar_terminals(root) | {"'", '"'}          # quotes: delimiters of string_value (lang.py)
    if not {"~", "(", ")", "*", ",", ".", "^", "parent"} <= G: raise AnalysisError("RREL grammar terminals not found (got %s)" % sorted(G))
    for cls in [c for c in t.body if isinstance(c, ast.ClassDef) and c.name.startswith("RREL")]:
        rep = next((f for f in cls.body if isinstance(f, ast.FunctionDef) and f.name == "__repr__"), None)
        if rep is None: continue
        for n in ast.walk(rep):
            if isinstance(n, ast.Constant) and isinstance(n.value, str) and n.value.strip():
                par = getattr(n, "_parent", None)
                if isinstance(par, ast.Expr): continue                                  # docstring
                if isinstance(par, ast.Assert) or any(isinstance(a, ast.Assert) for a in ancestors(n)): continue
                if isinstance(par, ast.Compare) or (isinstance(par, (ast.Tuple, ast.List)) and isinstance(getattr(par, "_parent", None), ast.Compare)): continue   # compared with, not emitted
                if isinstance(par, ast.Call) and callee_name(par) in ("replace", "startswith", "endswith", "hasattr", "getattr") : continue      # searched for, not emitted
                inst += 1
                lit = n.value.replace("{}", "").replace("%s", "")
                ok = _segmentable(lit, G)
                ob("C12", "C12.b", R, cls.name + ".__repr__", "literal %r is made of grammar terminals" % n.value, ok)
                if not ok: out.append(Finding("C12", "C12.b", R, cls.name + ".__repr__", repr(n.value), "the printer emits %r, which is not made of terminals of the RREL grammar %s: the printed expression does not re-parse" % (n.value, sorted(G))))
    if inst < 8: raise AnalysisError("RREL printers: only %d emitted literals found" % inst)
    # ---- C12.e
    pats = _string_value_patterns(root); nfas = [rx.Nfa(p) for p in pats]
    vis = find_i(root, R, "RRELVisitor.visit_string_value"); rep = find_i(root, R, "RRELNavigation.__repr__")
    fns_rep = {k_: v_ for k_, v_ in helper_functions(root, R, "RRELNavigation.__repr__").items() if not k_.startswith("__")}
    words = []
    from sa import util as _u
    for n in range(2, 7 if _u.TIER == "thorough" else 6):
        for tup in itertools.product("a\\'\"", repeat=n):
            w = "".join(tup)
            if any(_accepts(a, w) for a in nfas): words.append(w)
    if len(words) < 50: raise AnalysisError("string_value language: only %d words enumerated" % len(words))
    def visit(w):
        return pyeval.run_block(vis.body, {"node.value": w, "children": []})
    from sa.rules.c12e import rrel_builder
    cds_, benv_, _build, _ps = rrel_builder(root)
    vis_ = pyeval.Inst({".__cls__": "RRELVisitor", ".debug": False})
    def nav_of(fixed):
        """the navigation  <literal>~n  as the visitor builds it (constructor interpreted) from the value of the literal"""
        c_, f_ = pyeval.find_method(cds_, "RRELVisitor", "visit_rrel_navigation")
        if f_ is None: raise AnalysisError("RRELVisitor.visit_rrel_navigation not found")
        return pyeval.call_method_of(vis_, c_, f_, [{".kind": "node", ".value": "", ".position": 0}, pyeval.SList([fixed, "n"], results={"string_value": [fixed], "rrel_id": ["n"]})], {}, benv_)
    bad = None; n_ok = 0
    for w in words:
        try:
            v = visit(w)
            nav = nav_of(v)
            s = pyeval.text_of(nav, benv_)
            if not (isinstance(s, str) and s.endswith("~n")): bad = (w, "printed form %r does not end in the navigation ~n" % (s,)); break
            lit = s[:-2]
            if not any(_accepts(a, lit) for a in nfas): bad = (w, "the literal %s is read as the name %r and printed as %s, which is not a string literal of the grammar" % (w, nav.get(".fixed_name"), lit)); break
            v2 = visit(lit); nav2 = nav_of(v2)
            if nav2.get(".fixed_name") != nav.get(".fixed_name"): bad = (w, "the literal %s is read as the name %r, printed as %s and read back as %r" % (w, nav.get(".fixed_name"), lit, nav2.get(".fixed_name"))); break
            n_ok += 1
        except pyeval.Unsupported as e: raise AnalysisError("fixed-name round trip: outside the evaluated subset: %s" % e)
        except pyeval.Raised as e: bad = (w, "printing raises %s" % e.cls); break
    # the grammar visitor (textx/lang.py) reads the literals of RREL expressions written in a grammar; where it defines
    # visit_string_value itself it must read every literal as the standalone RREL parser does
    lt = load(root, L); tv = next((c for c in lt.body if isinstance(c, ast.ClassDef) and c.name == "TextXVisitor"), None)
    own = next((f for f in tv.body if isinstance(f, ast.FunctionDef) and f.name == "visit_string_value"), None) if tv is not None else None
    bad2 = None
    if own is not None:
        fns_l = {k_: v_ for k_, v_ in helper_functions(root, L, "TextXVisitor.visit_string_value").items() if not k_.startswith("__") and not k_.startswith("visit_")}
        # the comparison also covers literals with the letters n and t after a backslash (escape sequences neither reader decodes)
        words2 = list(words)
        for n_ in range(2, 6):
            for tup in itertools.product("a\\'\"nt", repeat=n_):
                w_ = "".join(tup)
                if ("n" in w_ or "t" in w_) and any(_accepts(a, w_) for a in nfas): words2.append(w_)
        for w in words2:
            try: a_ = visit(w); b_ = pyeval.run_block(own.body, {"__functions__": fns_l, "__module__": lt, "node.value": w, "node": {".value": w, ".kind": "node"}, "children": [], "self": {".kind": "visitor"}})
            except pyeval.Unsupported as e: raise AnalysisError("TextXVisitor.visit_string_value: outside the evaluated subset: %s" % e)
            except pyeval.Raised as e: bad2 = (w, "raises %s" % e.cls); break
            if a_ != b_: bad2 = (w, "is read as %r by the grammar visitor and as %r by the RREL parser" % (b_, a_)); break
    inst += 1
    for pr in ("C32", "C12"): ob(pr, "C12.e", L, "TextXVisitor.visit_string_value / RRELVisitor.visit_string_value", "both visitors read every string literal alike (%d literals)" % (len(words2) if own is not None else 0), bad2 is None)
    if bad2:
        for pr in ("C32", "C12"): out.append(Finding(pr, "C12.e", L, "TextXVisitor.visit_string_value", "string literal %s" % bad2[0], "the literal %s %s: an RREL expression written in a grammar and the same expression registered as a string select different objects" % bad2, witness="ref=[T|ID|'a\\'b'~items] in the grammar vs. rrel.parse of the same text"))
    inst += len(words)
    ob("C12", "C12.e", R, "RRELVisitor.visit_string_value / RRELNavigation.__repr__", "fixed names round-trip for %d of %d literals up to length %d" % (n_ok, len(words), 6 if _u.TIER == "thorough" else 5), bad is None)
    if bad: out.append(Finding("C12", "C12.e", R, "RRELNavigation.__repr__", "fixed-name literal %s" % bad[0], bad[1] + ": the printed expression does not re-parse to an equivalent expression", witness="%s~a" % bad[0]))
    return inst, out

def r_C12f(root):
    """C12.f / C11.f  small RREL functions decided by evaluation (sa/pyeval.py):
         RRELBrackets.__repr__          '(' + printed content + ')' whatever the content looks like (also when it starts and ends with a bracket);
         RRELVisitor.visit_rrel_navigation  'fixed'~name -> (name, no consume, fixed) decided by the presence of a string_value child, never by the
                                        child's text ('~'~name has the fixed name '~'); ~name -> (name, no consume, None); name -> (name, consume, None);
         RRELSequence.start_locally / start_at_root   true iff some alternative starts there."""
    out = []; inst = 0
    t = load(root, R)
    def run(q, env):
        fn = find_i(root, R, q)
        try: return ("ret", pyeval.run_block(fn.body, env))
        except pyeval.Raised as r: return ("raise", r.cls)
        except pyeval.Unsupported as u: raise AnalysisError("%s: outside the evaluated subset: %s" % (q, u))
    for content in ("a", "a.b,c", "(a).(b)", "(a)", "(..)*.x"):
        inst += 1
        k, v = run("RRELBrackets.__repr__", {"self.seq": content})
        ok = k == "ret" and v == "(" + content + ")"
        ob("C12", "C12.f", R, "RRELBrackets.__repr__", "content %r -> %r" % (content, v), ok)
        if not ok: out.append(Finding("C12", "C12.f", R, "RRELBrackets.__repr__", "content %r" % content, "a bracket group with content %s prints as %s, not as (%s): the printed expression groups differently when re-parsed (a following * binds to the last inner group only)" % (content, v, content), witness="((packages).(packages))*.classes"))
    nav = pyeval.PyFn(lambda *a: ("nav",) + tuple(a))
    for children, results, want in ((["~", "n"], {"string_value": ["~"]}, ("nav", "n", False, "~")), (["fix", "n"], {"string_value": ["fix"]}, ("nav", "n", False, "fix")), (["", "n"], {"string_value": [""]}, ("nav", "n", False, "")),
                                    (["~", "n"], {}, ("nav", "n", False, None)), (["n"], {}, ("nav", "n", True, None))):
        inst += 1
        k, v = run("RRELVisitor.visit_rrel_navigation", {"children": list(children), "children.results": results, "node": {".kind": "node"}, "RRELNavigation": nav})
        ok = k == "ret" and tuple(v) == want
        for pr in ("C12", "C11"): ob(pr, "C12.f", R, "RRELVisitor.visit_rrel_navigation", "children %s%s -> %s" % (children, " with a string literal" if results else "", v), ok)
        if not ok:
            for pr in ("C12", "C11"): out.append(Finding(pr, "C12.f", R, "RRELVisitor.visit_rrel_navigation", "children %s%s" % (children, " (first child is a string literal)" if results else ""), "the navigation is built as %s, documented %s" % (v, want), witness="'~'~sections"))
    for q in ("RRELSequence.start_locally", "RRELSequence.start_at_root"):
        meth = q.split(".")[-1]
        for flags in ((False, False), (True, False), (False, True), (False, False, True), ()):
            inst += 1
            paths = [{"." + meth: pyeval.PyFn(lambda f=f: f), ".start_locally": pyeval.PyFn(lambda f=f: f), ".start_at_root": pyeval.PyFn(lambda f=f: f)} for f in flags]
            k, v = run(q, {"self.paths": paths})
            ok = k == "ret" and bool(v) == any(flags)
            ob("C11", "C12.f", R, q, "alternatives %s -> %s" % (list(flags), v), ok)
            if not ok: out.append(Finding("C11", "C12.f", R, q, "alternatives start there: %s" % (list(flags),), "%s answers %s for alternatives %s; an expression starts %s iff one of its alternatives does" % (meth, v, list(flags), "locally" if "locally" in meth else "at the root"), witness="(~packages,..)*.funcs"))
    return inst, out
