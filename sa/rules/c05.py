"""Navigation API and selectors: present-but-falsy model values must not be treated as absent, the start object is
not its own parent, type arguments are normalised the way they are compared.

   C05.c  get_children.follow: the single-valued descent is guarded by a None-test of the child, not by its truth value
          (a user class with __len__/__bool__ can be falsy: it and its subtree would vanish from every walk)
   C05.d  get_parent_of_type: the climb to .parent precedes the type test on every path to the success return
          (the start object is excluded), and only .parent is climbed
   C05.e  get_children_of_type / get_parent_of_type: a class argument is normalised with the same projection the
          selector compares (__name__  <->  __class__.__name__)
   C07.c  PlainName: the selector's conjuncts are existence test, name equality and type conformance — no conjunct
          tests the truth value of the name (an object named 0 / '' must be found); the depth-first link-rule search
          returns a found object by None-test, not by truth value
   C12.c  RREL printers/evaluators distinguish 'no fixed name' from an empty fixed name by None-test"""
import ast
from sa.util import *
from sa import sem
M = "textx/model.py"; P = "textx/scoping/providers.py"; R = "textx/scoping/rrel.py"
def _u(e): return ast.unparse(e).replace(" ", "")
def r_C05cde(root):
    out = []; inst = 0
    t = load(root, M)
    # ---- C05.c
    fol = find(t, "get_children.follow"); fi = sem.info(fol)
    desc = [c for c in calls(fol, own=True) if callee_name(c) == "follow" and c.args]
    if not desc: raise AnalysisError("get_children.follow: no recursive descent found")
    for c in desc:
        arg = c.args[0]
        if not isinstance(arg, ast.Name): raise AnalysisError("descent argument is not a plain name: " + ast.unparse(c))
        inst += 1; okc = True
        for g, pol in fi.guards(c):
            def bare(tst):
                if isinstance(tst, ast.BoolOp): return any(bare(v) for v in tst.values)
                if isinstance(tst, ast.UnaryOp) and isinstance(tst.op, ast.Not): return bare(tst.operand)
                return isinstance(tst, ast.Name) and tst.id == arg.id
            if bare(g):
                okc = False
                out.append(Finding("C05", "C05.c", M, "get_children.follow", ast.unparse(g), "the descent into a contained child is guarded by the child's truth value: a child object that is falsy (user class defining __len__ or __bool__) is skipped together with its whole subtree", witness="user class Block with __len__ returning 0 held in a single-valued containment attribute"))
        # single-valued children must be None-tested (getattr of an optional containment attribute may be None)
        ob("C05", "C05.c", M, "get_children.follow", ast.unparse(c), okc)
    # ---- C05.d
    gp = find_i(root, M, "get_parent_of_type"); fig = sem.info(gp); cfg = fig.cfg
    loop = next((n for n in gp.body if isinstance(n, (ast.While, ast.For))), None)
    if loop is None: raise AnalysisError("get_parent_of_type: loop not found")
    pname = gp.args.args[1].arg
    rets = [n for n in cfg.nodes if n.kind == "return" and n.ast.value is not None and not (isinstance(n.ast.value, ast.Constant) and n.ast.value.value is None)]
    # the cursor: the variable that is returned on success (the parameter itself, or a local initialised from it)
    cur = next((n.ast.value.id for n in rets if isinstance(n.ast.value, ast.Name)), pname)
    def _assigns(n): return n.kind == "stmt" and isinstance(n.ast, ast.Assign) and any(isinstance(x, ast.Name) and x.id == cur for x in n.ast.targets)
    climbs = [n for n in cfg.nodes if _assigns(n) and _u(n.ast.value) in (cur + ".parent", "getattr(%s,'parent',None)" % cur, "getattr(%s,'parent')" % cur)]
    inits = [n for n in cfg.nodes if _assigns(n) and cur != pname and _u(n.ast.value) == pname]
    if not climbs or not rets: raise AnalysisError("get_parent_of_type: climb/return not found")
    inst += 1
    bad = None
    for r in rets:
        p = cfg.paths_avoiding(cfg.entry, r, lambda n: n in climbs)
        if p is not None: bad = r
    ob("C05", "C05.d", M, "get_parent_of_type", "climb precedes every success return", bad is None)
    if bad is not None: out.append(Finding("C05", "C05.d", M, "get_parent_of_type", ast.unparse(bad.ast), "the start object itself can be returned: the type test is reachable before the first step to .parent", witness="Package inside Package, get_parent_of_type('Package', inner)"))
    other = [n for n in cfg.nodes if _assigns(n) and n not in climbs and n not in inits]
    inst += 1
    ob("C05", "C05.d", M, "get_parent_of_type", "only .parent is climbed", not other)
    for n in other: out.append(Finding("C05", "C05.d", M, "get_parent_of_type", ast.unparse(n.ast), "the search moves along something else than the parent link"))
    # ---- C05.e  the name a class argument is converted to is the name the selector compares objects by
    for q in ("get_parent_of_type", "get_children_of_type"):
        fn = find_i(root, M, q); tn = fn.args.args[0].arg; inst += 1
        def proj_obj(e):
            u = _u(e)
            if u.endswith(".__class__.__name__") or (u.startswith("type(") and u.endswith(").__name__")): return "__name__"
            if u.endswith("._tx_fqn") or u.endswith(".__class__._tx_fqn"): return "_tx_fqn"
            return None
        # comparisons of an object's class name with the type key (a name: the parameter or a local derived from it)
        cmps = []
        for n in ast.walk(fn):
            if isinstance(n, ast.Compare) and len(n.ops) == 1 and isinstance(n.ops[0], (ast.Eq, ast.NotEq)):
                l, r = n.left, n.comparators[0]
                for a, b in ((l, r), (r, l)):
                    if isinstance(b, ast.Name) and not isinstance(a, ast.Name): cmps.append((n, a, b.id))
        cmps = [(n, a, k) for n, a, k in cmps if k == tn or any(isinstance(d, ast.Assign) and any(isinstance(x, ast.Name) and x.id == k for x in d.targets) and tn in {y.id for y in ast.walk(d.value) if isinstance(y, ast.Name)} for d in ast.walk(fn))]
        if not cmps: raise AnalysisError("%s: type comparison not found" % q)
        key = cmps[0][2]
        sides = [proj_obj(a) or ("?" + _u(a)) for _n, a, _k in cmps]
        # how a class argument becomes the key: assignments to the key, the non-identity branches of conditional expressions
        projs = []
        for d in own_nodes(fn):
            if isinstance(d, ast.Assign) and any(isinstance(x, ast.Name) and x.id == key for x in d.targets):
                vals = [d.value.body, d.value.orelse] if isinstance(d.value, ast.IfExp) else [d.value]
                for v in vals:
                    if isinstance(v, ast.Name) and v.id == tn: continue
                    u = _u(v)
                    projs.append((d, "__name__" if u == tn + ".__name__" else ("_tx_fqn" if u.endswith("._tx_fqn") and "getattr" not in u else "?" + u)))
        okc = True
        for d, pr in projs:
            if any(s_ != pr for s_ in sides):
                okc = False
                out.append(Finding("C05", "C05.e", M, q, ast.unparse(d), "a class argument is normalised to %s but objects are compared by %s: for classes whose two names differ (grammar loaded from a file / imported grammar) nothing is found" % (pr.lstrip("?"), sorted(set(sides))[0].lstrip("?")), witness="grammar loaded from a file: get_children_of_type(mm['Rule'], model)"))
        if not projs:
            okc = False; out.append(Finding("C05", "C05.e", M, q, tn, "a class passed as type argument is never converted to the name the selector compares"))
        ob("C05", "C05.e", M, q, "type argument normalisation vs selector projection", okc)
    return inst, out
def r_C07c(root):
    out = []; inst = 0
    t = load(root, P); fn = find(t, "PlainName.__call__")
    sel = next((c for c in calls(fn) if callee_name(c) == "get_children" and c.args and isinstance(c.args[0], ast.Lambda)), None)
    if sel is None: raise AnalysisError("PlainName: selector lambda not found")
    lam = sel.args[0]; x = lam.args.args[0].arg
    conj = lam.body.values if isinstance(lam.body, ast.BoolOp) and isinstance(lam.body.op, ast.And) else [lam.body]
    kinds = []
    for c in conj:
        u = _u(c); inst += 1
        if u in ("hasattr(%s,'name')" % x,): k = "exists"
        elif isinstance(c, ast.Compare) and len(c.ops) == 1 and isinstance(c.ops[0], ast.Eq) and "obj_ref.obj_name" in u and ("%s.name" % x in u or "getattr(%s,'name'" % x in u): k = "name-eq"
        elif u.startswith("textx_isinstance(%s,obj_ref.cls" % x): k = "conforms"
        elif isinstance(c, ast.Compare) and isinstance(c.ops[0], (ast.Is, ast.IsNot)) and "name" in u: k = "exists"
        else: k = None
        ob("C07", "C07.c", P, "PlainName.__call__", ast.unparse(c), k is not None)
        if k is None:
            out.append(Finding("C07", "C07.c", P, "PlainName.__call__", ast.unparse(c), "the selector has a conjunct that is not one of existence test / name equality / type conformance; a truth-value test of the name hides objects whose name is 0 or empty", witness="name=INT, object named 0, reference [Slot|INT] to 0"))
        kinds.append(k)
    inst += 1
    if "name-eq" not in kinds or "conforms" not in kinds:
        out.append(Finding("C07", "C07.c", P, "PlainName.__call__", ast.unparse(lam.body)[:120], "selector lacks %s" % ("name equality" if "name-eq" not in kinds else "type conformance")))
    # depth-first link-rule search: found objects are returned by None-test
    inner = find(t, "PlainName.__call__._inner_resolve_link_rule_ref")
    for e in truth_uses(inner, lambda e: isinstance(e, ast.Name) and e.id == "result"):
        inst += 1
        ob("C07", "C07.c", P, "_inner_resolve_link_rule_ref", ast.unparse(e), False)
        out.append(Finding("C07", "C07.c", P, "_inner_resolve_link_rule_ref", "if %s: return %s" % (ast.unparse(e), ast.unparse(e)), "an object found for an inheriting class is returned only if it is truthy: a matching object that is falsy (user class defining __len__/__bool__) is skipped and the reference fails with 'Unknown object'", witness="abstract rule + user class with __len__ == 0"))
    return inst, out
def r_C12c(root):
    out = []; inst = 0
    t = load(root, R)
    for q in ("RRELNavigation.__repr__", "RRELNavigation.apply", "RRELNavigation.start_locally", "RRELNavigation.start_at_root"):
        try: fn = find(t, q)
        except AnalysisError: continue
        uses = [n for n in ast.walk(fn) if isinstance(n, ast.Attribute) and n.attr == "fixed_name"]
        if not uses: continue
        inst += 1
        bad = []
        for sub in [fn] + [n for n in ast.walk(fn) if isinstance(n, (ast.FunctionDef, ast.Lambda)) and n is not fn]:
            bad += truth_uses(sub, lambda e: isinstance(e, ast.Attribute) and e.attr == "fixed_name")
        ob("C12", "C12.c", R, q, "fixed_name tested by None-test", not bad)
        for e in bad:
            out.append(Finding("C12", "C12.c", R, q, ast.unparse(e), "an empty fixed name ('' ~ x) is treated like no fixed name: it is dropped when printing / ignored when evaluating", witness="''~packages"))
    if inst == 0: raise AnalysisError("RRELNavigation: no use of fixed_name found")
    return inst, out
# ---------------------------------------------------------------------------------------------------------------
RESOLVERS = {"scope_provider": None, "_find_obj_fqn": None, "find_obj": None, "_inner_resolve_link_rule_ref": None, "_find_referenced_obj": None, "lookup": 0, "find": None, "find_object_with_path": 0, "default_scope": None}
SITES = {   # (file, function) -> (property, clause)
    (P, "FQN.__call__._find_referenced_obj"): ("C10", "C10.d"), (P, "FQN.__call__._find_obj_fqn"): ("C10", "C10.d"), (P, "FQN.__call__._find_obj_fqn.find_obj"): ("C10", "C10.d"),
    (P, "ImportURI.__call__"): ("C17", "C17.e"), (P, "PlainName.__call__._inner_resolve_link_rule_ref"): ("C07", "C07.c"),
    (R, "RRELNavigation.apply"): ("C11", "C11.c"), (R, "find_object_with_path"): ("C11", "C11.c"), (R, "find"): ("C11", "C11.c"),
}
def r_none_tests(root):
    """a value returned by a resolver ('None or the found object') is tested with `is None` / `is not None`, never for truth:
    a found object may be falsy (user class with __len__/__bool__, a match-rule value 0 or '')"""
    out = []; inst = 0
    for (rel, q), (prop, clause) in SITES.items():
        fn = find(load(root, rel), q)
        rv = {}
        for n in own_nodes(fn):
            if isinstance(n, ast.Assign) and isinstance(n.value, ast.Call) and callee_name(n.value) in RESOLVERS:
                idx = RESOLVERS[callee_name(n.value)]
                for tg in n.targets:
                    if isinstance(tg, ast.Name) and idx is None: rv[tg.id] = callee_name(n.value)
                    elif isinstance(tg, (ast.Tuple, ast.List)) and idx is not None and isinstance(tg.elts[idx], ast.Name): rv[tg.elts[idx].id] = callee_name(n.value)
        for var, src in sorted(rv.items()):
            inst += 1
            bad = truth_uses(fn, lambda e: isinstance(e, ast.Name) and e.id == var)
            ob(prop, clause, rel, q, "result of %s() bound to %s: tested by None-test" % (src, var), not bad)
            for e in bad:
                out.append(Finding(prop, clause, rel, q, "truth test of %s (= %s(...))" % (var, src), "a found object is treated as 'not found' when it is falsy (user class defining __len__ or __bool__): the search goes on in outer scopes / other models and the reference binds elsewhere or fails", witness="user class Package with __len__ counting its (zero) children"))
    if inst < 5: raise AnalysisError("resolver result sites: only %d found" % inst)
    return inst, out
