"""Navigation API and selectors: present-but-falsy model values must not be treated as absent, the start object is
not its own parent, type arguments are normalised the way they are compared.

   C05.c  get_children.follow: the single-valued descent is guarded by a None-test of the child, not by its truth value
          (a user class with __len__/__bool__ can be falsy: it and its subtree would vanish from every walk)
   C05.d  get_parent_of_type: the climb to .parent precedes the type test on every path to the success return
          (the start object is excluded), and only .parent is climbed
   C05.e  get_children_of_type / get_parent_of_type: a class argument is normalised with the same projection the
          selector compares (__name__  <->  __class__.__name__)
   C07.c  PlainName: the selector's conjuncts are existence test, name equality and type conformance — no conjunct
          tests the truth value of the name (an object named 0 / '' must be found); the depth-first link-rule search
          returns a found object by None-test, not by truth value
   C12.c  RREL printers/evaluators distinguish 'no fixed name' from an empty fixed name by None-test"""
import ast
from sa.util import *
from sa import sem
M = "textx/model.py"; P = "textx/scoping/providers.py"; R = "textx/scoping/rrel.py"
def _u(e): return ast.unparse(e).replace(" ", "")
def r_C05cde(root):
    out = []; inst = 0
    t = load(root, M)
    # ---- C05.c
    fol = find(t, "get_children.follow"); fi = sem.info(fol)
    desc = [c for c in calls(fol, own=True) if callee_name(c) == "follow" and c.args]
    if not desc: raise AnalysisError("get_children.follow: no recursive descent found")
    for c in desc:
        arg = c.args[0]
        if not isinstance(arg, ast.Name): raise AnalysisError("descent argument is not a plain name: " + ast.unparse(c))
        inst += 1; okc = True
        for g, pol in fi.guards(c):
            def bare(tst):
                if isinstance(tst, ast.BoolOp): return any(bare(v) for v in tst.values)
                if isinstance(tst, ast.UnaryOp) and isinstance(tst.op, ast.Not): return bare(tst.operand)
                return isinstance(tst, ast.Name) and tst.id == arg.id
            if bare(g):
                okc = False
                out.append(Finding("C05", "C05.c", M, "get_children.follow", ast.unparse(g), "the descent into a contained child is guarded by the child's truth value: a child object that is falsy (user class defining __len__ or __bool__) is skipped together with its whole subtree", witness="user class Block with __len__ returning 0 held in a single-valued containment attribute"))
        # single-valued children must be None-tested (getattr of an optional containment attribute may be None)
        ob("C05", "C05.c", M, "get_children.follow", ast.unparse(c), okc)
    # ---- C05.d / C05.e by evaluation (sa/pyeval.py: the functions are interpreted over sample objects; nothing of textX runs,
    #      helpers -- also generator helpers -- are interpreted with them, whatever the loop looks like)
    from sa import pyeval as _pe
    def mkcls(name, fqn): return {".__name__": name, "._tx_fqn": fqn, ".kind": "class"}
    cA, cB, cC = mkcls("A", "ns.A"), mkcls("B", "lib.B"), mkcls("C", "C")
    def mkobj(cls, parent=None, **kw):
        o = {".__class__": cls, ".kind": "obj"}
        if parent is not None: o[".parent"] = parent
        for k, v in kw.items(): o["." + k] = v
        return o
    root_ = mkobj(cC); b2 = mkobj(cB, root_); a1 = mkobj(cA, b2); b1 = mkobj(cB, a1); a0 = mkobj(cA, b1)          # a0 in b1 in a1 in b2 in root
    b_other = mkobj(cB, root_, other=a0)                                                                                # reaches a0 through a non-parent link
    fns = helper_functions(root, M, "get_parent_of_type")
    def run_gp(typ, obj):
        gp = find(t, "get_parent_of_type"); ps = [a_.arg for a_ in gp.args.args]
        env = {"__functions__": fns, ps[0]: typ, ps[1]: obj, "T": None, "Any": None}
        try: return ("ret", _pe.run_block(gp.body, env))
        except _pe.Raised as r_: return ("raise", r_.cls)
        except _pe.Unsupported as u_: raise AnalysisError("get_parent_of_type: outside the evaluated subset: %s" % u_)
    cases = [("the start object is not its own parent", "A", a0, a1), ("nearest ancestor of the type", "B", a0, b1), ("second nearest when the start is of the type", "B", b1, b2),
             ("no ancestor of the type", "A", a1, None), ("root has no parent", "C", root_, None), ("only the parent link is climbed", "A", b_other, None)]
    for what, typ, start, want in cases:
        inst += 1
        k, v = run_gp(typ, start); okc = k == "ret" and v is want
        ob("C05", "C05.d", M, "get_parent_of_type", what, okc)
        if not okc:
            out.append(Finding("C05", "C05.d", M, "get_parent_of_type", what, "get_parent_of_type(%r, <%s object>) on the sample chain A in B in A in B in C gives %s, documented %s" % (typ, start[".__class__"][".__name__"], "the start object itself" if v is start else ("an exception %s" % v if k == "raise" else ("None" if v is None else "another object")), "None" if want is None else "the nearest proper ancestor of that type"), witness="Package inside Package: get_parent_of_type('Package', inner)"))
    # C05.e  a class argument selects exactly the objects whose class has that (simple) name -- also when the class's qualified name differs
    for what, typ, start, want in (("class argument (qualified name differs from the simple name)", cB, a0, b1), ("class argument, no such ancestor", cA, a1, None)):
        inst += 1
        k, v = run_gp(typ, start); okc = k == "ret" and v is want
        ob("C05", "C05.e", M, "get_parent_of_type", what, okc)
        if not okc: out.append(Finding("C05", "C05.e", M, "get_parent_of_type", what, "a class passed as type argument does not find the ancestor of that class (%s): a class argument must be normalised to the name the objects are compared by" % ("exception " + str(v) if k == "raise" else "None" if v is None else "wrong object")))
    gc = find(t, "get_children_of_type"); ps = [a_.arg for a_ in gc.args.args]
    objs = [a0, b1, a1, b2, root_]
    def fake_get_children(selector, root_obj, children_first=False, should_follow=None, **kw):
        return [o for o in objs if selector(o)]
    for what, typ, want in (("name argument", "B", [b1, b2]), ("class argument (qualified name differs from the simple name)", cB, [b1, b2]), ("class argument whose simple name equals its qualified name", cC, [root_])):
        inst += 1
        env = {"__functions__": {k_: v_ for k_, v_ in helper_functions(root, M, "get_children_of_type").items() if k_ != "get_children"}, "get_children": _pe.PyFn(fake_get_children), ps[0]: typ, ps[1]: root_}
        for extra in ps[2:]: env[extra] = None
        for a_, d_ in zip(gc.args.kwonlyargs, gc.args.kw_defaults): env[a_.arg] = None
        try: k, v = "ret", _pe.run_block(gc.body, env)
        except _pe.Raised as r_: k, v = "raise", r_.cls
        except _pe.Unsupported as u_: raise AnalysisError("get_children_of_type: outside the evaluated subset: %s" % u_)
        okc = k == "ret" and isinstance(v, list) and len(v) == len(want) and all(x is y for x, y in zip(v, want))
        ob("C05", "C05.e", M, "get_children_of_type", what, okc)
        if not okc: out.append(Finding("C05", "C05.e", M, "get_children_of_type", what, "the selector built for a %s selects %s of the sample objects instead of the %d of that class: the type argument is not normalised to the name the selector compares" % (what, len(v) if isinstance(v, list) else v, len(want))))
    # ---- C05.f  get_model: root by identity, no user-defined equality consulted
    eqlog = []
    class SObj(dict):
        __hash__ = None
        def __eq__(s_, o): eqlog.append(1); return True
        def __ne__(s_, o): eqlog.append(1); return False
    def mk2(cls, parent=None):
        o = SObj({".__class__": cls, ".kind": "obj"})
        if parent is not None: o[".parent"] = parent
        return o
    r2 = mk2(cC); m2 = mk2(cB, r2); l2 = mk2(cA, m2)
    gm = find(t, "get_model"); pm = gm.args.args[0].arg
    for what, start in (("leaf", l2), ("inner object", m2), ("the model itself", r2)):
        inst += 1; del eqlog[:]
        try: k, v = "ret", _pe.run_block(gm.body, {"__functions__": helper_functions(root, M, "get_model"), pm: start, "T": None, "Any": None})
        except _pe.Raised as r_: k, v = "raise", r_.cls
        except _pe.Unsupported as u_: raise AnalysisError("get_model: outside the evaluated subset: %s" % u_)
        okc = k == "ret" and v is r2 and not eqlog
        ob("C05", "C05.f", M, "get_model", "from the %s" % what, okc)
        if not okc:
            out.append(Finding("C05", "C05.f", M, "get_model", "from the %s" % what, ("get_model compares model objects with == / in: a user class that defines equality by value makes the walk stop early or skip objects" if eqlog else "get_model started at the %s of a three-level sample chain does not return the chain's root (%s)" % (what, "raises " + str(v) if k == "raise" else "returns another object")), witness="user class with __eq__ comparing names; get_model(inner)"))
    # a container that is falsy (user class defining __len__ / __bool__, e.g. a block without statements): the walk goes through it
    class FObj(SObj):
        def __bool__(s_): return False
    r4 = mk2(cC); f4 = FObj(mk2(cB, r4)); l4 = mk2(cA, f4); rf = FObj(mk2(cC)); lf = mk2(cA, mk2(cB, rf))
    for what, start, want in (("child of a falsy container", l4, r4), ("falsy container itself", f4, r4), ("leaf of a tree whose root object is falsy", lf, rf)):
        inst += 1; del eqlog[:]
        try: k, v = "ret", _pe.run_block(gm.body, {"__functions__": helper_functions(root, M, "get_model"), pm: start, "T": None, "Any": None})
        except _pe.Raised as r_: k, v = "raise", r_.cls
        except _pe.Unsupported as u_: raise AnalysisError("get_model: outside the evaluated subset: %s" % u_)
        okc = k == "ret" and v is want and not eqlog
        for pr_ in ("C05", "C08"): ob(pr_, "C05.f", M, "get_model", "from the %s" % what, okc)
        if not okc:
            for pr_ in ("C05", "C08"): out.append(Finding(pr_, "C05.f", M, "get_model", "from the %s" % what, "get_model started at the %s %s; documented: the root of the containment tree - whether an object on the way is truthy is the user class's business (a container without items), the walk follows `parent` by presence (the references of the objects below such a container are resolved and ordered in the model get_model finds)" % (what, "raises " + str(v) if k == "raise" else ("consults user-defined equality" if eqlog else "stops before the root" if v is not want else "")), witness="user class with __len__ for a rule  Block: '{' items*=Item '}'"))
    # a deeply nested object (300 containers): the walk has no depth limit
    deep = r3 = mk2(cC)
    for _i in range(300): deep = mk2(cB, deep)
    inst += 1; del eqlog[:]
    try: k, v = "ret", _pe.run_block(gm.body, {"__functions__": helper_functions(root, M, "get_model"), pm: deep, "T": None, "Any": None}, max_steps=20000)
    except _pe.Raised as r_: k, v = "raise", r_.cls
    except _pe.Unsupported as u_: raise AnalysisError("get_model: outside the evaluated subset: %s" % u_)
    okc = k == "ret" and v is r3
    for pr_ in ("C05", "C13"): ob(pr_, "C05.f", M, "get_model", "from an object nested 300 levels deep", okc)
    if not okc:
        for pr_ in ("C05", "C13"): out.append(Finding(pr_, "C05.f", M, "get_model", "from an object nested 300 levels deep", "get_model started at an object 300 containers below the model %s: every object's model is the root whatever the nesting depth (references of deep objects are resolved, located and processed through get_model)" % ("raises " + str(v) if k == "raise" else "does not return the root"), witness="an expression grammar with 100 nested parentheses"))
    return inst, out
def r_C12c(root):
    out = []; inst = 0
    t = load(root, R)
    for q in ("RRELNavigation.__repr__", "RRELNavigation.apply", "RRELNavigation.start_locally", "RRELNavigation.start_at_root"):
        try: fn = find(t, q)
        except AnalysisError: continue
        uses = [n for n in ast.walk(fn) if isinstance(n, ast.Attribute) and n.attr == "fixed_name"]
        if not uses: continue
        inst += 1
        bad = []
        for sub in [fn] + [n for n in ast.walk(fn) if isinstance(n, (ast.FunctionDef, ast.Lambda)) and n is not fn]:
            bad += truth_uses(sub, lambda e: isinstance(e, ast.Attribute) and e.attr == "fixed_name")
        ob("C12", "C12.c", R, q, "fixed_name tested by None-test", not bad)
        for e in bad:
            out.append(Finding("C12", "C12.c", R, q, ast.unparse(e), "an empty fixed name ('' ~ x) is treated like no fixed name: it is dropped when printing / ignored when evaluating", witness="''~packages"))
    if inst == 0: raise AnalysisError("RRELNavigation: no use of fixed_name found")
    return inst, out
# ---------------------------------------------------------------------------------------------------------------
RESOLVERS = {"scope_provider": None, "_find_obj_fqn": None, "find_obj": None, "_inner_resolve_link_rule_ref": None, "_find_referenced_obj": None, "lookup": 0, "find": None, "find_object_with_path": 0, "default_scope": None}
SITES = {   # (file, function) -> (property, clause)
    (P, "FQN.__call__._find_referenced_obj"): ("C10", "C10.d"), (P, "FQN.__call__._find_obj_fqn"): ("C10", "C10.d"), (P, "FQN.__call__._find_obj_fqn.find_obj"): ("C10", "C10.d"),
    (P, "ImportURI.__call__"): ("C17", "C17.e"), (P, "PlainName.__call__._inner_resolve_link_rule_ref"): ("C07", "C07.c"),
    (R, "RRELNavigation.apply"): ("C11", "C11.c"), (R, "find_object_with_path"): ("C11", "C11.c"), (R, "find"): ("C11", "C11.c"),
}
def r_none_tests(root):
    """a value returned by a resolver ('None or the found object') is tested with `is None` / `is not None`, never for truth:
    a found object may be falsy (user class with __len__/__bool__, a match-rule value 0 or '')"""
    out = []; inst = 0
    for (rel, q), (prop, clause) in SITES.items():
        fn = find(load(root, rel), q)
        rv = {}
        for n in own_nodes(fn):
            if isinstance(n, ast.Assign) and isinstance(n.value, ast.Call) and callee_name(n.value) in RESOLVERS:
                idx = RESOLVERS[callee_name(n.value)]
                for tg in n.targets:
                    if isinstance(tg, ast.Name) and idx is None: rv[tg.id] = callee_name(n.value)
                    elif isinstance(tg, (ast.Tuple, ast.List)) and idx is not None and isinstance(tg.elts[idx], ast.Name): rv[tg.elts[idx].id] = callee_name(n.value)
        for var, src in sorted(rv.items()):
            inst += 1
            bad = truth_uses(fn, lambda e: isinstance(e, ast.Name) and e.id == var)
            ob(prop, clause, rel, q, "result of %s() bound to %s: tested by None-test" % (src, var), not bad)
            for e in bad:
                out.append(Finding(prop, clause, rel, q, "truth test of %s (= %s(...))" % (var, src), "a found object is treated as 'not found' when it is falsy (user class defining __len__ or __bool__): the search goes on in outer scopes / other models and the reference binds elsewhere or fails", witness="user class Package with __len__ counting its (zero) children"))
    if inst < 5: raise AnalysisError("resolver result sites: only %d found" % inst)
    return inst, out
