"""C11.h  the RREL evaluator, decided by evaluation (sa/pyeval.py, generators evaluated on demand): find_object_with_path and the
get_next_matches / apply methods of the node classes of textx/scoping/rrel.py are interpreted on expression trees that the
interpreted RRELVisitor builds, over a sample model

    model { packages: p1 { packages: inner { classes: A(x) D(w) }  classes: A(x y) B(z) }
                      p2 { classes: A(v) extends p1.A,  E(u) extends p2.A }
                      p3 { classes: X extends Y, Y extends X }                      (a reference cycle)
            instances: i1 : p2.E   i2 : p1.B   i3 : p3.X   p1 : p1.A }          (an instance named like a package)
    an imported model { packages: q { classes: Q(k) } } and a builtin model { packages: b { classes: Str() } }   (+m)

and compared, for every (expression, start object, name, target class) of the sample set, with the result of the analysis'
own reference evaluator of the documented semantics (navigation with and without name consumption, fixed names, parent(T),
dots, ^, brackets, zero-or-more with its recursion stopper, alternatives in written order, first match wins, +m searches the
imported and builtin models after the model itself, an unresolved reference on the way postpones the resolution)."""
import ast
from sa.util import *
from sa import pyeval
from sa.exprs import HS
from sa.rules.c12e import rrel_builder
R = "textx/scoping/rrel.py"
class _Post(dict): pass
def _world():
    cls = {n: HS({".kind": "cls", ".__name__": n}) for n in ("Model", "Package", "Class", "Attr", "Inst")}
    def o(c, name=None, **kw):
        d = HS({".kind": "obj", ".__class__": cls[c]})
        if name is not None: d[".name"] = name
        for k, v in kw.items():
            d["." + k] = v
            for x in (v if isinstance(v, list) else [v]):
                if isinstance(x, HS) and x.get(".kind") == "obj" and k not in ("extends", "type"): x[".parent"] = d
        return d
    A = lambda n: o("Attr", n)
    cA1 = o("Class", "A", attributes=[A("x"), A("y")], extends=None); cB = o("Class", "B", attributes=[A("z")], extends=None)
    cA2 = o("Class", "A", attributes=[A("x")], extends=None); cD = o("Class", "D", attributes=[A("w")], extends=None)
    cA3 = o("Class", "A", attributes=[A("v")], extends=cA1); cE = o("Class", "E", attributes=[A("u")], extends=cA3)
    cX = o("Class", "X", attributes=[A("cx")], extends=None); cY = o("Class", "Y", attributes=[A("cy")], extends=cX); cX[".extends"] = cY
    inner = o("Package", "inner", packages=[], classes=[cA2, cD])
    p1 = o("Package", "p1", packages=[inner], classes=[cA1, cB]); p2 = o("Package", "p2", packages=[], classes=[cA3, cE]); p3 = o("Package", "p3", packages=[], classes=[cX, cY])
    i1 = o("Inst", "i1", type=cE); i2 = o("Inst", "i2", type=cB); i3 = o("Inst", "i3", type=cX); i4 = o("Inst", "p1", type=cA1)        # an instance named like a package
    cQ = o("Class", "Q", attributes=[A("k")], extends=None); q = o("Package", "q", packages=[], classes=[cQ])
    cS = o("Class", "Str", attributes=[], extends=None); b = o("Package", "b", packages=[], classes=[cS])
    mmo = HS({".kind": "metamodel", ".builtin_models": [], ".clsmap": cls})
    imported = o("Model", packages=[q], instances=[], _tx_metamodel=mmo); builtin = o("Model", packages=[b], instances=[], _tx_metamodel=mmo)
    mmo[".builtin_models"] = [builtin]
    cQ2 = o("Class", "Q", attributes=[A("k")], extends=None); foreign = o("Model", packages=[o("Package", "q", packages=[], classes=[cQ2])], instances=[], _tx_metamodel=mmo)     # loaded by the same repository, not imported by the model
    model = o("Model", packages=[p1, p2, p3], instances=[i1, i2, i3, i4], _tx_metamodel=mmo, _tx_model_repository=HS({".local_models": [imported], ".all_models": [foreign, imported]}))
    starts = [("the model", model), ("package inner", inner), ("attribute x of p1.inner.A", cA2[".attributes"][0]), ("class p2.E", cE), ("instance i1", i1), ("attribute u of p2.E", cE[".attributes"][0]), ("instance i3", i3)]
    return cls, model, starts, cE
EXPRS = ["packages.classes", "packages*.classes", "(packages)*.classes.attributes", "^classes", "^packages*.classes", "^(packages,classes)*", "..attributes", "...classes", "parent(Package).classes",
         "parent(Class).~extends.attributes", "~type.attributes", ".~type.attributes", ".~type.(~extends)*.attributes", ".~type.~extends*.attributes", "..~type.attributes", "'p2'~packages.classes", "'p1'~packages.'inner'~packages.classes",
         "packages.classes,instances", "instances,packages.classes.attributes", "+m:packages.classes", "+m:packages*.classes.attributes", "+pm:^packages*.classes", "(..)*.(packages)*.classes",
         "packages.(packages)*.classes", "instances.~type", "~packages.classes", "packages.~classes.attributes", "(packages.classes)*", "^(classes,attributes)", "parent(Model).packages*.classes", "....packages.classes",
         "(packages,instances)", "(instances,packages)", "^(instances,packages)", "(instances,packages)*", "(packages,instances)*.~type", "('p1'~packages,packages)*.classes", "(packages,'p1'~packages)*.classes",
         "(~packages.(..))*.classes", "(packages.parent(Package))*.classes", "(~packages.(..))*.attributes,^classes",
         "..extends.attributes", "..'A'~extends.attributes", ".~type.~extends.attributes,.~type.attributes"]
NAMES = ["A", "p1.A", "p1.inner.A", "p1.inner.D", "p2.E", "x", "u", "v", "cy", "A.x", "p1.A.y", "inner.A", "i1", "zz", "", "p1", "p2.A.v", "E.u", "q.Q", "b.Str", "k", "p2.E.x", "i1.E"]
def r_C11eval(root, full=None):
    from sa import util as _u
    if full is None: full = _u.TIER == "thorough"
    out = []; inst = 0
    cds, base_env, build, parse_spec = rrel_builder(root)
    t = load(root, R)
    fo = find(t, "find_object_with_path"); fps = [a.arg for a in fo.args.args]
    if fps[:3] != ["obj", "lookup_list", "rrel_tree"]: raise AnalysisError("find_object_with_path: parameters %s" % fps)
    cls, model, starts, cE = _world()
    POST = _Post()
    unresolved = set()
    def get_model(x):
        while ".parent" in x: x = x[".parent"]
        return x
    def txi(x, c): return isinstance(x, dict) and x.get(".__class__") is c
    env0 = dict(base_env)
    env0.update({"__lazygen__": True, "__maxdepth__": 200, "get_model": pyeval.PyFn(get_model), "textx_isinstance": pyeval.PyFn(txi), "get_metamodel": pyeval.PyFn(lambda x: dict(get_model(x)["._tx_metamodel"][".clsmap"])),
                 "needs_to_be_resolved": pyeval.PyFn(lambda x, a: (id(x), a) in unresolved), "Postponed": pyeval.PyFn(lambda: POST)})
    env0["__classes__"] = dict(base_env["__classes__"]); env0["__classes__"]["Postponed"] = lambda v: isinstance(v, _Post); env0["__classes__"]["tuple"] = lambda v: isinstance(v, tuple)
    # ---------------- the reference evaluator (documented semantics)
    def norm(sp):
        k = sp[0]
        if k == "expr": return ("expr", norm(sp[1]), sp[2])
        if k == "seq": return ("seq", [norm(p) for p in sp[1]])
        if k == "path": return ("path", [("zom", ("br", ("seq", [("path", [("dots", 2)])]))) if e == "^" else norm(e) for e in sp[1]])
        if k == "br": return ("br", norm(sp[1]))
        if k == "zom":
            e = norm(sp[1])
            return ("zom", e if e[0] == "br" else ("br", ("seq", [("path", [e])])))
        return sp
    def starts_(nd):
        k = nd[0]
        if k == "nav": return (False, True)
        if k in ("parent", "dots"): return (True, False)
        if k in ("br", "zom"): return starts_(nd[1])
        if k == "seq": return (any(starts_(p)[0] for p in nd[1]), any(starts_(p)[1] for p in nd[1]))
        if k == "path": return starts_(nd[1][0])
    def reference(spec, obj, names, obj_cls):
        e = norm(spec); import_uri = "m" in e[2]
        visited = [set() for _ in range(len(names) + 1)]
        def allowed(o_, nm, nd):
            key = (id(o_), id(nd))
            if key in visited[len(nm)]: return False
            visited[len(nm)].add(key); return True
        def has(o_, a): return isinstance(o_, dict) and ("." + a) in o_
        def apply(nd, o_, nm, pth, first):
            k = nd[0]
            if k == "dots":
                n = nd[1]
                while n > 1 and has(o_, "parent"): o_ = o_[".parent"]; n -= 1
                return (o_ if n <= 1 else None), nm, pth
            if k == "parent":
                while has(o_, "parent"):
                    o_ = o_[".parent"]
                    if txi(o_, get_model(o_)["._tx_metamodel"][".clsmap"][nd[1]]): return o_, nm, pth
                return None, nm, pth
            _k, name, consume, fixed = nd
            if first: o_ = get_model(o_)
            st = [o_]
            if not has(o_, "parent") and import_uri:
                if has(o_, "_tx_model_repository"): st += o_["._tx_model_repository"][".local_models"]
                st += o_["._tx_metamodel"][".builtin_models"] or []
            if not nm and consume: return None, nm, pth
            for s_ in st:
                if (id(s_), name) in unresolved: return POST, nm, pth
                if not has(s_, name): continue
                tg = s_["." + name]
                if not consume and fixed is None:
                    if tg is not None: return tg, nm, pth
                    continue
                if not isinstance(tg, list): tg = [tg]
                want = fixed if fixed is not None else nm[0]
                hit = [x for x in tg if has(x, "name") and x[".name"] == want]
                if hit: return hit[0], (nm if fixed is not None else nm[1:]), pth + [hit[0]]
            return None, nm, pth
        def m(nd, o_, nm, pth, first):
            k = nd[0]
            if k in ("nav", "parent", "dots"):
                if not allowed(o_, nm, nd): return
                r, nm2, p2 = apply(nd, o_, nm, pth, first)
                if r is None: return
                if isinstance(r, list):
                    for x in r:
                        if x is not None: yield x, nm2, p2
                else: yield r, nm2, p2
            elif k == "br":
                if not allowed(o_, nm, nd): return
                yield from m(nd[1], o_, nm, pth, first)
            elif k == "seq":
                if not allowed(o_, nm, nd): return
                for p in nd[1]: yield from m(p, o_, nm, pth, first)
            elif k == "path":
                els = nd[1]
                def inner(o2, nm2, p2, first2, idx):
                    for io, il, ip in m(els[idx], o2, nm2, p2, first2):
                        if io is POST: yield io, il, ip; return
                        if idx == len(els) - 1: yield io, il, ip
                        else: yield from inner(io, il, ip, False, idx + 1)
                yield from inner(o_, nm, pth, first, 0)
            elif k == "zom":
                loc, rt = starts_(nd)
                def z(o2, nm2, p2, first2):
                    if not allowed(o2, nm2, nd): return
                    if first2:
                        if loc: yield o2, nm2, p2
                        if rt: yield get_model(o2), nm2, p2
                    else: yield o2, nm2, p2
                    for io, il, ip in m(nd[1][1], o2, nm2, p2, first2):
                        if io is POST: yield io, il, ip; return
                        yield from z(io, il, ip, False)
                seen = set()
                for io, il, ip in z(o_, nm, pth, first):
                    if io is POST: yield io, il, ip; return
                    if (id(io), len(il)) not in seen: seen.add((id(io), len(il))); yield io, il, ip
        for p in e[1][1]:
            for r, nm2, p2 in m(p, obj, list(names), [], True):
                if r is POST: return POST
                if not nm2 and (obj_cls is None or txi(r, obj_cls)): return (r, p2)
        return None
    # ---------------- the cases
    def describe(r):
        if r is None: return "nothing"
        if r is POST or isinstance(r, _Post): return "Postponed"
        if isinstance(r, tuple) and len(r) == 2 and isinstance(r[0], dict):
            o_ = r[0]; names = []
            while isinstance(o_, dict): names.append(str(o_.get(".name", o_.get(".__class__", {}).get(".__name__")))); o_ = o_.get(".parent")
            return ".".join(reversed(names)) + " (path of %d named objects)" % len(r[1])
        return repr(r)[:60]
    def same(a, b):
        if a is None or b is None: return a is None and b is None
        if isinstance(a, _Post) or isinstance(b, _Post): return isinstance(a, _Post) and isinstance(b, _Post)
        return isinstance(a, tuple) and isinstance(b, tuple) and len(a) == 2 and len(b) == 2 and a[0] is b[0] and len(a[1]) == len(b[1]) and all(x is y for x, y in zip(a[1], b[1]))
    trees = {}
    for x in EXPRS:
        sp = parse_spec(x)
        try: trees[x] = (sp, build(sp))
        except pyeval.Raised as r_: raise AnalysisError("RREL tree for %s cannot be built: raises %s" % (x, r_.cls))
        except pyeval.Unsupported as u_: raise AnalysisError("RREL tree for %s: outside the evaluated subset: %s" % (x, u_))
    def run(x, start, name, obj_cls, split="."):
        sp, tree = trees[x]
        env = dict(env0); env.update({"obj": start, "lookup_list": name, "rrel_tree": tree, "obj_cls": obj_cls, "split_string": split})
        for extra_ in fps[5:]: raise AnalysisError("find_object_with_path: unexpected parameter " + extra_)
        try: return pyeval.run_block(fo.body, env, max_steps=20000)
        except pyeval.Raised as r_: return ("raise", r_.cls)
        except pyeval.Unsupported as u_: raise AnalysisError("find_object_with_path(%s): outside the evaluated subset: %s" % (x, u_))
        finally: pyeval.close_generators()
    n_cases = 0; bad = {}
    plan = []
    for xi, x in enumerate(EXPRS):
        for si, (sname, start) in enumerate(starts):
            for ni, name in enumerate(NAMES):
                for ci, oc in enumerate((None, "Class", "Attr")):
                    if not full and (xi * 7 + si * 5 + ni * 3 + ci) % 18: continue          # quick tier: a fixed eighteenth of the grid
                    plan.append((x, sname, start, name, oc))
    # cases that are always evaluated (each distinguishes a seeded change the sampled grid may miss)
    PINNED = [("(~packages.(..))*.attributes,^classes", "class p2.E", "u", None), ("(~packages.(..))*.classes", "package inner", "A", None), ("^(instances,packages)", "the model", "p1", None), ("('p1'~packages,packages)*.classes", "the model", "p1.A", None)]
    by_name = dict(starts)
    for x, sname, name, oc in PINNED:
        if not any(p_[0] == x and p_[1] == sname and p_[3] == name and p_[4] == oc for p_ in plan): plan.append((x, sname, by_name[sname], name, oc))
    for x, sname, start, name, oc in plan:
        names = [p for p in name.split(".") if p]
        want = reference(trees[x][0], start, names, cls[oc] if oc else None)
        got = run(x, start, name, cls[oc] if oc else None)
        n_cases += 1
        if not same(got, want) and x not in bad: bad[x] = (sname, name, oc, got, want)
    for x in EXPRS:
        inst += 1
        ob("C11", "C11.h", R, "find_object_with_path", "%s on the sample model" % x, x not in bad)
        if x in bad:
            sname, name, oc, got, want = bad[x]
            out.append(Finding("C11", "C11.h", R, "find_object_with_path", x, "%s evaluated from %s for the name %r%s finds %s; the documented semantics give %s" % (x, sname, name, " (target class %s)" % oc if oc else "", describe(got) if not (isinstance(got, tuple) and got and got[0] == "raise") else "raises %s" % got[1], describe(want)), witness="%s / %s" % (x, name)))
    # an unresolved reference on the way postpones; a match found before it is reached is returned
    for x, sname, start, name, wantk in ((".~type.(~extends)*.attributes", "instance i1", starts[4][1], "x", "post"), (".~type.(~extends)*.attributes", "instance i1", starts[4][1], "u", "obj"), ("parent(Class).~extends.attributes", "attribute u of p2.E", starts[5][1], "v", "post"),
                                          ("..extends.attributes", "attribute u of p2.E", starts[5][1], "A.v", "post"), ("..'A'~extends.attributes", "attribute u of p2.E", starts[5][1], "v", "post"),
                                          (".~type.~extends.attributes,.~type.attributes", "instance i1", starts[4][1], "u", "post"), (".~type.~extends.attributes,.~type.attributes", "instance i1", starts[4][1], "v", "post")):
        unresolved.clear(); unresolved.add((id(cE), "extends")); inst += 1; n_cases += 1
        want = reference(trees[x][0], start, name.split("."), None); got = run(x, start, name, None)
        unresolved.clear()
        okp = same(got, want) and (isinstance(got, _Post) if wantk == "post" else isinstance(got, tuple))
        ob("C11", "C11.h", R, "find_object_with_path", "%s for %r while E.extends is unresolved" % (x, name), okp)
        if not okp: out.append(Finding("C11", "C11.h", R, "find_object_with_path", "%s / unresolved reference" % x, "%s from %s for %r while the reference extends of class E is not yet resolved gives %s; documented: %s" % (x, sname, name, describe(got), "Postponed (the resolution is retried in a later round; an alternative that may match once the reference is resolved keeps its precedence)" if wantk == "post" else "the attribute of E itself (found before the unresolved reference is needed)"), witness=x))
    # the same expression objects serve every model: a second model of another meta-model (other class objects)
    cls2, model2, starts2, _e2 = _world()
    for x in ("parent(Package).classes", "parent(Class).~extends.attributes", "parent(Model).packages*.classes", "^packages*.classes"):
        for sname, start in starts2[1:4]:
            for name in ("A", "D", "x", "p1.A"):
                for oc in (None, "Class"):
                    n_cases += 1
                    want = reference(trees[x][0], start, name.split("."), cls2[oc] if oc else None); got = run(x, start, name, cls2[oc] if oc else None)
                    if not same(got, want) and x not in bad: bad[x] = (sname + " of a second model (another meta-model)", name, oc, got, want)
    for x in ("parent(Package).classes", "parent(Class).~extends.attributes", "parent(Model).packages*.classes", "^packages*.classes"):
        inst += 1
        ob("C11", "C11.h", R, "find_object_with_path", "%s on a model of a second meta-model, same expression object" % x, x not in bad)
        if x in bad and "second model" in bad[x][0]:
            sname, name, oc, got, want = bad[x]
            out.append(Finding("C11", "C11.h", R, "find_object_with_path", x + " / second meta-model", "%s evaluated from %s for the name %r finds %s; the documented semantics give %s (the expression object was used for another model before)" % (x, sname, name, describe(got), describe(want)), witness=x))
    # other separators
    for split, name in (("::", "p1::inner::D"), ("/", "p1/inner/D"), ("::", "p1::::inner::D")):
        inst += 1; n_cases += 1
        got = run("packages*.classes", model, name, None, split); want = reference(trees["packages*.classes"][0], model, ["p1", "inner", "D"], None)
        oks = same(got, want) and want is not None
        ob("C11", "C11.h", R, "find_object_with_path", "name %r split at %r" % (name, split), oks)
        if not oks: out.append(Finding("C11", "C11.h", R, "find_object_with_path", "split_string %r" % split, "the name %r with separator %r resolves to %s; documented: the class D of package p1.inner (empty name parts are dropped)" % (name, split, describe(got))))
    # the wrapper find(): the object of the result (a name given as a string is split and its empty parts dropped on the way)
    ff = find(t, "find"); ffps = [a.arg for a in ff.args.args]
    if ffps[:5] != ["obj", "lookup_list", "rrel_tree", "obj_cls", "split_string"]: raise AnalysisError("find: parameters %s" % ffps)
    for split, name in ((".", "p1.inner.D"), ("::", "p1::inner::D"), ("::", "::p1::inner::D"), ("::", "p1::inner::D::"), ("::", "p1::::inner::D"), (".", ["p1", "inner", "D"])):
        inst += 1; n_cases += 1
        sp, tree = trees["packages*.classes"]
        env = dict(env0); env.update({"obj": model, "lookup_list": name, "rrel_tree": tree, "obj_cls": None, "split_string": split})
        for extra_ in ffps[5:]: env[extra_] = False
        try: got = pyeval.run_block(ff.body, env, max_steps=20000)
        except pyeval.Raised as r_: got = ("raise", r_.cls)
        except pyeval.Unsupported as u_: raise AnalysisError("find(%r): outside the evaluated subset: %s" % (name, u_))
        want = reference(sp, model, ["p1", "inner", "D"], None)
        okf = want is not None and got is want[0]
        ob("C11", "C11.h", R, "find", "find() for the name %r split at %r" % (name, split), okf)
        if not okf: out.append(Finding("C11", "C11.h", R, "find", "find(model, %r, packages*.classes, split_string=%r)" % (name, split), "find() with the name %r and separator %r gives %s; documented: the class D of package p1.inner (a name is split at the separator, empty name parts are dropped; a list of parts is taken as it is)" % (name, split, describe(got) if isinstance(got, tuple) or got is None else ("another object" if got is not want[0] else "it"))))
    STATS.counters["C11.h evaluated cases"] = n_cases
    return inst, out
