"""C16.c  process-wide caches: a value stored into a module-level or class-level container (it survives the metamodel
and is shared by every later metamodel/load in the process) must be keyed by everything it was computed from.  If an
input of the cached computation (a metamodel option, the matched text, ...) is missing from the key, a later
metamodel with a different configuration silently receives the object built for the earlier one — the result of a
load then depends on what was loaded before.

Exceptions are per (cache, input) with a reason (confirmed by reading), never wider."""
import ast
from sa.util import *
from sa import sem
FILES = ["textx/lang.py", "textx/model.py", "textx/metamodel.py", "textx/export.py", "textx/scoping/__init__.py", "textx/scoping/providers.py", "textx/scoping/rrel.py", "textx/scoping/tools.py"]
EXCEPT = {
    ("textX_parsers", "metamodel.memoization"): "memoization of the *grammar* parser changes only its speed: the textX grammar language (lang.py) installs no ws/skipws/eolterm context changes, so packrat results equal plain results",
    ("textX_parsers", "metamodel.file"): "destination of debug output of the grammar parser; not part of any model or error",
}
ALSO_PROP = {"ignore_case": ("C20", "C20.c"), "autokwd": ("C21", "C21.c"), "memoization": ("C19", "C19.c"), "skipws": ("C22", "C22.e"), "ws": ("C22", "C22.e")}
def _chains(e, skip_calls=True):
    """dotted load chains (a, a.b.c) occurring in e; the function position of calls is skipped"""
    out = set()
    def chain(x):
        parts = []
        while isinstance(x, ast.Attribute): parts.append(x.attr); x = x.value
        if isinstance(x, ast.Name): parts.append(x.id); return ".".join(reversed(parts))
        return None
    def w(x):
        if isinstance(x, ast.Call):
            if not skip_calls: w(x.func)
            elif isinstance(x.func, ast.Attribute): w(x.func.value)       # receiver of a method call is an input
            for a in x.args: w(a)
            for k in x.keywords: w(k.value)
            return
        if isinstance(x, (ast.Attribute, ast.Name)):
            c = chain(x)
            if c: out.add(c); return
        for c in ast.iter_child_nodes(x): w(c)
    w(e); return out
def r_cachekeys(root):
    out = []; inst = 0
    for rel in FILES:
        t = load(root, rel)
        mod_level = {}
        for n in t.body:
            tg = None
            if isinstance(n, ast.Assign) and len(n.targets) == 1 and isinstance(n.targets[0], ast.Name): tg, v = n.targets[0].id, n.value
            elif isinstance(n, ast.AnnAssign) and isinstance(n.target, ast.Name) and n.value is not None: tg, v = n.target.id, n.value
            if tg and (isinstance(v, (ast.Dict, ast.List, ast.Set)) or (isinstance(v, ast.Call) and getattr(v.func, "id", "") in ("dict", "list", "set", "OrderedDict", "defaultdict"))): mod_level[tg] = n
        imported = {a.asname or a.name.split(".")[0] for n in ast.walk(t) if isinstance(n, (ast.Import, ast.ImportFrom)) for a in n.names}
        toplevel = {n.name for n in t.body if isinstance(n, (ast.FunctionDef, ast.ClassDef))} | set(mod_level) | imported | {n.targets[0].id for n in t.body if isinstance(n, ast.Assign) and isinstance(n.targets[0], ast.Name)}
        for cls in [n for n in ast.walk(t) if isinstance(n, ast.ClassDef)]:
            cls_level = set()
            for n in cls.body:
                if isinstance(n, ast.Assign) and isinstance(n.targets[0], ast.Name) and isinstance(n.value, (ast.Dict, ast.List, ast.Set)): cls_level.add(n.targets[0].id)
                if isinstance(n, ast.AnnAssign) and isinstance(n.target, ast.Name) and isinstance(n.value, (ast.Dict, ast.List, ast.Set)): cls_level.add(n.target.id)
            cls._shared = cls_level
        for fn in [n for n in ast.walk(t) if isinstance(n, ast.FunctionDef)]:
            stores = []
            for n in own_nodes(fn):
                for tgs_ in ([x for x in n.targets if isinstance(x, ast.Subscript)] if isinstance(n, ast.Assign) else []):         # also  x = cache[key] = value
                    base = tgs_.value; name = None
                    if isinstance(base, ast.Name) and base.id in mod_level and not _is_local(fn, base.id): name = base.id
                    elif isinstance(base, ast.Attribute) and isinstance(base.value, ast.Name) and base.value.id in ("self", "cls"):
                        c = next((a for a in ancestors(fn) if isinstance(a, ast.ClassDef)), None)
                        if c is not None and base.attr in getattr(c, "_shared", ()): name = base.attr
                    elif isinstance(base, ast.Attribute) and isinstance(base.value, ast.Name):
                        c = next((k for k in ast.walk(t) if isinstance(k, ast.ClassDef) and k.name == base.value.id), None)
                        if c is not None and base.attr in getattr(c, "_shared", ()): name = base.attr
                    if name: stores.append((name, n, tgs_))
            if not stores: continue
            fi = sem.info(fn)
            for name, st, tgs_ in stores:
                inst += 1
                key = fi.expand(tgs_.slice, at=st); val = fi.expand(st.value, at=st)
                kin = _chains(key); vin = _chains(val)
                params = {a.arg for a in fn.args.args + fn.args.kwonlyargs}
                missing = []
                for c in sorted(vin):
                    head = c.split(".")[0]
                    if head in toplevel and head not in params: continue                 # module-level constant / function / class
                    if c in kin or any(c.startswith(k + ".") for k in kin): continue     # covered by the key (itself or an enclosing object)
                    if head in ("self", "cls") and c.count(".") == 0: continue
                    if (name, c) in EXCEPT or (name, ".".join(c.split(".")[-2:])) in EXCEPT: continue
                    missing.append(c)
                ob("C16", "C16.c", rel, qualname(st), "%s[%s] = f(%s)" % (name, ast.unparse(key)[:40], ", ".join(sorted(vin))[:100]), not missing)
                for c in missing:
                    props = [("C16", "C16.c")]
                    leaf = c.split(".")[-1]
                    if leaf in ALSO_PROP: props.append(ALSO_PROP[leaf])
                    if name == "textX_parsers": props.append(("C24", "C24.c"))
                    from sa.rules import gen as _gen
                    for p_ in _gen.props_for(rel, qualname(st), root):
                        if p_ != "C16": props.append((p_, p_ + ".M"))        # the function belongs to that property's mechanism as well
                    for pr, cl in props:
                        out.append(Finding(pr, cl, rel, qualname(st), "%s[%s] = ... %s ..." % (name, ast.unparse(tgs_.slice)[:40], c), "the process-wide cache %s is keyed by %s but the cached value is computed from %s: a later metamodel with a different %s receives the object built for the first one" % (name, ast.unparse(key)[:50], c, leaf), witness="two metamodels in one process that differ in %s" % leaf))
    if inst < 1: raise AnalysisError("no process-wide cache found (textX_parsers expected)")
    return inst, out
def _is_local(fn, name):
    """is `name` rebound locally in fn (then it does not denote the module-level container)?"""
    for n in own_nodes(fn):
        if isinstance(n, ast.Assign) and any(isinstance(tg, ast.Name) and tg.id == name for tg in n.targets): return True
    return False

def r_C16f(root):
    """C16.f  while a parse tree is turned into objects, conversions and processors come from the metamodel of the parser
       that produced the tree: the receiver of every `.process(...)` / `.has_obj_processor(...)` in parse_tree_to_objgraph is the
       function's own `metamodel` (or parser.metamodel), and `_tx_metamodel` is never read through a rule or class object —
       the base-type rule objects are module-level and shared by all metamodels; their `_tx_class` belongs to whichever
       metamodel was built last."""
    M = "textx/model.py"; out = []; inst = 0
    t = load(root, M); fn = find(t, "parse_tree_to_objgraph")
    for c in calls(fn):
        if isinstance(c.func, ast.Attribute) and c.func.attr in ("process", "has_obj_processor", "_init_obj_attrs", "convert"):
            f = enclosing_func(c); fi = sem.info(f)
            recv = fi.expand(c.func.value, at=c); rt = ast.unparse(recv)
            rootn = recv
            while isinstance(rootn, (ast.Attribute, ast.Subscript, ast.Call)): rootn = rootn.value if not isinstance(rootn, ast.Call) else rootn.func
            ok = rt in ("metamodel", "parser.metamodel")
            inst += 1
            ob("C16", "C16.f", M, qualname(c), "%s.%s(...)" % (rt[:60], c.func.attr), ok)
            if not ok: out.append(Finding("C16", "C16.f", M, qualname(c), " ".join(ast.unparse(c).split())[:100], "the metamodel used while building objects is %s, not the metamodel of the parser that produced the tree: rule objects of the base types are shared by all metamodels, so the result depends on which metamodel was created last" % rt[:80], witness="two metamodels with different INT processors; a composite match rule 'S: ID \\'=\\' INT;' parsed by the older one"))
    for n in ast.walk(t):
        if isinstance(n, ast.Attribute) and n.attr == "_tx_metamodel" and isinstance(n.ctx, ast.Load):
            rt = ast.unparse(n.value); inst += 1
            bad = any(k in rt for k in ("_tx_class", ".rule", "__class__", "type(", "cls"))
            ob("C16", "C16.f", M, qualname(n), "%s._tx_metamodel" % rt[:60], not bad)
            if bad: out.append(Finding("C16", "C16.f", M, qualname(n), "%s._tx_metamodel" % rt[:80], "the metamodel is reached through a rule/class object; for the shared base-type rules that is the metamodel built last, not the one in use"))
    if inst < 4: raise AnalysisError("parse_tree_to_objgraph: only %d processor dispatch sites found" % inst)
    return inst, out

def r_memo(root):
    """C16.i  no result that depends on anything but the arguments is memoized process-wide: every use of functools.lru_cache /
    functools.cache (decorator or call) in the package wraps a function of the package whose body - and the bodies of the
    package functions it calls - neither reads files or the environment (open, os.*, glob, io) nor module-level mutable
    state (global statements, registries), and not a callable handed in from outside (whose purity the package cannot
    know: a user's meta-model factory, a processor).  Expected count on this tree: 0 uses; a built-in fixture keeps the
    rule honest."""
    import ast
    out = []; inst = 0
    NAMES = {"lru_cache", "cache", "cached_property"}
    def uses(tree):
        res = []
        for n in ast.walk(tree):
            if isinstance(n, (ast.FunctionDef, ast.AsyncFunctionDef)):
                for d in n.decorator_list:
                    c = d.func if isinstance(d, ast.Call) else d
                    nm = c.attr if isinstance(c, ast.Attribute) else (c.id if isinstance(c, ast.Name) else None)
                    if nm in NAMES and (isinstance(c, ast.Name) or (isinstance(c.value, ast.Name) and c.value.id == "functools")): res.append((d, n, "decorator"))
            if isinstance(n, ast.Call):
                c = n.func
                # functools.cache(f) / lru_cache(maxsize=None)(f)
                inner = c.func if isinstance(c, ast.Call) else c
                nm = inner.attr if isinstance(inner, ast.Attribute) else (inner.id if isinstance(inner, ast.Name) else None)
                if nm in ("lru_cache", "cache") and (isinstance(inner, ast.Name) or (isinstance(inner.value, ast.Name) and inner.value.id == "functools")):
                    if any(n is d or (isinstance(d, ast.Call) and d.func is n) for f in ast.walk(tree) if isinstance(f, (ast.FunctionDef, ast.AsyncFunctionDef)) for d in f.decorator_list): continue
                    if isinstance(c, ast.Call) and c is not n: arg = n.args[0] if n.args else None       # lru_cache(...)(f)
                    elif n.args and not isinstance(n.func, ast.Call) and nm == "cache": arg = n.args[0]
                    elif n.args and nm == "lru_cache" and not n.keywords and not isinstance(n.args[0], ast.Constant): arg = n.args[0]
                    else: continue
                    res.append((n, arg, "call"))
        return res
    def impure(fn, tree, depth=0, seen=None):
        seen = seen if seen is not None else set()
        if fn in seen or depth > 4: return None
        seen.add(fn)
        for n in ast.walk(fn):
            if isinstance(n, ast.Global): return "global %s" % ", ".join(n.names)
            if isinstance(n, ast.Call):
                nm = callee_name(n)
                if nm in ("open", "glob", "iglob", "getenv", "listdir", "walk", "exists", "isfile", "isdir", "getcwd", "abspath", "entry_points", "input"): return "%s(...)" % nm
                if isinstance(n.func, ast.Attribute) and isinstance(n.func.value, ast.Name) and n.func.value.id in ("os", "sys", "io", "glob", "pathlib", "time", "random"): return "%s.%s(...)" % (n.func.value.id, n.func.attr)
                d = next((x for x in tree.body if isinstance(x, ast.FunctionDef) and x.name == nm), None)
                if d is not None:
                    r = impure(d, tree, depth + 1, seen)
                    if r: return "%s -> %s" % (nm, r)
        return None
    def judge(tree, use):
        node, target, how = use
        if how == "decorator": fn = target
        else:
            fn = next((x for x in ast.walk(tree) if isinstance(x, ast.FunctionDef) and isinstance(target, ast.Name) and x.name == target.id), None) if target is not None else None
            if fn is None: return "memoizes %s, a callable the package did not write (its result may depend on more than its arguments)" % (ast.unparse(target) if target is not None else "a callable")
        why = impure(fn, tree)
        return ("memoizes %s, whose result depends on more than its arguments (%s)" % (fn.name, why)) if why else None
    fx = _parse_fixture_memo()
    got = [judge(fx, u) is not None for u in uses(fx)]
    if sorted(got) != [False, True, True, True]: raise AnalysisError("memoization rule: the built-in positive example is classified %s" % got)
    for rel in FILES_ALL(root):
        t = load(root, rel); inst += 1
        for u in uses(t):
            inst += 1
            bad = judge(t, u)
            q = qualname(u[1]) if u[2] == "decorator" else (qualname(u[0]) or "module level")
            for pr in ("C16", "C25", "C26"): ob(pr, "C16.i", rel, q, "memoization: %s" % " ".join(ast.unparse(u[0]).split())[:70], bad is None)
            if bad:
                for pr in ("C16", "C25", "C26"): out.append(Finding(pr, "C16.i", rel, q, " ".join(ast.unparse(u[0]).split())[:90], "a process-wide memo %s: later loads see the first result although files, registrations or configuration changed" % bad, witness="edit the grammar file / register another factory and load again in the same process"))
    for pr in ("C16", "C25", "C26"): ob(pr, "C16.i", "textx/", "package", "every memoization in the package wraps a function of its arguments only (%d files)" % inst, not out)
    return max(inst, 1), out
def _parse_fixture_memo():
    import ast
    src = '''
import functools, os
from functools import lru_cache
@lru_cache(maxsize=None)
def read(path):
    with open(path) as f: return f.read()
@functools.cache
def pure(a, b): return a + b
def deco(gen_f):
    return functools.cache(gen_f)
@functools.lru_cache
def env(k): return helper(k)
def helper(k): return os.getenv(k)
'''
    t = ast.parse(src)
    for a in ast.walk(t):
        for c in ast.iter_child_nodes(a): c._parent = a
    return t
def FILES_ALL(root):
    import os
    res = []
    for dp, dn, fnames in os.walk(os.path.join(root, "textx")):
        dn[:] = [d for d in dn if d != "__pycache__"]
        for f in fnames:
            if f.endswith(".py"): res.append(os.path.relpath(os.path.join(dp, f), root))
    return sorted(res)

def r_sharedbase(root):
    """C16.j  the base-type expressions (ID, BOOL, INT, FLOAT, STRICTFLOAT, STRING, NUMBER, BASETYPE, OBJECT) are module-level
    objects of lang.py shared by every meta-model of the process: no function of the package writes an attribute of one of
    them or calls a method that changes it (compile, and the list methods of .nodes), whatever name it was imported under.
    Expected count on this tree: 0 writes; a built-in fixture keeps the rule honest."""
    import ast
    out = []; inst = 0
    BASES = {"ID", "BOOL", "INT", "FLOAT", "STRICTFLOAT", "STRING", "NUMBER", "BASETYPE", "OBJECT"}
    MUT = {"compile", "append", "extend", "insert", "remove", "pop", "clear", "sort", "reverse", "update", "setdefault", "__setattr__"}
    def scan(tree, is_lang):
        res = []; names = {}
        for n in ast.walk(tree):
            if isinstance(n, ast.ImportFrom) and n.module and n.module.split(".")[-1] == "lang":
                for a in n.names:
                    if a.name in BASES: names[a.asname or a.name] = a.name
        if is_lang: names.update({b: b for b in BASES})
        def root_name(e):
            while isinstance(e, (ast.Attribute, ast.Subscript)): e = e.value
            return e.id if isinstance(e, ast.Name) else None
        for fn in [x for x in ast.walk(tree) if isinstance(x, (ast.FunctionDef, ast.AsyncFunctionDef))]:
            def bound(tg):
                if isinstance(tg, ast.Name): return {tg.id}
                if isinstance(tg, (ast.Tuple, ast.List)): return set().union(*[bound(e) for e in tg.elts]) if tg.elts else set()
                if isinstance(tg, ast.Starred): return bound(tg.value)
                return set()
            local = {a.arg for a in fn.args.args + fn.args.kwonlyargs}
            for x in ast.walk(fn):
                for tg in (x.targets if isinstance(x, ast.Assign) else ([x.target] if isinstance(x, (ast.For, ast.AnnAssign, ast.comprehension)) else [])): local |= bound(tg)
            for n in ast.walk(fn):
                tgts = n.targets if isinstance(n, ast.Assign) else ([n.target] if isinstance(n, (ast.AugAssign, ast.AnnAssign)) else [])
                for tg in tgts:
                    if isinstance(tg, (ast.Attribute, ast.Subscript)) and root_name(tg) in names and root_name(tg) not in local: res.append((n, fn, "writes %s" % ast.unparse(tg)))
                if isinstance(n, ast.Call) and isinstance(n.func, ast.Attribute) and n.func.attr in MUT and root_name(n.func.value) in names and root_name(n.func.value) not in local: res.append((n, fn, "calls %s" % ast.unparse(n.func)))
                if isinstance(n, ast.Call) and isinstance(n.func, ast.Name) and n.func.id == "setattr" and n.args and root_name(n.args[0]) in names and root_name(n.args[0]) not in local: res.append((n, fn, "setattr on %s" % ast.unparse(n.args[0])))
        return res
    fx = ast.parse("from textx.lang import BOOL, ID as IDENT\ndef f(self):\n    BOOL.ignore_case = True\n    BOOL.compile()\n    IDENT.nodes.append(1)\n    x = BOOL.to_match\n    INT = 3\n")
    if sorted(w for _n, _f, w in scan(fx, False)) != ["calls BOOL.compile", "calls IDENT.nodes.append", "writes BOOL.ignore_case"]: raise AnalysisError("shared base types rule: the built-in positive example is classified %s" % [w for _n, _f, w in scan(fx, False)])
    for rel in FILES_ALL(root):
        t = load(root, rel); inst += 1
        for n, fn, what in scan(t, rel.endswith("textx/lang.py")):
            inst += 1
            for pr in ("C16", "C20", "C04"):
                ob(pr, "C16.j", rel, qualname(fn), " ".join(ast.unparse(n).split())[:80], False)
                out.append(Finding(pr, "C16.j", rel, qualname(fn), " ".join(ast.unparse(n).split())[:90], "%s %s: the base-type expressions are module-level objects shared by every meta-model of the process - a change made while one meta-model is built (its case handling, its pattern) is seen by all meta-models built before and after" % (qualname(fn), what), witness="metamodel_from_str(g, ignore_case=True) and then metamodel_from_str(g) in the same process: BOOL of the second one"))
    for pr in ("C16", "C20", "C04"): ob(pr, "C16.j", "textx/", "package", "no function writes to a shared base-type expression (%d files)" % inst, not out)
    return max(inst, 1), out

def r_parseroverrides(root):
    """C19.f  arpeggio's Parser owns the packrat caches, the error bookkeeping (_nm_raise) and the position arithmetic
    (pos_to_linecol, context): a method of TextXModelParser with the name of a method of arpeggio.Parser / DebugPrinter
    (read from arpeggio's source, not imported) extends it - it calls super().<same name>(...) - and does not replace it.
    Today only __init__ is such a method."""
    import ast, importlib.util
    out = []; inst = 0
    spec = importlib.util.find_spec("arpeggio")
    if spec is None or not spec.origin: raise AnalysisError("arpeggio source not found")
    at = ast.parse(open(spec.origin, encoding="utf-8").read())
    base = {f.name for c in at.body if isinstance(c, ast.ClassDef) and c.name in ("Parser", "DebugPrinter") for f in c.body if isinstance(f, ast.FunctionDef)}
    if not {"_clear_caches", "_nm_raise", "pos_to_linecol", "parse"} <= base: raise AnalysisError("arpeggio.Parser: expected methods not found (%s)" % sorted(base))
    M_ = "textx/model.py"; t = load(root, M_)
    cls = next((c for c in ast.walk(t) if isinstance(c, ast.ClassDef) and c.name == "TextXModelParser"), None)
    if cls is None: raise AnalysisError("TextXModelParser not found")
    over = [f for f in cls.body if isinstance(f, ast.FunctionDef) and f.name in base]
    if not any(f.name == "__init__" for f in over): raise AnalysisError("TextXModelParser.__init__ not found")
    for f in over:
        inst += 1
        sup = any(isinstance(x, ast.Call) and isinstance(x.func, ast.Attribute) and x.func.attr == f.name and ((isinstance(x.func.value, ast.Call) and getattr(x.func.value.func, "id", "") == "super") or (isinstance(x.func.value, ast.Name) and x.func.value.id == "Parser")) for x in ast.walk(f))
        for pr in ("C19", "C06"): ob(pr, "C19.f", M_, "TextXModelParser." + f.name, "extends arpeggio's Parser.%s (calls the base method)" % f.name, sup)
        if not sup:
            for pr in ("C19", "C06"): out.append(Finding(pr, "C19.f", M_, "TextXModelParser." + f.name, "def %s(...)" % f.name, "TextXModelParser replaces arpeggio's Parser.%s without calling it: the packrat caches, the error bookkeeping and the position arithmetic belong to arpeggio - a replacement that forgets part of it (a cache that is not reset between two parses, a position computed differently) changes parse results with memoization on / the locations reported" % f.name, witness="memoization=True, two models parsed one after the other with the same meta-model"))
    return max(inst, 1), out
