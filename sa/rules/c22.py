"""Grammar-visitor clauses (textx/lang.py) found by testing against independently seeded changes

   C22.d  every rule parameter the grammar gives reaches the parameter table: in visit_rule_params each loop iteration
          ends in the store params[name] = value or in a raise (no skip path, e.g. for 'equal to the default')
   C22.e  every root wrapper built by visit_textx_rule while rule parameters may be present receives them
          (**rule_params); the only other way parameters reach an expression is the setattr loop (decided by C01.c)
   C22.f  the ws escape translation knows the documented escapes \\n \\r \\t and blank
   C22.g  the comment model handed to the parser is refreshed after rule references are resolved
   C21.d  autokwd classification is applied to the *decoded* literal: the escape decoding precedes the keyword test
   C20.d  the ignore_case argument of every Match construction is metamodel.ignore_case on every reaching definition
   C23.f  the handler around the compilation of a user regex catches every exception re.compile may raise
          (re.error, ValueError, OverflowError, RecursionError)  -> `except Exception` or wider
   C23.g  a value obtained with dict.get(key) (None when absent) is not subscripted / membership-tested / dereferenced
          without a None test, in functions reachable from metamodel_from_str
   C24.d  the self-hosted grammar's metamodel is built with the tokenisation options of the grammar compiler's own
          parser (no autokwd / ignore_case / skipws / ws overrides)"""
import ast
from sa.util import *
from sa import sem
from sa.cfg import CFG
L = "textx/lang.py"; MM = "textx/metamodel.py"
def gs_succ_closure(n, depth):
    """nodes reachable from n within `depth` normal edges"""
    out = set(); frontier = [n]
    for _ in range(depth):
        nxt = []
        for x in frontier:
            for k, m in x.succ:
                if k != "exc" and m not in out: out.add(m); nxt.append(m)
        frontier = nxt
    return out
def r_visitor(root):
    out = []; inst = 0
    t = load(root, L)
    # ---------------- C22.d
    vp = find_i(root, L, "TextXVisitor.visit_rule_params"); g = CFG(vp)
    loop = next((n for n in vp.body if isinstance(n, ast.For)), None)
    if loop is None: raise AnalysisError("visit_rule_params: loop not found")
    stores = [n for n in g.nodes if n.kind == "stmt" and isinstance(n.ast, ast.Assign) and isinstance(n.ast.targets[0], ast.Subscript) and ast.unparse(n.ast.targets[0].value) == "params"]
    head = next((n for n in g.nodes if n.kind == "loop" and n.ast is loop.iter), None)
    if not stores or head is None: raise AnalysisError("visit_rule_params: parameter store not found")
    inst += 1
    body_first = [m for k, m in head.succ if k not in ("exc",) and m.kind != "join" or (m.kind == "join" and m.label != "after-loop")]
    skip = None
    for s in [m for k, m in head.succ if k != "exc"]:
        if s.kind == "join" and s.label == "after-loop": continue
        # a path from the start of an iteration back to the loop head that stores nothing
        p = g.paths_avoiding(s, head, lambda n: n in stores or n.kind in ("raise",))
        if p and len(p) > 1: skip = p
    ob("C22", "C22.d", L, "TextXVisitor.visit_rule_params", "every iteration stores its parameter or raises", skip is None)
    if skip is not None:
        cond = [" ".join(ast.unparse(x.ast).split())[:80] for x in skip if x.kind == "cond"]
        for pr, cl in (("C22", "C22.d"), ("C19", "C19.d")):
            out.append(Finding(pr, cl, L, "TextXVisitor.visit_rule_params", "skip under " + " / ".join(cond[-2:]), "a rule parameter given in the grammar is dropped on this path: a rule that states its whitespace mode explicitly no longer pins it and inherits the mode of whatever rule calls it", witness="X[skipws]: ...; called from a [noskipws] rule and from a default rule at the same position"))
    # ---------------- C22.e
    vt = find(t, "TextXVisitor.visit_textx_rule"); fi = sem.info(vt)
    wr = [c for c in calls(vt, own=True) if callee_name(c) == "Sequence" and any(k.arg == "root" for k in c.keywords)]
    if not wr: raise AnalysisError("visit_textx_rule: root wrapper construction not found")
    for c in wr:
        inst += 1
        has = any(k.arg is None and ast.unparse(k.value) == "rule_params" for k in c.keywords)
        empty = any((ast.unparse(gd) == "rule_params" and not pol) or (ast.unparse(gd).replace(" ", "") in ("notrule_params",) and pol) for gd, pol in fi.guards(c))
        okc = has or empty
        ob("C22", "C22.e", L, "TextXVisitor.visit_textx_rule", " ".join(ast.unparse(c).split())[:90], okc)
        if not okc:
            out.append(Finding("C22", "C22.e", L, "TextXVisitor.visit_textx_rule", " ".join(ast.unparse(c).split())[:100], "this wrapper becomes the rule's root expression but does not receive the rule parameters: noskipws / skipws / ws given on the rule are silently ignored", witness="Path[noskipws]: segs+=ID['/'];"))
    # (C22.f, the syntactic escape-table check, was replaced by C22.h: the ws translation is decided by evaluation in r_rule_params_eval)
    # ---------------- C22.g
    rr = find(t, "TextXVisitor._resolve_rule_refs"); vm = find(t, "TextXVisitor.visit_textx_model"); inst += 1
    early = any(isinstance(x, ast.Attribute) and x.attr == "_tx_peg_rule" for x in ast.walk(vm))
    refreshed = any(isinstance(n, ast.Assign) and any(isinstance(tg, ast.Attribute) and tg.attr == "comments_model" for tg in n.targets) for f in (rr, find(t, "TextXVisitor.second_textx_model")) for n in ast.walk(f))
    okg = (not early) or refreshed
    ob("C22", "C22.g", L, "TextXVisitor._resolve_rule_refs", "comment model refreshed after reference resolution", okg)
    if not okg:
        out.append(Finding("C22", "C22.g", L, "TextXVisitor.visit_textx_model", "comments_model = self.metamodel['Comment']._tx_peg_rule", "the comment rule's expression is captured before rule references are resolved and never refreshed: a Comment rule that is a single rule reference stays an unresolved reference object and parsing any model fails with AttributeError", witness="Comment: LineComment; LineComment: /\\/\\/.*?$/;"))
    # ---------------- C22.i  whenever the grammar defines a Comment rule, the parser ends up with it as its comment model
    inst += 1
    sites = []
    for f_ in (vm, rr):
        fi_ = sem.info(f_)
        for n in own_nodes(f_):
            if isinstance(n, ast.Assign) and "['Comment']._tx_peg_rule" in ast.unparse(n.value).replace('"', "'"):
                at = [(a.replace(" ", "").replace('"', "'"), p) for a, p in fi_.atoms_at(n)]
                sites.append((f_.name, n, at))
            elif isinstance(n, ast.Assign) and isinstance(n.value, ast.IfExp) and "['Comment']._tx_peg_rule" in ast.unparse(n.value.body).replace('"', "'"):
                at = [(a.replace(" ", "").replace('"', "'"), p) for a, p in fi_.atoms_at(n)] + [(ast.unparse(n.value.test).replace(" ", "").replace('"', "'"), True)]
                sites.append((f_.name, n, at))
    def plain(at): return len(at) >= 1 and all(p and a.startswith("'Comment'in") and a.endswith("metamodel") for a, p in at)
    oki = any(plain(at) for _f, _n, at in sites)
    ob("C22", "C22.i", L, "TextXVisitor", "a site wires the Comment rule under the sole condition that the grammar defines it (%d wiring sites)" % len(sites), oki)
    if not oki:
        f0, n0, at0 = sites[0] if sites else ("visit_textx_model", None, [])
        out.append(Finding("C22", "C22.i", L, "TextXVisitor." + f0, " ".join(ast.unparse(n0).split())[:90] if n0 is not None else "comments_model", "no site hands the grammar's Comment rule to the parser under the sole condition that the grammar defines one (conditions found: %s): for some configuration the parser has no comment model and comments are not skipped where whitespace skipping is active" % [[a for a, p in at] for _f, _n, at in sites], witness="skipws=False for the metamodel, a rule with [skipws], a comment inside that rule"))
    # ---------------- C21.d: decided by evaluation (sa/rules/c21.py)
    # ---------------- C20.d
    cls = find(t, "TextXVisitor")
    for fn in [f for f in cls.body if isinstance(f, ast.FunctionDef)]:
        ms = [c for c in calls(fn, own=True) if callee_name(c) in ("StrMatch", "RegExMatch")]
        if not ms: continue
        fif = sem.info(fn)
        for c in ms:
            kwv = next((k.value for k in c.keywords if k.arg == "ignore_case"), None)
            if kwv is None: continue                       # absence is C20.a's finding
            inst += 1; okc = True
            if isinstance(kwv, ast.Name):
                n = fif.node_of(c); ds = fif.rd.defs_of(n, kwv.id)
                for d in ds:
                    a = fif.cfg.nodes[d].ast
                    v = a.value if isinstance(a, ast.Assign) else None
                    if v is None or ast.unparse(fif.expand(v, at=a)) != "self.metamodel.ignore_case":
                        okc = False
                        out.append(Finding("C20", "C20.d", L, "TextXVisitor." + fn.name, " ".join(ast.unparse(a).split())[:90] if a is not None else kwv.id, "on this path the match is built with ignore_case=%s instead of the metamodel's setting" % (ast.unparse(v) if v is not None else "?"), witness="ignore_case=True and a regex literal starting with (?: ... )"))
            elif ast.unparse(kwv) != "self.metamodel.ignore_case":
                pass                                        # C20.a decides plain expressions
            ob("C20", "C20.d", L, "TextXVisitor." + fn.name, "ignore_case=%s on all reaching definitions" % ast.unparse(kwv), okc)
    # ---------------- C23.f
    vr = find(t, "TextXVisitor.visit_re_match")
    comp = [c for c in calls(vr, own=True) if callee_name(c) == "compile"]
    if not comp: raise AnalysisError("visit_re_match: compile() not found")
    for c in comp:
        inst += 1
        tr = next((a for a in ancestors(c) if isinstance(a, ast.Try)), None)
        wide = tr is not None and any(h.type is None or (isinstance(h.type, ast.Name) and h.type.id in ("Exception", "BaseException")) for h in tr.handlers)
        ob("C23", "C23.f", L, "TextXVisitor.visit_re_match", "handler around regex compilation is `except Exception` or wider", wide)
        if not wide:
            got = [ast.unparse(h.type) for h in tr.handlers] if tr is not None else []
            out.append(Finding("C23", "C23.f", L, "TextXVisitor.visit_re_match", "except %s" % ", ".join(got), "compiling a regex from the grammar can raise more than %s (OverflowError for /a{4294967295}/, ValueError for incompatible inline flags, RecursionError): those escape metamodel_from_str as non-textX exceptions" % (got or "nothing"), witness="/a{4294967295}/"))
    return inst, out
def r_C23g_C24d(root):
    out = []; inst = 0
    # ---------------- C23.g   dict.get() results used without a None test
    for rel in (MM, L):
        t = load(root, rel)
        for fn in [n for n in ast.walk(t) if isinstance(n, ast.FunctionDef)]:
            gets = [n for n in own_nodes(fn) if isinstance(n, ast.Assign) and len(n.targets) == 1 and isinstance(n.targets[0], ast.Name) and isinstance(n.value, ast.Call) and callee_name(n.value) == "get" and len(n.value.args) == 1 and not n.value.keywords]
            if not gets: continue
            fi = sem.info(fn)
            for a in gets:
                v = a.targets[0].id
                for u in own_nodes(fn):
                    risky = None
                    if isinstance(u, ast.Compare) and isinstance(u.ops[0], (ast.In, ast.NotIn)) and isinstance(u.comparators[0], ast.Name) and u.comparators[0].id == v: risky = u
                    elif isinstance(u, ast.Subscript) and isinstance(u.value, ast.Name) and u.value.id == v and isinstance(u.ctx, ast.Load): risky = u
                    elif isinstance(u, ast.Attribute) and isinstance(u.value, ast.Name) and u.value.id == v and isinstance(u.ctx, ast.Load): risky = u
                    if risky is None: continue
                    n = fi.node_of(risky)
                    if n is None or fi.node_of(a) is None: continue
                    if fi.node_of(a).id not in fi.rd.defs_of(n, v): continue            # another definition reaches
                    inst += 1
                    tested = any(any(isinstance(x, ast.Name) and x.id == v for x in ast.walk(g)) for g, pol in fi.guards(risky))
                    if not tested:
                        # the absent case is replaced before the use:  if v is None: v = ... (or leave) -- the looked-up value reaches the use only when present
                        def _absent(tst_):
                            if isinstance(tst_, ast.Compare) and len(tst_.ops) == 1 and isinstance(tst_.ops[0], ast.Is) and isinstance(tst_.left, ast.Name) and tst_.left.id == v and isinstance(tst_.comparators[0], ast.Constant) and tst_.comparators[0].value is None: return True
                            if isinstance(tst_, ast.UnaryOp) and isinstance(tst_.op, ast.Not) and isinstance(tst_.operand, ast.Name) and tst_.operand.id == v: return True
                            return None
                        def _present(tst_):
                            if isinstance(tst_, ast.Compare) and len(tst_.ops) == 1 and isinstance(tst_.ops[0], ast.IsNot) and isinstance(tst_.left, ast.Name) and tst_.left.id == v and isinstance(tst_.comparators[0], ast.Constant) and tst_.comparators[0].value is None: return True
                            return isinstance(tst_, ast.Name) and tst_.id == v
                        def _replaces(body_):
                            if not body_: return False
                            if isinstance(body_[-1], (ast.Return, ast.Raise, ast.Continue, ast.Break)): return True
                            return any(isinstance(st_, ast.Assign) and any(isinstance(tg_, ast.Name) and tg_.id == v for tg_ in st_.targets) for st_ in body_)
                        for i_ in own_nodes(fn):
                            if isinstance(i_, ast.If) and a.lineno < i_.lineno and getattr(i_, "end_lineno", i_.lineno) < risky.lineno and not any(x is i_ for x in ancestors(risky)) and any(x is getattr(i_, "_parent", None) for x in [getattr(a, "_parent", None)] + list(ancestors(risky))):
                                if (_absent(i_.test) and _replaces(i_.body)) or (_present(i_.test) and _replaces(i_.orelse)): tested = True
                    ob("C23", "C23.g", rel, qualname(fn), "%s = %s ... %s" % (v, ast.unparse(a.value)[:40], ast.unparse(risky)[:40]), tested)
                    if not tested:
                        out.append(Finding("C23", "C23.g", rel, qualname(fn), "%s; %s" % (" ".join(ast.unparse(a).split())[:60], ast.unparse(risky)[:50]), "%s is None when the key is absent and is then used as a container/object: TypeError/AttributeError instead of a textX error" % v, witness="a qualified class name whose qualifier is neither a referenced language nor an imported namespace: [types.Thing]"))
    # ---------------- C24.d
    mm = load(root, MM); mmm = find(mm, "TextXMetaMetaModel.metamodel")
    cs = [c for c in calls(mmm) if callee_name(c) in ("metamodel_from_file", "metamodel_from_str")]
    if not cs: raise AnalysisError("construction of the self-hosted metamodel not found")
    DEFAULTS = {"autokwd": "False", "ignore_case": "False", "skipws": "True", "ws": "None"}
    for c in cs:
        inst += 1; okc = True
        for k in c.keywords:
            if k.arg in DEFAULTS and ast.unparse(k.value) != DEFAULTS[k.arg]:
                okc = False
                out.append(Finding("C24", "C24.d", MM, "TextXMetaMetaModel.metamodel", "%s=%s" % (k.arg, ast.unparse(k.value)), "the self-hosted grammar is compiled with %s=%s while the grammar compiler's own parser tokenises with the default: the two accept different grammar texts" % (k.arg, ast.unparse(k.value)), witness="vals+=INT[eoltermeolterm] / importbase"))
            if k.arg is None:
                raise AnalysisError("self-hosted metamodel built with **kwargs: options cannot be enumerated")
        ob("C24", "C24.d", MM, "TextXMetaMetaModel.metamodel", " ".join(ast.unparse(c).split())[:90], okc)
    lf = find(load(root, L), "language_from_str")
    # the construction may sit in a helper of lang.py: every ParserPython(...) built over textx_model is the grammar parser
    pp = [c for c in calls(load(root, L)) if callee_name(c) == "ParserPython" and c.args and ast.unparse(c.args[0]) == "textx_model"]
    if not pp: raise AnalysisError("grammar parser construction not found")
    for c in pp:
        inst += 1; okc = True
        for k in c.keywords:
            if k.arg in ("ignore_case", "skipws", "ws", "autokwd") and not isinstance(k.value, ast.Constant):
                okc = False
                out.append(Finding("C24", "C24.d", L, "language_from_str", "%s=%s" % (k.arg, ast.unparse(k.value)), "the grammar compiler's parser takes %s from the metamodel being built: the accepted grammar language varies with it while textx.tx does not" % k.arg))
            if k.arg == "ignore_case" and isinstance(k.value, ast.Constant) and k.value.value is not False:
                okc = False; out.append(Finding("C24", "C24.d", L, "language_from_str", "ignore_case=%s" % ast.unparse(k.value), "the grammar compiler's parser is case-insensitive, textx.tx is not"))
        ob("C24", "C24.d", L, "language_from_str", "grammar parser tokenisation options are constants", okc)
    return inst, out

def r_rule_params_eval(root):
    """C23.d / C22.h  visit_rule_params decided by abstract evaluation (sa/pyeval.py, nothing of textX runs) over the finite
       domain  name in {skipws, ws, split, other} x value in {True, False, strings with and without escapes}:
         C23.d  no combination makes the code fail with a Python-level error (a bool used as a string: `'\\\\' in False`,
                len(True)); it either raises a TextX error or returns the parameter table;
         C22.h  for ws given as a string with escapes the resulting set is exactly the characters named: newline iff \\n
                occurs, carriage return iff \\r, tab iff \\t, blank iff a blank occurs; without a backslash the string itself."""
    from sa import pyeval
    out = []; inst = 0
    fn = find_i(root, L, "TextXVisitor.visit_rule_params"); fn1 = find(load(root, L), "TextXVisitor.visit_rule_param")
    p1 = [a_.arg for a_ in fn1.args.args]; pN = [a_.arg for a_ in fn.args.args]
    STR = ["", " ", "a", "\\n", "\\r", "\\t", "\\r\\n", "\\n\\r", " \\t\\r\\n", "\\t ", "\\n "]
    visitor = {".kind": "visitor", ".debug": False, ".grammar_parser": {".pos_to_linecol": pyeval.PyFn(lambda p_: (1, p_)), ".debug": False}, ".metamodel": {".file_name": "g.tx"}}
    for name in ("skipws", "ws", "split", "other"):
        for value in [True, False] + STR:
            inst += 1
            base_env = {"__module__": load(root, L), "__functions__": {k_: v_ for k_, v_ in helper_functions(root, L, "TextXVisitor.visit_rule_params").items() if k_.startswith("_") and not k_.startswith("__")}}
            try:
                # the pipeline of the two visitors, as the parse tree is visited: one rule_param node ([name] / ['no'+name] / [name, value]) -> the pair -> the table
                kids1 = [name, value] if isinstance(value, str) else [name if value else "no" + name]
                env1 = dict(base_env); env1.update({p1[0]: visitor, p1[1]: {".kind": "node", ".position": 0}, p1[2]: kids1})
                pair = pyeval.run_block(fn1.body, env1)
                env = dict(base_env); env.update({pN[0]: visitor, pN[1]: {".kind": "node", ".position": 0}, pN[2]: [pair]})
                res = ("ret", pyeval.run_block(fn.body, env))
            except pyeval.Raised as r: res = ("raise", r.cls)
            except pyeval.Unsupported as e: raise AnalysisError("visit_rule_params: outside the evaluated subset: %s" % e)
            except (TypeError, AttributeError, KeyError, IndexError, ValueError) as e: res = ("pyerror", "%s: %s" % (type(e).__name__, e))
            okd = res[0] != "pyerror" and not (res[0] == "raise" and not res[1].startswith("TextX"))
            ob("C23", "C23.d", L, "TextXVisitor.visit_rule_params", "[%s=%r] -> %s" % (name, value, res[1] if res[0] != "ret" else "table"), okd)
            if not okd: out.append(Finding("C23", "C23.d", L, "TextXVisitor.visit_rule_params", "rule param %s with value %r" % (name, value), "the rule parameter is handled with %s instead of a TextX error (a bare / negated flag yields a bool where the code expects a string)" % res[1], witness="Rule[%s%s]: 'a';" % ("no" if value is False else "", name)))
            if name == "ws" and isinstance(value, str) and res[0] == "ret":
                got = res[1].get("ws") if isinstance(res[1], dict) else None
                want = value if "\\" not in value else "".join(ch for tok, ch in (("\\n", "\n"), ("\\r", "\r"), ("\\t", "\t"), (" ", " ")) if tok in value)
                okw = isinstance(got, str) and set(got) == set(want) and (("\\" in value) or got == value)
                for pr in ("C22", "C01"): ob(pr, "C22.h", L, "TextXVisitor.visit_rule_params", "[ws=%r] -> %r" % (value, got), okw)
                if not okw:
                    for pr in ("C22", "C01"): out.append(Finding(pr, "C22.h", L, "TextXVisitor.visit_rule_params", "ws=%r" % value, "the whitespace set of the rule becomes %r, the modifier names %r: characters of the declared set are not skipped inside the rule (or others are)" % (got, want), witness="Rule[ws=%s] with that character between two tokens" % repr(value)))
    return inst, out

def r_C22jk(root):
    """C22.j  visit_rule_param by evaluation: [skipws] -> (skipws, True), [noskipws] -> (skipws, False), [ws='x'] -> (ws, 'x'),
              whatever the metamodel-wide setting is (an explicit modifier pins the mode of its rule; it is never dropped
              because it 'equals the default').
       C22.k  the visitor hands skipws / ws to a parsing expression only from the rule's own parameter table: no expression
              constructor call in TextXVisitor has a skipws= or ws= keyword (they arrive through **rule_params / setattr)."""
    from sa import pyeval
    out = []; inst = 0
    fn = find_i(root, L, "TextXVisitor.visit_rule_param")
    for children, want in ((["skipws"], ["skipws", True]), (["noskipws"], ["skipws", False]), (["ws", " x"], ["ws", " x"]), (["nows"], ["ws", False])):
        for glob in (True, False):
            inst += 1
            env = {"children": list(children), "self.debug": False, "self.metamodel.skipws": glob, "self.metamodel.ws": None, "node": {".k": 1}}
            try: res = pyeval.run_block(fn.body, env)
            except pyeval.Unsupported as e: raise AnalysisError("visit_rule_param: outside the evaluated subset: %s" % e)
            except pyeval.Raised as e: res = "raise " + e.cls
            ok = isinstance(res, (list, tuple)) and list(res) == want
            for pr in ("C22", "C01"): ob(pr, "C22.j", L, "TextXVisitor.visit_rule_param", "%s with metamodel skipws=%s -> %s" % (children, glob, res), ok)
            if not ok:
                for pr in ("C22", "C01"): out.append(Finding(pr, "C22.j", L, "TextXVisitor.visit_rule_param", "[%s] with metamodel skipws=%s" % (" ".join(children), glob), "the rule parameter is read as %s, documented %s: an explicit modifier that equals the metamodel-wide setting must still pin the rule's mode" % (res, want), witness="a [skipws] rule called from a [noskipws] rule"))
    t = load(root, L); vis = find(t, "TextXVisitor")
    expr_classes = {a.asname or a.name for n in t.body if isinstance(n, ast.ImportFrom) and (n.module or "").startswith("arpeggio") for a in n.names}
    n_ctor = 0
    for c in calls(vis):
        if callee_name(c) in expr_classes:
            n_ctor += 1
            for k in c.keywords:
                if k.arg in ("skipws", "ws"):
                    inst += 1
                    for pr in ("C22", "C01"): out.append(Finding(pr, "C22.k", L, qualname(c), " ".join(ast.unparse(c).split())[:90], "a parsing expression is built with %s=%s: it overrides the whitespace mode of the rule it belongs to (modifiers reach expressions only through the rule's own parameter table)" % (k.arg, ast.unparse(k.value)[:40]), witness="Time[noskipws]: hours=INT 'h' mins=INT 'm';  input '1h 30m'"))
    inst += 1
    for pr in ("C22", "C01"): ob(pr, "C22.k", L, "TextXVisitor", "%d expression constructor calls carry no skipws=/ws= keyword" % n_ctor, not any(f.rule == "C22.k" for f in out))
    return inst, out
