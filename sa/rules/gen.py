"""General clause families.  Each applies one repository-specific rule to *every* function of the analysed files and
attributes a finding to the properties whose mechanism the function belongs to (table ATTRIB, from the anchors of
properties.jsonl, confirmed by reading).

  .T  truthiness: a value that can be a model object (or a value converted from matched text) is tested with
      `is None` / `is not None`, never for truth.  Model objects may be instances of user classes defining __len__ /
      __bool__, match-rule values may be 0 / '' / False: a truth test treats "present but falsy" like "absent".
  .M  memo keys: where a computation is skipped because a key was seen before (dict/set/attribute used as a memo),
      everything the skipped computation depends on and that can vary during the memo's lifetime is determined by
      the key (see r_memo).
"""
import ast, re
from sa.util import *
from sa import sem
MODEL = "textx/model.py"; PROV = "textx/scoping/providers.py"; RREL = "textx/scoping/rrel.py"; TOOLS = "textx/scoping/tools.py"; SCOP = "textx/scoping/__init__.py"; MM = "textx/metamodel.py"; LANG = "textx/lang.py"
FILES = [MODEL, PROV, RREL, TOOLS, SCOP, MM]
# (file, qualified-name prefix) -> properties whose mechanism runs through that function   (longest prefix wins)
ATTRIB = [
    (MODEL, "get_model", ("C05", "C06")), (MODEL, "get_parent_of_type", ("C05",)), (MODEL, "get_children", ("C05",)), (MODEL, "get_children_of_type", ("C05",)),
    (MODEL, "get_location", ("C06", "C33", "C28")), (MODEL, "textx_isinstance", ("C03", "C07")), (MODEL, "textxerror_wrap", ("C33",)),
    (MODEL, "parse_tree_to_objgraph", ("C09", "C13")), (MODEL, "parse_tree_to_objgraph.process_node", ("C01", "C02", "C05")), (MODEL, "parse_tree_to_objgraph.process_match", ("C01", "C04")),
    (MODEL, "parse_tree_to_objgraph.call_obj_processors", ("C13",)), (MODEL, "ReferenceResolver", ("C09", "C07")), (MODEL, "ReferenceResolver.resolve_one_step", ("C09", "C07", "C32", "C34")),
    (MODEL, "_end_model_construction", ("C14",)), (MODEL, "get_model_parser", ("C16",)),
    (PROV, "PlainName", ("C07",)), (PROV, "FQN", ("C10",)), (PROV, "ImportURI", ("C17",)), (PROV, "FQNImportURI", ("C17", "C10")), (PROV, "PlainNameImportURI", ("C17", "C07")),
    (PROV, "GlobalRepo", ("C17",)), (PROV, "RelativeName", ("C09",)), (PROV, "ExtRelativeName", ("C09",)),
    (RREL, "", ("C11",)), (RREL, "create_rrel_scope_provider", ("C11", "C16")), (RREL, "parse", ("C11", "C12", "C16")), (TOOLS, "", ("C09", "C11")), (SCOP, "", ("C17",)), (SCOP, "ModelRepository.remove_model", ("C18",)), (SCOP, "remove_models_from_repositories", ("C18",)),
    (MM, "TextXMetaModel.internal_model_from_file", ("C17",)), (MM, "TextXMetaModel._init_obj_attrs", ("C01",)), (MM, "TextXMetaModel.process", ("C33", "C13")),
    (MM, "TextXMetaModel.has_obj_processor", ("C13",)), (MM, "TextXMetaModel.register_obj_processors", ("C13",)), (MM, "TextXMetaModel.register_scope_providers", ("C32",)),
    ("textx/model_params.py", "", ("C27",)),
    (LANG, "TextXVisitor.visit_str_match", ("C20", "C21", "C01", "C02", "C03", "C06")), (LANG, "TextXVisitor._resolve_rule_refs", ("C01", "C03", "C20")), (LANG, "TextXVisitor.visit_re_match", ("C20", "C01")), (LANG, "TextXVisitor.visit_repeat_modifiers", ("C01", "C21", "C02")),
    (LANG, "TextXVisitor.visit_obj_ref", ("C32", "C11")), (LANG, "TextXVisitor.visit_assignment", ("C01", "C02", "C32", "C13", "C03")), (LANG, "TextXVisitor.visit_textx_rule", ("C01", "C22")),
    (LANG, "TextXVisitor.__init__", ("C21", "C20")), (LANG, "_compile_keyword", ("C20", "C21")), (LANG, "RuleCrossRef", ("C32", "C11")), (LANG, "ClassCrossRef", ("C25",)),
    (RREL, "RRELPath", ("C11", "C12")), (RREL, "RRELVisitor", ("C11", "C12")),
]
def _explicit(rel, q):
    best = None
    for f, pre, ps in ATTRIB:
        if f == rel and (pre == "" or q == pre or q.startswith(pre + ".")):
            if best is None or len(pre) > len(best[0]): best = (pre, ps)
    return best[1] if best else ()
# Derived attribution: a function called (directly or through one more call) from a function of a property's mechanism
# belongs to that mechanism too -- a helper that treats a present value as absent breaks every caller's property.
# Calls are resolved over the whole package (sa/callgraph.py: lexical names, self methods, imported functions and
# method names unique in textx); file-wide entries of ATTRIB (prefix "") are not propagated, they only name the file.
_derived_cache = {}
import sa.util as _util
_util._resetters.append(_derived_cache.clear)
DERIVE_DEPTH = 2
def _derived(root):
    if root in _derived_cache: return _derived_cache[root]
    from sa.source import Index
    from sa.callgraph import CallGraph
    import os
    d = {}
    try:
        ix = Index(repo=root, with_arpeggio=False); cg = CallGraph(ix)
    except (OSError, SyntaxError) as e: raise AnalysisError("call graph of %s cannot be built: %s" % (root, e))
    def key(qual):
        for m in ix.modules.values():
            if qual.startswith(m.name + ".") and qual[len(m.name) + 1:] in m.funcs:
                return (os.path.relpath(m.path, root), qual[len(m.name) + 1:].replace("<locals>.", ""))
        return None
    def narrow(rel, q):
        best = None
        for f, pre, ps in ATTRIB:
            if f == rel and pre != "" and (q == pre or q.startswith(pre + ".")):
                if best is None or len(pre) > len(best[0]): best = (pre, ps)
        return set(best[1]) if best else set()
    keys = {}
    for m in ix.modules.values():
        for q, f in m.funcs.items(): keys[f.qual] = (os.path.relpath(m.path, root), q.replace("<locals>.", ""))
    cur = {fq: narrow(*k) for fq, k in keys.items()}
    for _ in range(DERIVE_DEPTH):
        nxt = {fq: set(ps) for fq, ps in cur.items()}
        for f, _call, kind, targets in cg.sites:
            ps = cur.get(f.qual)
            if not ps or kind not in ("func", "self", "modfunc", "unique-method"): continue
            for c in targets:
                cq = getattr(c, "qual", None)
                if cq in nxt and not cq.endswith(".__init__"): nxt[cq] |= ps
        cur = nxt
    for fq, ps in cur.items():
        if ps: d.setdefault(keys[fq], set()).update(ps)
    _derived_cache[root] = d
    return d
def props_for(rel, q, root=None):
    ps = tuple(_explicit(rel, q))
    if root is None: return ps
    d = _derived(root); extra = set()
    qq = q
    while True:                                        # a nested function belongs to what its enclosing function belongs to
        extra |= d.get((rel, qq), set())
        if "." not in qq: break
        qq = qq.rsplit(".", 1)[0]
    return tuple(ps) + tuple(sorted(extra - set(ps)))
# ---------------------------------------------------------------------------------------------------------------- .T
OBJ_CALLS = {"_find_obj_fqn", "find_obj", "_inner_resolve_link_rule_ref", "_find_referenced_obj", "find", "process_node", "call_obj_processors", "process",
             "get_model", "get_parent_of_type", "get_referenced_object", "get_unique_named_object", "get_unique_named_object_in_all_models", "resolve_model_path"}
OBJ_CALLS_TUPLE = {"lookup": 0, "find_object_with_path": 0}
def _is_provider_call(c):
    f = c.func
    if isinstance(f, ast.Subscript) and isinstance(f.value, ast.Attribute) and f.value.attr == "scope_providers": return True
    nm = callee_name(c) or ""
    if nm.startswith(("has_", "is_", "register_", "create_")): return False
    return bool(re.search(r"(^|_)scope_provider$|^provider$|_provider$|^default_scope$|^obj_processor$|_obj_processor$", nm))
def _source_kind(x):
    """is the expression itself a read of a possibly-falsy present value?  ('parent link' | 'attribute value' | 'result of f()' | None)"""
    if isinstance(x, ast.Attribute) and x.attr == "parent": return "parent link"
    if isinstance(x, ast.Subscript) and "_inst_stack" in ast.unparse(x.value): return "object on the instance stack"
    if isinstance(x, ast.Subscript) and isinstance(x.value, ast.Attribute) and x.value.attr in ("_obj_processors", "obj_processors", "scope_providers"): return "registered callable"
    if isinstance(x, ast.Call):
        nm = callee_name(x)
        if nm == "get" and isinstance(x.func, ast.Attribute) and isinstance(x.func.value, ast.Attribute) and x.func.value.attr in ("_obj_processors", "obj_processors", "scope_providers"): return "registered callable"
        if nm == "getattr" and len(x.args) >= 2:
            a1 = x.args[1]
            if isinstance(a1, ast.Constant): return "parent link" if a1.value == "parent" else None
            return "attribute value"
        if nm in OBJ_CALLS and not (isinstance(x.func, ast.Attribute) and nm in ("find", "process") and isinstance(x.func.value, ast.Name) and x.func.value.id in ("re", "str", "os")): return "result of %s()" % nm
        if _is_provider_call(x): return "result of %s()" % (nm or "scope_providers[...]")
    return None
def may_obj(fi, expr, at, depth=0, seen=None):
    """kind of possibly-falsy value `expr` may hold at `at` (any reaching definition), or None"""
    k = _source_kind(expr)
    if k: return k
    if isinstance(expr, ast.IfExp) and depth <= 6:
        return may_obj(fi, expr.body, at, depth + 1, seen) or may_obj(fi, expr.orelse, at, depth + 1, seen)
    if depth > 6 or not isinstance(expr, ast.Name): return None
    node = fi.node_of(at)
    if node is None: return None
    seen = seen if seen is not None else set()
    for d in fi.rd.defs_of(node, expr.id):
        if (expr.id, d) in seen: continue
        seen.add((expr.id, d))
        dn = fi.cfg.nodes[d]; a = dn.ast
        if dn.kind == "stmt" and isinstance(a, ast.Assign):
            for tg in a.targets:
                if isinstance(tg, ast.Name) and tg.id == expr.id:
                    k = may_obj(fi, a.value, a, depth + 1, seen)
                    if k: return k
                elif isinstance(tg, (ast.Tuple, ast.List)) and isinstance(a.value, ast.Call) and callee_name(a.value) in OBJ_CALLS_TUPLE:
                    i = OBJ_CALLS_TUPLE[callee_name(a.value)]
                    if i < len(tg.elts) and isinstance(tg.elts[i], ast.Name) and tg.elts[i].id == expr.id: return "result of %s()" % callee_name(a.value)
        elif dn.kind == "loop" and a is not None:
            lp = getattr(a, "_parent", None)
            if isinstance(lp, ast.For):
                it = lp.iter; tgt = lp.target
                if isinstance(it, ast.Call) and callee_name(it) == "enumerate" and it.args and isinstance(tgt, ast.Tuple) and len(tgt.elts) == 2 and isinstance(tgt.elts[1], ast.Name) and tgt.elts[1].id == expr.id: it = it.args[0]
                elif not (isinstance(tgt, ast.Name) and tgt.id == expr.id): continue
                k = may_obj(fi, it, lp, depth + 1, seen)
                if k == "attribute value": return "element of an attribute value"
    return None
def _expand_consts(atom, use):
    """the atom with module-level names bound to a tuple/list of names written out (attr.mult in _MULT_MANY -> attr.mult in (MULT_ONEORMORE, MULT_ZEROORMORE))"""
    mod = use
    while mod is not None and not isinstance(mod, ast.Module): mod = getattr(mod, "_parent", None)
    if mod is None: return atom
    try: t = ast.parse(atom, mode="eval")
    except SyntaxError: return atom
    tab = {}
    for st in mod.body:
        if isinstance(st, ast.Assign) and len(st.targets) == 1 and isinstance(st.targets[0], ast.Name) and isinstance(st.value, (ast.Tuple, ast.List)) and st.value.elts and all(isinstance(x, ast.Name) for x in st.value.elts):
            tab[st.targets[0].id] = st.value
    if not tab: return atom
    class X(ast.NodeTransformer):
        def visit_Name(s_, n): return tab.get(n.id, n)
    return ast.unparse(X().visit(t))
def _list_proof(fi, use):
    for a, pol in fi.atoms_at(use):
        a = _expand_consts(a, use)
        u = a.replace(" ", "")
        if ".multin" in u.replace("_", "").lower() or ".multin" in u:
            many = "MULT_ZEROORMORE" in u or "MULT_ONEORMORE" in u; one = "MULT_ONE," in u or "MULT_OPTIONAL" in u
            if (many and not one and pol) or (one and not many and not pol): return True
        if u.startswith("isinstance(") and u.endswith(",list)") and pol: return True
    return False
def _mult_assign_guard(use):
    for a in ancestors(use):
        if isinstance(a, ast.If) and any(x is use for x in ast.walk(a.test)):
            return any(isinstance(r, ast.Raise) and "MULT_ASSIGN_ERROR" in ast.unparse(r) for s in a.body for r in ast.walk(s))
        if isinstance(a, ast.stmt): return False
    return False
def _parse_fixture(src):
    t = ast.parse(src)
    for a in ast.walk(t):
        for c in ast.iter_child_nodes(a): c._parent = a
    return t
def _truth_scan(t):
    """[(function, use expr, kind, ok, why)] for every truth test of a possibly-falsy present value in tree t"""
    res = []
    for fn in [n for n in ast.walk(t) if isinstance(n, ast.FunctionDef)]:
        uses = truth_uses(fn, lambda e: isinstance(e, (ast.Name, ast.Attribute, ast.Call)))
        if not uses: continue
        fi = sem.info(fn)
        for e in uses:
            k = may_obj(fi, e, e)
            if not k: continue
            ok = False; why = ""
            if k == "attribute value" and _list_proof(fi, e): ok, why = True, "multi-valued attribute (a list) under the multiplicity guard"
            elif k == "attribute value" and _mult_assign_guard(e): ok, why = True, "multiple-assignment detection: the attribute still holds its falsy default"
            res.append((fn, e, k, ok, why))
    return res
TRUTH_FIXTURE = """
def walk(model_obj, metaattr, provider, many):
    attr = getattr(model_obj, metaattr.name)
    if attr:                                   # must be reported
        pass
    if metaattr.mult in [MULT_ONEORMORE, MULT_ZEROORMORE]:
        if attr: pass                          # a list: fine
    r = None
    if many: r = provider(model_obj, metaattr, None)
    return r or model_obj.parent               # r: must be reported
"""
def r_truth(root):
    out = []; inst = 0
    fx = _truth_scan(_parse_fixture(TRUTH_FIXTURE))
    if sorted((ast.unparse(e), ok) for _f, e, _k, ok, _w in fx) != [("attr", False), ("attr", True), ("r", False)]:
        raise AnalysisError("truthiness rule: the built-in positive example is no longer classified as expected: %s" % [(ast.unparse(e), k, ok) for _f, e, k, ok, _w in fx])
    for rel in FILES:
        t = load(root, rel)
        for fn, e, k, ok, why in _truth_scan(t):
            q = qualname(fn); ps = props_for(rel, q, root)
            if not ps: continue
            inst += 1
            for p in ps: ob(p, p + ".T", rel, q, "truth test of %s (%s)%s" % (ast.unparse(e)[:60], k, " - " + why if why else ""), ok)
            if ok: continue
            for p in ps:
                out.append(Finding(p, p + ".T", rel, q, "truth test of %s" % " ".join(ast.unparse(e).split())[:80], "%s is tested for truth: a present but falsy value (an object of a user class defining __len__/__bool__, a converted match value 0 or '') is treated as absent" % k, witness="user class with __len__ returning 0 (e.g. an empty container object)"))
    if inst < 2: raise AnalysisError("truthiness rule: only %d object-valued truth tests classified (list guard of get_children and the multiple-assignment test expected)" % inst)
    return inst, out
# ---------------------------------------------------------------------------------------------------------------- .M
def _chain_of(x):
    parts = []
    while isinstance(x, ast.Attribute): parts.append(x.attr); x = x.value
    if isinstance(x, ast.Name): parts.append(x.id); return ".".join(reversed(parts)), x
    return None, None
def _load_chains(e, key_mode=False):
    """[(chain text, root Name node)] of the maximal dotted loads in e.  key_mode: only what the expression determines
    injectively: id(x) and str/tuple wrappers and method-call receivers count as x; other calls are opaque"""
    out = []
    def w(x):
        if isinstance(x, ast.Call):
            nm = callee_name(x)
            if key_mode:
                if isinstance(x.func, ast.Name) and nm in ("id", "tuple", "abspath", "frozenset") and x.args:
                    for a in x.args: w(a)
                elif isinstance(x.func, ast.Attribute) and nm in ("lower", "casefold", "strip"): w(x.func.value)
                return
            if isinstance(x.func, ast.Attribute): w(x.func.value)
            elif isinstance(x.func, ast.Name): out.append((x.func.id, x.func))
            else: w(x.func)
            for a in x.args: w(a)
            for k in x.keywords: w(k.value)
            return
        if isinstance(x, (ast.Attribute, ast.Name)):
            c, r = _chain_of(x)
            if c and isinstance(getattr(r, "ctx", ast.Load()), ast.Load): out.append((c, r)); return
        if isinstance(x, (ast.Lambda, ast.FunctionDef)): return
        if isinstance(x, (ast.ListComp, ast.SetComp, ast.GeneratorExp, ast.DictComp)):
            bound = set()
            for g_ in x.generators: bound |= {y.id for y in ast.walk(g_.target) if isinstance(y, ast.Name)}
            n0 = len(out)
            for c in ast.iter_child_nodes(x): w(c)
            out[n0:] = [(c_, r_) for c_, r_ in out[n0:] if r_.id not in bound]
            return
        for c in ast.iter_child_nodes(x): w(c)
    w(e); return out
def _inputs(fi, expr, at, acc, seen, skip_tests, depth=0, key_mode=False):
    """chains rooted at parameters / free variables on which expr (evaluated at statement `at`) depends through data
    and control dependence inside the function"""
    node = fi.node_of(at)
    for c, r in _load_chains(expr, key_mode):
        defs = fi.rd.defs_of(node, r.id) if node is not None else []
        if not defs: acc.add(c); continue
        for d in defs:
            dn = fi.cfg.nodes[d]; a = dn.ast
            if dn.kind == "entry": acc.add(c); continue
            if (r.id, d) in seen or depth > 8: continue
            seen.add((r.id, d))
            if dn.kind == "stmt" and isinstance(a, (ast.Assign, ast.AnnAssign, ast.AugAssign)) and getattr(a, "value", None) is not None:
                _inputs(fi, a.value, a, acc, seen, skip_tests, depth + 1)
                for g, _pol in fi.guards(a):
                    if not any(g is s for s in skip_tests): _inputs(fi, g, g, acc, seen, skip_tests, depth + 1)
            elif dn.kind == "loop" and a is not None and isinstance(getattr(a, "_parent", None), ast.For):
                # a loop inside the skipped computation is internal to it; the variable of an enclosing loop is an input that changes per iteration
                if not (skip_tests and any(gg is skip_tests[0] for gg, _p in fi.guards(a))): acc.add(c)
                _inputs(fi, a, a, acc, seen, skip_tests, depth + 1)
            elif dn.kind in ("def",): pass
            else: acc.add(c)
    return acc
def _mentions_lookup(fi, test, dtext, scalar):
    """the key expression looked up in container dtext by `test` (directly or through a variable defined from a lookup), True for a scalar memo, else None"""
    def direct(e):
        for x in ast.walk(e):
            if scalar and isinstance(x, ast.Attribute) and ast.unparse(x) == dtext and isinstance(x.ctx, ast.Load):
                # lazy initialisation tests absence (`is None`, truth, hasattr); `if self.x != v: self.x = v` is an update, not a memo
                par = getattr(x, "_parent", None)
                if isinstance(par, ast.Compare) and not (len(par.ops) == 1 and isinstance(par.ops[0], (ast.Is, ast.IsNot)) and isinstance(par.comparators[0], ast.Constant) and par.comparators[0].value is None): continue
                return True
            if isinstance(x, ast.Compare) and len(x.ops) == 1 and isinstance(x.ops[0], (ast.In, ast.NotIn)) and ast.unparse(x.comparators[0]) == dtext: return x.left
            if isinstance(x, ast.Call) and isinstance(x.func, ast.Attribute) and x.func.attr in ("get", "setdefault") and ast.unparse(x.func.value) == dtext and x.args: return x.args[0]
            if isinstance(x, ast.Subscript) and isinstance(x.ctx, ast.Load) and ast.unparse(x.value) == dtext: return x.slice
        return None
    k = direct(test)
    if k is not None: return k
    node = fi.node_of(test)
    for x in ast.walk(test):
        if isinstance(x, ast.Name) and node is not None:
            for d in fi.rd.defs_of(node, x.id):
                a = fi.cfg.nodes[d].ast
                if fi.cfg.nodes[d].kind == "stmt" and isinstance(a, ast.Assign):
                    k = direct(a.value)
                    if k is not None: return k
    return None
def _module_names(t):
    names = (set(dir(__builtins__)) if not isinstance(__builtins__, dict) else set(__builtins__)) | {"__file__", "__name__"}
    for n in t.body:
        if isinstance(n, (ast.FunctionDef, ast.ClassDef)): names.add(n.name)
        elif isinstance(n, (ast.Import, ast.ImportFrom)):
            for a in n.names: names.add((a.asname or a.name).split(".")[0])
        elif isinstance(n, ast.Assign):
            for tg in n.targets:
                for x in ast.walk(tg):
                    if isinstance(x, ast.Name): names.add(x.id)
        elif isinstance(n, ast.AnnAssign) and isinstance(n.target, ast.Name): names.add(n.target.id)
    for n in ast.walk(t):            # function-local imports
        if isinstance(n, (ast.Import, ast.ImportFrom)):
            for a in n.names: names.add((a.asname or a.name).split(".")[0])
    return names
def _assigned_names(nodes):
    out = set()
    for n in nodes:
        if isinstance(n, ast.Name) and isinstance(n.ctx, ast.Store): out.add(n.id)
        elif isinstance(n, ast.arg): out.add(n.arg)
    return out
MEMO_FILES = FILES + ["textx/model_params.py", "textx/registration.py", "textx/cli/check.py", "textx/cli/generate.py", LANG, "textx/export.py", "textx/generators.py"]
MEMO_ATTRIB = [("textx/registration.py", "", ("C26",)), ("textx/cli/check.py", "", ("C30",)), ("textx/cli/generate.py", "", ("C30",)), (LANG, "", ("C16",)), ("textx/export.py", "", ("C29",)), (MM, "", ("C16",)), (MODEL, "", ("C16",))]
MEMO_EXCEPT = {   # (file, function, container) -> {input chain: reason}   (confirmed by reading; never wider than one input of one memo)
    (RREL, "RRELZeroOrMore.get_next_matches", "prevent_doubles"): {
        "ilookup_list": ("always a suffix of the one name list handed to get_next_matches, so its length determines it", "len(ilookup_list)"),
        "imatched_path": "de-duplication of different paths that reach the same object with the same remaining name parts is the purpose of the set (the first path wins)"},
}
def _memo_props(rel, q, root=None):
    ps = props_for(rel, q, root)
    if ps: return ps
    for f, pre, p in MEMO_ATTRIB:
        if f == rel: return p
    return ()
def _memo_scan(t, rel):
    """[(store stmt, container text, key expr|None, lifetime text, missing chains)] for every memo of tree t"""
    res = []; seen_sites = 0
    if True:
        modnames = _module_names(t)
        for fn in [n for n in ast.walk(t) if isinstance(n, ast.FunctionDef)]:
            if fn.name in ("__init__", "__new__"): continue
            stores = []     # (stmt, container expr, key expr|None, value expr|None, kind)
            for n in own_nodes(fn):
                if isinstance(n, ast.Assign) and len(n.targets) == 1:
                    tg = n.targets[0]
                    if isinstance(tg, ast.Subscript): stores.append((n, tg.value, tg.slice, n.value, "dict"))
                    elif isinstance(tg, ast.Attribute) and isinstance(tg.value, ast.Name) and tg.value.id == "self": stores.append((n, tg, None, n.value, "scalar"))
                elif isinstance(n, ast.Expr) and isinstance(n.value, ast.Call) and isinstance(n.value.func, ast.Attribute):
                    c = n.value
                    if c.func.attr == "setdefault" and len(c.args) == 2: stores.append((n, c.func.value, c.args[0], c.args[1], "dict"))
                    elif c.func.attr == "add" and len(c.args) == 1: stores.append((n, c.func.value, c.args[0], None, "set"))
            if not stores: continue
            fi = None
            for st, dexpr, key, val, kind in stores:
                dchain, droot = _chain_of(dexpr)
                if dchain is None or dchain.count(".") > 1: continue
                if dchain.count(".") == 1 and droot.id != "self": continue
                fi = fi or sem.info(fn)
                dtext = ast.unparse(dexpr)
                hit = None
                for g, pol in fi.guards(st):
                    k = _mentions_lookup(fi, g, dtext, kind == "scalar")
                    if k is not None: hit = (g, pol, k); break
                if hit is None: continue
                g, pol, lk = hit
                if kind != "scalar" and (lk is True or " ".join(fi.text(lk, at=g).split()) != " ".join(fi.text(key, at=st).split())): continue
                seen_sites += 1
                skip = [g] + [x for x, _p in fi.guards(g)]
                tested = set()      # `k not in D or kwargs`: the computation is skipped only when kwargs is falsy
                if isinstance(g, ast.BoolOp):
                    for v in g.values:
                        if _mentions_lookup(fi, v, dtext, kind == "scalar") is None: tested |= {c for c, _r in _load_chains(v)}
                # ---- lifetime of the container and the names that can vary during it
                cls = next((a for a in ancestors(fn) if isinstance(a, ast.ClassDef)), None)
                params_fn = _assigned_names(ast.walk(fn.args))
                outer_fns = [a for a in ancestors(fn) if isinstance(a, ast.FunctionDef)]
                if dchain.count(".") == 1:
                    attr = dexpr.attr
                    in_init = cls is not None and any(isinstance(x, ast.Attribute) and isinstance(x.ctx, ast.Store) and x.attr == attr and isinstance(x.value, ast.Name) and x.value.id == "self" for f in cls.body if isinstance(f, ast.FunctionDef) and f.name == "__init__" for x in ast.walk(f))
                    cls_level = cls is not None and any(isinstance(s, (ast.Assign, ast.AnnAssign)) and attr in _assigned_names(ast.walk(s)) for s in cls.body)
                    if cls_level and not in_init: life = "process (class-level container)"; invariant = lambda c: c.split(".")[0] in modnames
                    else: life = "instance"; invariant = lambda c: c.split(".")[0] in modnames or (c.split(".")[0] in ("self", "cls") and c.count(".") >= 1) or any(c.split(".")[0] in _assigned_names(ast.walk(o)) and c.split(".")[0] not in _assigned_names(own_nodes(fn)) | params_fn for o in outer_fns)
                else:
                    name = droot.id
                    if name in params_fn: continue                                   # container handed in by the caller: lifetime unknown here
                    own_assigned = _assigned_names(own_nodes(fn))
                    if name in own_assigned:
                        loops = [a for a in ancestors(st) if isinstance(a, (ast.For, ast.While)) and enclosing_func(a) is fn]
                        dnode = next((x for x in own_nodes(fn) if isinstance(x, ast.Name) and isinstance(x.ctx, ast.Store) and x.id == name), None)
                        loops = [l for l in loops if not any(x is dnode for x in ast.walk(l))]      # loops entered after the container was created
                        if not loops: continue
                        var = set()
                        for l in loops: var |= _assigned_names(ast.walk(l))
                        life = "one call of %s (across iterations of its loop)" % fn.name; invariant = lambda c, var=var: c.split(".")[0] not in var
                    else:
                        g_fn = next((o for o in outer_fns if name in _assigned_names(own_nodes(o)) | _assigned_names(ast.walk(o.args))), None)
                        if g_fn is None:
                            if name not in modnames: continue
                            life = "process (module-level container)"; invariant = lambda c: c.split(".")[0] in modnames
                        else:
                            inner = [fn] + outer_fns[:outer_fns.index(g_fn)]
                            var = set()
                            for f_ in inner: var |= _assigned_names(own_nodes(f_)) | _assigned_names(ast.walk(f_.args))
                            life = "one call of %s (shared by every call of %s)" % (g_fn.name, fn.name); invariant = lambda c, var=var: c.split(".")[0] not in var
                if life.startswith("process") and kind == "dict":
                    from sa.rules import c16
                    if rel in c16.FILES: continue            # subscript stores into process-wide containers of these files: C16.c (r_cachekeys, with its reasoned exceptions)
                # ---- inputs of the skipped computation
                vin = set()
                if val is not None and kind != "set": _inputs(fi, val, st, vin, set(), skip)
                else:
                    for n_ in fi.cfg.nodes:
                        if n_.ast is None or n_.kind == "def": continue
                        if any(gg is g and pp == pol for gg, pp in fi.guards(n_.ast)): _inputs(fi, n_.ast, n_.ast, vin, set(), skip)
                kin = set()
                if key is not None: _inputs(fi, key, st, kin, set(), skip, key_mode=True)
                missing = sorted(c for c in vin if not invariant(c) and c != dchain and c not in tested and not (c in kin or any(c.startswith(k + ".") for k in kin)))
                exc = MEMO_EXCEPT.get((rel, qualname(fn), dtext), {})
                ktxt_ = ast.unparse(key).replace(" ", "") if key is not None else ""
                missing = [c for c in missing if not (c in exc and (not isinstance(exc[c], tuple) or exc[c][1].replace(" ", "") in ktxt_))]          # an exception may be tied to a key fragment
                # a key chain k.x also covers input k.x.y; an input `k` whole is covered only by k itself (or id(k))
                res.append((st, dtext, key, life, missing))
    return res
MEMO_FIXTURE = """
def resolve_all(refs, table):
    chosen = {}
    out = []
    for obj, attr in refs:
        p = chosen.get(attr.name)
        if p is None:
            p = table[obj.kind + '.' + attr.name]
            chosen[attr.name] = p              # must be reported: depends on obj.kind
        out.append(p)
    full = {}
    for obj, attr in refs:
        if (id(obj), attr.name) not in full:
            full[(id(obj), attr.name)] = table[obj.kind + '.' + attr.name]     # complete key: fine
    return out
"""
def r_memo(root):
    out = []; inst = 0
    fx = [(dt, bool(miss)) for _st, dt, _k, _l, miss in _memo_scan(_parse_fixture(MEMO_FIXTURE), "fixture")]
    if sorted(fx) != [("chosen", True), ("full", False)]: raise AnalysisError("memo-key rule: the built-in positive example is no longer classified as expected: %s" % fx)
    for rel in MEMO_FILES:
        t = load(root, rel)
        for st, dtext, key, life, missing in _memo_scan(t, rel):
            q = qualname(st); ps = _memo_props(rel, q, root)
            inst += 1
            desc = "%s keyed by %s, lifetime: %s" % (dtext, ast.unparse(key) if key is not None else "nothing", life)
            for p in ps: ob(p, p + ".M", rel, q, desc, not missing)
            for p in ps:
                if missing:
                    out.append(Finding(p, p + ".M", rel, q, "%s[%s]" % (dtext, " ".join(ast.unparse(key).split()) if key is not None else ""), "the computation skipped on a hit depends on %s, which can change during the memo's lifetime (%s) and is not determined by the key: a later lookup gets the result computed for a different %s" % (", ".join(missing[:4]), life, missing[0]), witness="two uses that agree on the key and differ in " + missing[0]))
    if inst < 8: raise AnalysisError("memo-key rule: only %d memo sites found in the analysed files (13 confirmed by reading)" % inst)
    return inst, out
# ---------------------------------------------------------------------------------------------------------------- .O
OPT_PROPS = {"ignore_case": ("C20",), "autokwd": ("C21",), "skipws": ("C22", "C01"), "ws": ("C22", "C01"), "memoization": ("C19",), "auto_init_attributes": ("C01",),
             "use_regexp_group": ("C01", "C04"), "textx_tools_support": ("C34",), "builtins": ("C07",), "builtin_models": ("C17",)}
def r_options(root):
    """every metamodel option is stored verbatim: `self.<opt> = <opt>` in TextXMetaModel.__init__, on every path, from the
    parameter of the same name (not combined with another option, not defaulted away)"""
    out = []; inst = 0
    fn = find(load(root, MM), "TextXMetaModel.__init__"); fi = sem.info(fn)
    params = {a.arg for a in fn.args.args + fn.args.kwonlyargs}
    for opt, ps in sorted(OPT_PROPS.items()):
        if opt not in params: raise AnalysisError("TextXMetaModel.__init__ has no parameter %r (option table of the .O clause is stale)" % opt)
        stores = [n for n in own_nodes(fn) if isinstance(n, ast.Assign) and any(isinstance(tg, ast.Attribute) and isinstance(tg.value, ast.Name) and tg.value.id == "self" and tg.attr == opt for tg in n.targets)]
        inst += 1; bad = None
        if not stores: bad = ("self.%s is never assigned" % opt, "the option %s is not stored on the metamodel" % opt)
        for st in stores:
            v = fi.expand(st.value, at=st)
            if not (isinstance(v, ast.Name) and v.id == opt):
                bad = (" ".join(ast.unparse(st).split()), "the option %s is not stored as given (%s): every later reader of metamodel.%s sees a value that depends on something else than the caller's %s" % (opt, ast.unparse(v)[:60], opt, opt))
            elif any(isinstance(a, (ast.If, ast.For, ast.While, ast.Try, ast.With)) for a in ancestors(st) if a is not fn and fn in list(ancestors(a))): bad = (" ".join(ast.unparse(st).split()), "the option %s is stored only on some paths (inside a conditional / loop)" % opt)
            # a parameter re-bound before it is stored is not the caller's value any more
            node = fi.node_of(st)
            if bad is None and node is not None and any(fi.cfg.nodes[d].kind != "entry" for d in fi.rd.defs_of(node, opt)): bad = (" ".join(ast.unparse(st).split()), "the parameter %s is re-bound before it is stored" % opt)
        for p in ps: ob(p, p + ".O", MM, "TextXMetaModel.__init__", "self.%s = %s" % (opt, opt), bad is None)
        if bad:
            for p in ps: out.append(Finding(p, p + ".O", MM, "TextXMetaModel.__init__", bad[0], bad[1], witness="metamodel_from_str(grammar, %s=<non-default>) combined with a non-default value of another option" % opt))
    return inst, out
# ---------------------------------------------------------------------------------------------------------------- .S
_RULEISH = re.compile(r"(^|[._])(rule|rules|peg_rule|_tx_peg_rule|comments_model|parser_model|top_rule|root_rule|expr|expression|nodes|NUMBER|BASETYPE|ID|INT|FLOAT|STRICTFLOAT|BOOL|STRING|BASE_TYPE_RULES)$")
def r_shallow(root):
    """Arpeggio expression objects are shared between rules, parsers and metamodels on purpose; a shallow copy keeps the
    original's `_result_cache` dict (the packrat table, cleared per parse only through the parser model that owns it)
    and its `nodes` list: with memoization on, results cached for one object are served for the other."""
    out = []; inst = 0
    for rel in (LANG, MM, MODEL, RREL, "textx/registration.py"):
        t = load(root, rel)
        names = set()          # local names of copy.copy
        for n in ast.walk(t):
            if isinstance(n, ast.ImportFrom) and n.module == "copy":
                for a in n.names:
                    if a.name == "copy": names.add(a.asname or "copy")
        for c in calls(t):
            f = c.func
            is_copy = (isinstance(f, ast.Attribute) and f.attr == "copy" and isinstance(f.value, ast.Name) and f.value.id == "copy" and len(c.args) == 1) or (isinstance(f, ast.Name) and f.id in names and len(c.args) == 1)
            if not is_copy: continue
            inst += 1
            fn = enclosing_func(c); arg = c.args[0]
            if fn is not None: arg = sem.info(fn).expand(arg, at=c)
            txt = ast.unparse(arg)
            chain, _r = _chain_of(arg) if isinstance(arg, (ast.Name, ast.Attribute)) else (None, None)
            rule_like = bool(chain and _RULEISH.search(chain)) or (isinstance(arg, ast.Subscript) and "nodes" in txt)
            q = qualname(c)
            ok = not rule_like
            for p in ("C19", "C16"): ob(p, p + ".S", rel, q, "copy.copy(%s)" % txt[:60], ok)
            if not ok:
                for p in ("C19", "C16"):
                    out.append(Finding(p, p + ".S", rel, q, "copy.copy(%s)" % txt[:80], "a parsing expression is shallow-copied: copy and original share one _result_cache (and one nodes list); with memoization=True a result cached through one of them is returned for the other, or survives the per-parse cache reset", witness="memoization=True and two uses of the copied rule at the same input offset / two metamodels parsing in turn"))
    if inst < 1: raise AnalysisError("shallow-copy rule: the parser blueprint copy in TextXModelParser.clone was not found")
    return inst, out
# ---------------------------------------------------------------------------------------------------------------- .P
def r_postponed(root):
    """navigation through an attribute named at run time (RREL steps, dotted model paths): the attribute may be a
    reference that is not resolved yet.  Every use of the value read by getattr(obj, <name>) lies where
    needs_to_be_resolved(obj, <name>) is known to be false (the true branch answers Postponed)."""
    out = []; inst = 0
    for rel in (RREL, TOOLS):
        t = load(root, rel)
        for fn in [n for n in ast.walk(t) if isinstance(n, ast.FunctionDef)]:
            gets = [c for c in calls(fn, own=True) if callee_name(c) == "getattr" and isinstance(c.func, ast.Name) and len(c.args) == 2 and not isinstance(c.args[1], ast.Constant)]
            if not gets or fn.name.startswith("__"): continue          # attribute forwarding of proxies (__getattr__) is not navigation
            fi = sem.info(fn); q = qualname(fn)
            for gcall in gets:
                want = "needs_to_be_resolved(%s, %s)" % (fi.text(gcall.args[0], at=gcall), fi.text(gcall.args[1], at=gcall))
                par = getattr(gcall, "_parent", None)
                uses = []
                if isinstance(par, ast.Assign) and len(par.targets) == 1 and isinstance(par.targets[0], ast.Name):
                    v = par.targets[0].id; dnode = fi.node_of(par)
                    for x in own_nodes(fn):
                        if isinstance(x, ast.Name) and x.id == v and isinstance(x.ctx, ast.Load):
                            n = fi.node_of(x)
                            if n is not None and dnode is not None and dnode.id in fi.rd.defs_of(n, v): uses.append(x)
                    for lam in [x for x in ast.walk(fn) if isinstance(x, ast.Lambda)]:
                        pass
                else: uses = [gcall]
                inst += 1
                # a use is fine where the check is known false, or where every path from the read to the use evaluates the check
                # (its true branch answers Postponed and leaves)
                wkey = want.replace(" ", "")
                checks = [n for n in fi.cfg.nodes if n.kind == "cond" and n.ast is not None and any(" ".join(fi.text(x, at=x).split()).replace(" ", "") == wkey for x in ast.walk(n.ast) if isinstance(x, ast.Call))]
                dn_ = fi.node_of(gcall)
                def _ok_use(u):
                    if fi.holds(u, want, False): return True
                    un = fi.node_of(u)
                    return bool(checks) and dn_ is not None and un is not None and fi.cfg.paths_avoiding(dn_, un, lambda n: n in checks) is None
                bad = [u for u in uses if not _ok_use(u)]
                # a use that only re-wraps the value (`if not isinstance(v, list): v = [v]`) re-defines v: later uses are found through that definition
                for p in (("C11", "C09") if rel == RREL else ("C09",)):
                    ob(p, p + ".P", rel, q, "%s: %d uses under not %s" % (" ".join(ast.unparse(gcall).split()), len(uses), want), not bad)
                    for u in bad[:1]:
                        out.append(Finding(p, p + ".P", rel, q, " ".join(ast.unparse(stmt_of(u)).split())[:100], "the value of %s is used where %s is not known to be false: a reference attribute that is still unresolved (declared later in the text, or postponed) is navigated as if it were final, so the lookup answers 'no match' / a wrong object instead of Postponed" % (ast.unparse(gcall), want), witness="RREL / dotted path through a reference attribute that is written after the reference using it"))
    if inst < 2: raise AnalysisError("postponed-navigation rule: %d dynamic attribute reads found (RRELNavigation.apply.lookup and resolve_model_path expected)" % inst)
    return inst, out
# ---------------------------------------------------------------------------------------------------------------- .S (sharing)
def r_intern(root):
    """The grammar compiler (lang.py) and the RREL compiler (rrel.py) build one object per occurrence: parsing expressions get
    rule_name / suppress / root / _tx_class set on them afterwards and own a packrat table; RREL nodes are told apart by identity
    during evaluation; scope providers carry the flags of the reference they were written at.  So these objects are never
    handed out again from a cache: no `x = D.setdefault(key(x), x)` interning, no dict / class-attribute store of a freshly
    constructed expression, RREL node or provider that is read back.  (The one shared object is the grammar *parser* in
    textX_parsers, decided by C16.c.)"""
    out = []; inst = 0
    for rel in (LANG, RREL):
        t = load(root, rel)
        expr_classes = {a.asname or a.name for n in t.body if isinstance(n, ast.ImportFrom) and (n.module or "").startswith("arpeggio") for a in n.names} | {c.name for c in t.body if isinstance(c, ast.ClassDef) and c.name.startswith("RREL")} | {"RuleCrossRef", "create_rrel_scope_provider"}
        classes = {c.name for c in ast.walk(t) if isinstance(c, ast.ClassDef)}
        def is_ctor(fi, e, at, depth=0):
            if isinstance(e, ast.Call) and callee_name(e) in expr_classes: return callee_name(e)
            if isinstance(e, ast.Attribute) and e.attr in ("scope_provider",): return "scope provider"
            if isinstance(e, ast.Name) and depth < 3:
                nd = fi.node_of(at)
                for d in (fi.rd.defs_of(nd, e.id) if nd is not None else []):
                    a = fi.cfg.nodes[d].ast
                    if fi.cfg.nodes[d].kind == "stmt" and isinstance(a, ast.Assign):
                        k = is_ctor(fi, a.value, a, depth + 1)
                        if k: return k
            return None
        for fn in [n for n in ast.walk(t) if isinstance(n, ast.FunctionDef)]:
            fi = None
            # a memoising decorator (functools.lru_cache / cache) on a function that returns a freshly built object of these kinds
            memo_dec = [d for d in fn.decorator_list if any(isinstance(x, (ast.Name, ast.Attribute)) and (x.id if isinstance(x, ast.Name) else x.attr) in ("lru_cache", "cache", "cached_property") for x in ast.walk(d))]
            if memo_dec:
                fi = sem.info(fn)
                for r_ in [x for x in own_nodes(fn) if isinstance(x, ast.Return) and x.value is not None]:
                    k = is_ctor(fi, r_.value, r_)
                    if k:
                        inst += 1; q = qualname(fn); ps = set(props_for(rel, q, root)) | {"C19", "C16"}
                        for p in sorted(ps):
                            ob(p, p + ".S", rel, q, "@%s def %s" % (ast.unparse(memo_dec[0]), fn.name), False)
                            out.append(Finding(p, p + ".S", rel, q, "@%s def %s" % (" ".join(ast.unparse(memo_dec[0]).split())[:40], fn.name), "a freshly built %s is returned by a memoised function: every later call with equal arguments gets the very same object; occurrences that must be independent objects (each gets its own rule name / suppress flag / packrat table) become one" % k, witness="the same keyword used twice in different roles"))
                        break
            for n in own_nodes(fn):
                hit = None
                if isinstance(n, ast.Assign) and isinstance(n.value, ast.Call) and isinstance(n.value.func, ast.Attribute) and n.value.func.attr == "setdefault" and len(n.value.args) == 2:
                    v = n.value.args[1]; tg = n.targets[0]
                    if ast.unparse(v) == ast.unparse(tg) or (isinstance(v, ast.Name) and isinstance(tg, ast.Name)):
                        hit = ("%s" % " ".join(ast.unparse(n).split())[:100], "an object is replaced by the one stored earlier under the key %s (interning)" % ast.unparse(n.value.args[0])[:40])
                elif isinstance(n, ast.Assign) and len(n.targets) == 1:
                    tg = n.targets[0]; fi = fi or sem.info(fn)
                    if isinstance(tg, ast.Subscript) and not isinstance(tg.slice, ast.Slice) and not (isinstance(tg.slice, ast.Constant) and isinstance(tg.slice.value, int)):
                        k = is_ctor(fi, n.value, n); dtxt = ast.unparse(tg.value)
                        if k and dtxt != "textX_parsers" and any((isinstance(x, ast.Subscript) and isinstance(x.ctx, ast.Load) and ast.unparse(x.value) == dtxt) or (isinstance(x, ast.Call) and isinstance(x.func, ast.Attribute) and x.func.attr in ("get", "setdefault") and ast.unparse(x.func.value) == dtxt) for x in ast.walk(fn)):
                            hit = (" ".join(ast.unparse(n).split())[:100], "a freshly built %s is kept in %s and handed out again for the same key" % (k, dtxt))
                    elif isinstance(tg, ast.Attribute) and isinstance(tg.value, ast.Name) and (tg.value.id in classes or (tg.value.id == "cls" and fn.args.args and fn.args.args[0].arg == "cls" and any("classmethod" in ast.unparse(d_) for d_ in fn.decorator_list))):
                        k = is_ctor(fi, n.value, n)
                        if k: hit = (" ".join(ast.unparse(n).split())[:100], "a %s is built once and kept on the class %s for every later use" % (k, tg.value.id))
                if hit is None: continue
                inst += 1; q = qualname(n); ps = set(props_for(rel, q, root)) | {"C19", "C16"}
                for p in sorted(ps):
                    ob(p, p + ".S", rel, q, hit[0], False)
                    out.append(Finding(p, p + ".S", rel, q, hit[0], hit[1] + ": occurrences that must be independent objects (each gets its own rule name / suppress flag / packrat table, is identified by identity during RREL evaluation, or carries its own flags) become one shared object", witness="the same literal / expression used twice in one grammar in different roles, or in two metamodels"))
    for p in ("C19", "C16"): ob(p, p + ".S", LANG, "TextXVisitor", "no cache hands out parsing expressions, RREL nodes or providers again (%d sharing sites)" % inst, inst == 0)
    return max(inst, 1), out
# ---------------------------------------------------------------------------------------------------------------- .V
RECORDS = [   # (file, class, properties): plain records whose constructor stores each parameter under its own name, unchanged
    (MODEL, "ObjCrossRef", ("C07", "C08", "C28", "C34", "C09")), (MODEL, "RefRulePosition", ("C34",)),
    ("textx/exceptions.py", "TextXError", ("C28", "C33", "C23")),
    ("textx/registration.py", "LanguageDesc", ("C26",)), ("textx/registration.py", "GeneratorDesc", ("C26", "C30")), ("textx/registration.py", "GeneratorParam", ("C30", "C26")),
]
ERR_SUBCLASSES = ("TextXSemanticError", "TextXSyntaxError")
def r_records(root):
    """record classes, decided by evaluation of the constructor (sa/pyeval.py): for every constructor parameter p the object
    built from distinct sample values has  obj.p is <the value given for p>  - not converted, clamped, normalised, defaulted
    away or stored under another parameter's name; the value sets include 0, '', None, negative numbers and plain objects.
    Exception subclasses hand every location field they accept to the base constructor in the base's order / under the
    base's names (evaluated too: the subclass object has every field it was given)."""
    from sa import pyeval
    out = []; inst = 0
    def build(rel, cname, values):
        t = load(root, rel); cds = {c.name: c for c in t.body if isinstance(c, ast.ClassDef)}
        env = {"__classdefs__": cds, "__functions__": {n.name: n for n in t.body if isinstance(n, ast.FunctionDef)}, "__module__": t}
        for c_ in cds: env[c_] = pyeval.ClassRef(c_)
        cd_ = cds[cname]
        if not any(isinstance(f_, ast.FunctionDef) and f_.name == "__init__" for f_ in cd_.body) and any((isinstance(d_, ast.Name) and d_.id == "dataclass") or (isinstance(d_, ast.Call) and getattr(d_.func, "id", "") == "dataclass") for d_ in cd_.decorator_list):
            # a dataclass: the generated constructor stores every field as given, then __post_init__ (if any) runs
            o_ = pyeval.Inst({".__cls__": cname})
            for k_, v_ in values.items(): o_["." + k_] = v_
            c_, f_ = pyeval.find_method(cds, cname, "__post_init__")
            try:
                if f_ is not None: pyeval.call_method_of(o_, c_, f_, [], {}, env)
                return "ret", o_
            except pyeval.Raised as r_: return "raise", r_.cls
            except pyeval.Unsupported as u_: raise AnalysisError("%s.__post_init__: outside the evaluated subset: %s" % (cname, u_))
        try: return "ret", pyeval.instantiate(cname, [], dict(values), env)
        except pyeval.Raised as r_: return "raise", r_.cls
        except pyeval.Unsupported as u_: raise AnalysisError("%s.__init__: outside the evaluated subset: %s" % (cname, u_))
    def value_sets(params):
        yield "distinct objects", {p_: {".kind": "value given for " + p_, ".__complete__": "all"} for p_ in params}       # plain objects without any attribute or method
        yield "0", {p_: 0 for p_ in params}
        yield "the empty string", {p_: "" for p_ in params}
        yield "None", {p_: None for p_ in params}
        yield "negative numbers", {p_: -(i_ + 1) for i_, p_ in enumerate(params)}
        yield "distinct strings", {p_: "text of " + p_ for p_ in params}
    for rel, cname, ps in RECORDS:
        cls = find(load(root, rel), cname); init = next((f for f in cls.body if isinstance(f, ast.FunctionDef) and f.name == "__init__"), None)
        if init is None and any((isinstance(d_, ast.Name) and d_.id == "dataclass") or (isinstance(d_, ast.Call) and getattr(d_.func, "id", "") == "dataclass") for d_ in cls.decorator_list):
            params = [st_.target.id for st_ in cls.body if isinstance(st_, ast.AnnAssign) and isinstance(st_.target, ast.Name)]
        elif init is None: raise AnalysisError("%s.__init__ not found" % cname)
        else: params = [a.arg for a in init.args.args[1:] + init.args.kwonlyargs]
        if len(params) < 3: raise AnalysisError("%s.__init__: only %d parameters" % (cname, len(params)))
        bad = {}
        for what, vals in value_sets(params):
            k_, o_ = build(rel, cname, vals)
            for p_ in params:
                if p_ in bad: continue
                if k_ != "ret": bad[p_] = ("%s(...) with %s for every parameter" % (cname, what), "the constructor raises %s" % o_)
                elif ("." + p_) not in o_: bad[p_] = ("self.%s" % p_, "the constructor parameter %s is not stored" % p_)
                elif o_["." + p_] is not vals[p_] and not (isinstance(vals[p_], (int, str)) and type(o_["." + p_]) is type(vals[p_]) and o_["." + p_] == vals[p_]):
                    bad[p_] = ("self.%s" % p_, "%s.%s is not the value the constructor was given (given %s for every parameter: %r is stored as %r)" % (cname, p_, what, vals[p_], o_["." + p_] if not isinstance(o_["." + p_], dict) else o_["." + p_].get(".kind")))
        for p_ in params:
            inst += 1
            for pr in ps: ob(pr, pr + ".V", rel, cname + ".__init__", "obj.%s is the value given for %s (6 value sets)" % (p_, p_), p_ not in bad)
            if p_ in bad:
                for pr in ps: out.append(Finding(pr, pr + ".V", rel, cname + ".__init__", bad[p_][0], bad[p_][1] + ": every reader of the record (resolver, error reporting, tool support) sees a value that differs from what the producer computed", witness="a value for which the conversion is not the identity"))
    # exception subclasses forward the location fields (by evaluation of the subclass constructor)
    t = load(root, "textx/exceptions.py"); base = find(t, "TextXError"); binit = next(f for f in base.body if isinstance(f, ast.FunctionDef) and f.name == "__init__")
    border = [a.arg for a in binit.args.args[1:]]
    for sub in ERR_SUBCLASSES:
        cls = find(t, sub); init = next((f for f in cls.body if isinstance(f, ast.FunctionDef) and f.name == "__init__"), None)
        if init is None: continue
        own = [a.arg for a in init.args.args[1:] + init.args.kwonlyargs]
        bad = {}
        for what, vals in value_sets(own):
            k_, o_ = build("textx/exceptions.py", sub, vals)
            for f_ in border:
                if f_ not in own or f_ in bad: continue
                if k_ != "ret": bad[f_] = "the constructor raises %s (given %s for every parameter)" % (o_, what)
                elif o_.get("." + f_, base) is not vals[f_] and not (isinstance(vals[f_], (int, str)) and type(o_.get("." + f_)) is type(vals[f_]) and o_.get("." + f_) == vals[f_]):
                    got_ = o_.get("." + f_, "<not set>"); bad[f_] = "given %s for every parameter, the error's %s is %r" % (what, f_, got_.get(".kind") if isinstance(got_, dict) else got_)
        for f_ in border:
            if f_ not in own: continue
            inst += 1
            okf = f_ not in bad
            for pr in ("C28", "C33", "C23"): ob(pr, pr + ".V", "textx/exceptions.py", sub + ".__init__", "the %s given to %s is the error's %s" % (f_, sub, f_), okf)
            if not okf:
                for pr in ("C28", "C33", "C23"): out.append(Finding(pr, pr + ".V", "textx/exceptions.py", sub + ".__init__", "super().__init__(...) / %s" % f_, "%s accepts %s but %s: the field is lost or lands in another field of the error" % (sub, f_, bad[f_])))
    return inst, out
# ---------------------------------------------------------------------------------------------------------------- .F
PARAM_PROPS = {"encoding": ("C28", "C17"), "ignore_case": ("C20",), "autokwd": ("C21",), "skipws": ("C22",), "ws": ("C22",), "memoization": ("C19",), "model_params": ("C27",),
               "custom_args": ("C30",), "overwrite": ("C31", "C30"), "output_path": ("C30",), "kwargs": ("C20", "C21", "C22", "C27"), "file_name": ("C28",), "is_main_model": ("C17",),
               "add_to_local_models": ("C17",), "project_name": ("C26",), "project_version": ("C26",), "pre_ref_resolution_callback": ("C17",), "importAs": ("C17",), "search_path": ("C17",), "glob_args": ("C17",), "filename_pattern": ("C17",),
               "importURI_converter": ("C17",), "importURI_to_scope_name": ("C17",), "scope_redirection_logic": ("C17",)}
FILE_PROPS = {"textx/cli/generate.py": ("C30",), "textx/cli/check.py": ("C30",), "textx/registration.py": ("C26", "C30"), "textx/generators.py": ("C31",)}
FWD_EXCEPT = {   # (function, callee, parameter): reason
    ("TextXMetaModel.model_from_str", "get_model_from_str", "file_name"): "branch taken only when file_name is None",
    ("TextXMetaModel.model_from_str", "get_model_from_str", "encoding"): "a model given as a string is not decoded",
}
def r_forward(root):
    """pass-through parameters: when a function takes a parameter p and calls a function of the code base (resolved by its
    unique name; for a class, its constructor) that also takes a parameter named p, the call hands p on — by keyword, by
    position or through **kwargs.  The same for **kwargs to a callee that accepts **kwargs.  Dropping one silently replaces
    the caller's value by the callee's default (encoding of imported files, metamodel options of the textX language,
    custom generator arguments ...)."""
    import glob as _glob, os as _os
    out = []; inst = 0
    files = sorted(_os.path.relpath(f, root) for f in _glob.glob(_os.path.join(root, "textx", "**", "*.py"), recursive=True))
    defs = {}
    for rel in files:
        t = load(root, rel)
        for n in ast.walk(t):
            if isinstance(n, ast.FunctionDef) and n.name != "__init__": defs.setdefault(n.name, []).append(n)
            elif isinstance(n, ast.ClassDef):
                ini = next((f for f in n.body if isinstance(f, ast.FunctionDef) and f.name == "__init__"), None)
                if ini is not None: defs.setdefault(n.name, []).append(ini)
    mmi = find(load(root, MM), "TextXMetaModel.__init__"); mm_opts = [a.arg for a in mmi.args.args[1:] + mmi.args.kwonlyargs]
    for rel in files:
        t = load(root, rel)
        for fn in [n for n in ast.walk(t) if isinstance(n, ast.FunctionDef)]:
            fparams = [a.arg for a in fn.args.args + fn.args.kwonlyargs if a.arg not in ("self", "cls")]
            for enc in [a for a in ancestors(fn) if isinstance(a, ast.FunctionDef)]:          # closure: a decorator's inner function forwards the outer parameters
                fparams += [a.arg for a in enc.args.args + enc.args.kwonlyargs if a.arg not in ("self", "cls") and a.arg not in fparams]
            fkw = fn.args.kwarg.arg if fn.args.kwarg else None
            if not fparams and not fkw: continue
            for c in calls(fn, own=True):
                nm = callee_name(c); shift = 0
                if nm == "__init__" and isinstance(c.func, ast.Attribute):
                    # Base.__init__(self, ...) / super().__init__(...): the constructor of the (first) base class
                    if isinstance(c.func.value, ast.Name): nm = c.func.value.id; shift = 1
                    elif isinstance(c.func.value, ast.Call) and callee_name(c.func.value) == "super":
                        kls = next((a for a in ancestors(fn) if isinstance(a, ast.ClassDef)), None)
                        nm = kls.bases[0].id if kls is not None and kls.bases and isinstance(kls.bases[0], ast.Name) else None
                if nm not in defs or len(defs[nm]) != 1 or defs[nm][0] is fn: continue
                g = defs[nm][0]
                gparams = [a.arg for a in g.args.args + g.args.kwonlyargs if a.arg not in ("self", "cls")]
                if shift: c = ast.Call(func=c.func, args=c.args[shift:], keywords=c.keywords)
                if nm in ("metamodel_from_file", "metamodel_from_str"): gparams = gparams + [x for x in mm_opts if x not in gparams]     # their **kwargs are the options of TextXMetaModel
                star = any(k.arg is None for k in c.keywords) or any(isinstance(a, ast.Starred) for a in c.args)
                given = {k.arg for k in c.keywords if k.arg} | {gparams[i] for i in range(min(len(c.args), len(gparams)))}
                q = qualname(fn); q2 = ".".join(q.split(".")[-2:])
                todo = [(p, p in given or star) for p in fparams if p in gparams]
                if fkw and g.args.kwarg is not None: todo.append(("**" + fkw, any(k.arg is None and ast.unparse(k.value) == fkw for k in c.keywords) or any(isinstance(a, ast.Name) and a.id == fkw for a in c.args)))
                for p, ok in todo:
                    pn = p.lstrip("*"); key = "kwargs" if p.startswith("**") else pn
                    if (q2, nm, pn) in FWD_EXCEPT: continue
                    ps = set(PARAM_PROPS.get(key, ())) | set(FILE_PROPS.get(rel, ()))
                    if not ps: continue
                    inst += 1
                    for pr in sorted(ps): ob(pr, pr + ".F", rel, q, "%s(... %s ...)" % (nm, p), ok)
                    if not ok:
                        for pr in sorted(ps): out.append(Finding(pr, pr + ".F", rel, q, " ".join(ast.unparse(c).split())[:100], "%s takes %s and %s accepts it, but the call does not hand it on: the callee works with its default instead of the caller's value" % (fn.name, p, nm), witness="a non-default %s" % p))
    if inst < 20: raise AnalysisError("forwarding rule: only %d pass-through sites found" % inst)
    return inst, out
# ---------------------------------------------------------------------------------------------------------------- one-shot iterators
ONESHOT = {"filter", "map", "zip", "iter", "reversed", "enumerate"}
def r_oneshot(root):
    """a local bound to a one-shot iterator (filter / map / zip / iter / reversed / enumerate / a generator expression) is
    consumed once: a second use (a second call argument, a second loop, a use inside a loop) sees an exhausted iterator
    and silently does nothing.  Every such local has at most one use reached by that definition."""
    import glob as _glob, os as _os
    out = []; inst = 0
    files = sorted(_os.path.relpath(f, root) for f in _glob.glob(_os.path.join(root, "textx", "**", "*.py"), recursive=True))
    for rel in files:
        t = load(root, rel)
        for fn in [n for n in ast.walk(t) if isinstance(n, ast.FunctionDef)]:
            cands = [n for n in own_nodes(fn) if isinstance(n, ast.Assign) and len(n.targets) == 1 and isinstance(n.targets[0], ast.Name) and ((isinstance(n.value, ast.Call) and isinstance(n.value.func, ast.Name) and n.value.func.id in ONESHOT) or isinstance(n.value, ast.GeneratorExp))]
            if not cands: continue
            fi = sem.info(fn)
            for a in cands:
                v = a.targets[0].id; dn = fi.node_of(a)
                uses = []
                for x in own_nodes(fn):
                    if isinstance(x, ast.Name) and x.id == v and isinstance(x.ctx, ast.Load):
                        n = fi.node_of(x)
                        if n is not None and dn is not None and dn.id in fi.rd.defs_of(n, v): uses.append(x)
                in_loop = [u for u in uses if any(isinstance(l, (ast.For, ast.While)) and not any(y is a for y in ast.walk(l)) and enclosing_func(l) is fn and not (isinstance(l, ast.For) and any(y is u for y in ast.walk(l.iter))) for l in ancestors(u))]
                inst += 1
                ok = len(uses) <= 1 and not in_loop
                q = qualname(a); ps = set(props_for(rel, q, root)) | set(FILE_PROPS.get(rel, ())) | ({"C14", "C15", "C18"} if rel == MODEL and "model" in q else set())
                for p in sorted(ps): ob(p, p + ".I", rel, q, "%s = %s: %d use(s)" % (v, " ".join(ast.unparse(a.value).split())[:50], len(uses)), ok)
                if not ok:
                    for p in sorted(ps): out.append(Finding(p, p + ".I", rel, q, " ".join(ast.unparse(a).split())[:100], "%s is a one-shot iterator and is used %s: every use after the first sees it exhausted and silently does nothing" % (v, "%d times" % len(uses) if len(uses) > 1 else "inside a loop"), witness="any input that reaches the second use with a non-empty sequence"))
    return max(inst, 1), out
# ---------------------------------------------------------------------------------------------------------------- .Q
def r_postponed_exit(root):
    """in the scoping code a value found to be Postponed is handed straight back: every `if type(v) is Postponed:` /
    `if isinstance(v, Postponed):` branch leaves the function with v — `return v`, or `yield v, ...` followed by `return` —
    (a counter update may precede it).  Anything else (remembering it and going on, returning something else) lets a lookup
    succeed or fail on half-resolved data, so the result depends on the resolution order."""
    out = []; inst = 0
    for rel in (PROV, RREL, TOOLS):
        t = load(root, rel)
        for n in ast.walk(t):
            if not isinstance(n, ast.If): continue
            tests = [n.test] if not (isinstance(n.test, ast.BoolOp) and isinstance(n.test.op, ast.Or)) else list(n.test.values)
            v = None
            for x in tests:
                if isinstance(x, ast.Compare) and len(x.ops) == 1 and isinstance(x.ops[0], ast.Is) and isinstance(x.left, ast.Call) and callee_name(x.left) == "type" and ast.unparse(x.comparators[0]) == "Postponed" and x.left.args: v = ast.unparse(x.left.args[0])
                elif isinstance(x, ast.Call) and callee_name(x) == "isinstance" and len(x.args) == 2 and ast.unparse(x.args[1]) == "Postponed": v = ast.unparse(x.args[0])
            if v is None: continue
            inst += 1
            body = [b for b in n.body if not isinstance(b, (ast.AugAssign, ast.Pass)) and not (isinstance(b, ast.Expr) and isinstance(b.value, ast.Constant))]
            ok = False
            if body and isinstance(body[0], ast.Return) and body[0].value is not None and ast.unparse(body[0].value) == v: ok = True
            elif len(body) >= 2 and isinstance(body[0], ast.Expr) and isinstance(body[0].value, ast.Yield) and body[0].value.value is not None and (ast.unparse(body[0].value.value) == v or (isinstance(body[0].value.value, ast.Tuple) and ast.unparse(body[0].value.value.elts[0]) == v)) and isinstance(body[1], ast.Return): ok = True
            q = qualname(n); ps = set(props_for(rel, q, root)) | {"C09"}
            for p in sorted(ps): ob(p, p + ".Q", rel, q, "if %s is Postponed: leave with it" % v, ok)
            if not ok:
                for p in sorted(ps): out.append(Finding(p, p + ".Q", rel, q, " ".join(ast.unparse(n).split())[:100], "the Postponed value %s is not handed straight back (return / yield + return): the lookup goes on with half-resolved data and binds or fails depending on the order in which references are written" % v, witness="a scope redirection / navigation that is postponed while the name also exists locally"))
    if inst < 9: raise AnalysisError("Postponed-propagation rule: only %d tests found in the scoping code (13 confirmed)" % inst)
    return inst, out
def families():
    """clause family letter -> properties it can attribute findings to"""
    allp = set()
    for _f, _pre, ps in ATTRIB: allp |= set(ps)
    mp = set(allp)
    for _f, _pre, ps in MEMO_ATTRIB: mp |= set(ps)
    op = set()
    for ps in OPT_PROPS.values(): op |= set(ps)
    return {"T": allp, "M": mp, "O": op, "S": {"C19", "C16", "C20", "C21", "C01", "C02", "C32", "C11", "C12", "C22", "C03", "C06"}, "P": {"C09", "C11"}, "V": {"C07", "C08", "C09", "C28", "C34", "C33", "C23"}, "F": {"C17", "C19", "C20", "C21", "C22", "C26", "C27", "C28", "C30", "C31"}, "I": allp | {"C14", "C15", "C18", "C26", "C30", "C31"}, "Q": {"C09", "C10", "C11", "C17", "C07"}}
