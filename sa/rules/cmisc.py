"""Further structural clauses found while testing the checks against independently seeded changes.

   C06.b  _end_model_construction copies every collected attribute on its own: the suppression of 'cannot set this
          attribute' is per attribute (inside the loop), so that one unsettable attribute (read-only property) does not
          keep _tx_position/_tx_position_end and the others from reaching the instance
   C06.c  the text handed to the parser is the caller's string, unmodified (positions index the caller's text)
   C06.d  position -> line/column arithmetic is Arpeggio's: textX classes do not re-implement pos_to_linecol
          (numeric correctness of a re-implementation is outside this analysis -> analysis error, not a verdict)
   C10.e  the FQN search helpers never raise: a candidate of the wrong kind yields None so that the search goes on
          outward; the candidate-attribute filter excludes by name only dunder and _tx_ names
   C13.d  whether the object processors of a model run is decided from that model's own metamodel
          (m._tx_metamodel), never from the main model's
   C34.f  the span map registers every created object (None-test, not truth value)
   C09.d  the 'Unresolvable cross references' message iterates, for each model, that model's own delayed list"""
import ast
from sa.util import *
from sa import sem
M = "textx/model.py"; MM = "textx/metamodel.py"; P = "textx/scoping/providers.py"
def r_C06bcd(root):
    out = []; inst = 0
    t = load(root, M)
    # ---- C06.b
    ef = find(t, "_end_model_construction")
    sets = [c for c in calls(ef) if callee_name(c) == "setattr" and len(c.args) == 3]
    if not sets: raise AnalysisError("_end_model_construction: attribute copy not found")
    for c in sets:
        inst += 1
        loop = next((a for a in ancestors(c) if isinstance(a, ast.For) and "items()" in ast.unparse(a.iter)), None)
        sup = next((a for a in ancestors(c) if isinstance(a, (ast.With, ast.Try))), None)
        okb = True
        if loop is not None and sup is not None:
            # the protecting construct must lie inside the per-attribute loop
            inside = any(a is loop for a in ancestors(sup))
            if not inside:
                okb = False
                out.append(Finding("C06", "C06.b", M, "_end_model_construction", " ".join(ast.unparse(sup).split())[:100], "the first attribute that cannot be set aborts the copy of all remaining attributes: _tx_position/_tx_position_end and later attributes never reach the instance (the class-level values, i.e. the rule's position in the grammar, show through)", witness="user class with a read-only @property for a grammar attribute"))
        # ... and every collected attribute is applied: inside the loop the setattr depends on no condition
        if loop is not None:
            fie = sem.info(ef)
            conds = [(g, pol) for g, pol in fie.guards(c) if any(a is loop for a in ancestors(g))]
            if conds:
                okb = False
                g0, p0_ = conds[0]
                for pr in ("C06", "C33", "C34"):
                    out.append(Finding(pr, "C06.b", M, "_end_model_construction", " ".join(ast.unparse(c).split()) + " under " + ("" if p0_ else "not ") + " ".join(ast.unparse(g0).split())[:60], "a collected attribute is applied to the instance only under a condition: values that shadow a class-level attribute (_tx_position, _tx_position_end, _tx_filename hold the grammar rule's position on the class) never reach the instance"))
        ob("C06", "C06.b", M, "_end_model_construction", "per-attribute suppression around " + ast.unparse(c), okb)
    # ---- C06.c  the text the parser sees is the caller's string / the file's content, character for character
    def _text_flow(rel, q, callee, recv_ok=lambda c: True):
        nonlocal inst
        fn = find(load(root, rel), q); fi = sem.info(fn); params = {a.arg for a in fn.args.args}
        for c in [c for c in calls(fn, own=True) if callee_name(c) == callee and recv_ok(c)]:
            inst += 1
            arg = c.args[0] if c.args else next((k.value for k in c.keywords if k.arg in ("model_str", "_input")), None)
            bad = None
            if not isinstance(arg, ast.Name): bad = (" ".join(ast.unparse(c).split())[:100], "the text handed to %s is %s, not the text itself" % (callee, ast.unparse(arg)[:50] if arg is not None else "missing"))
            else:
                n = fi.node_of(c); ds = fi.rd.defs_of(n, arg.id) if n is not None else []
                for d in ds:
                    dn = fi.cfg.nodes[d]
                    if dn.kind == "entry": continue                                   # the caller's string itself
                    a = dn.ast; v = a.value if isinstance(a, ast.Assign) else None
                    if isinstance(v, ast.Constant) and v.value is None: continue     # `model_str = None` placeholder before the file is read
                    # the one legitimate definition: <file>.read() of a file opened in text mode with default newline handling
                    if isinstance(v, ast.Call) and isinstance(v.func, ast.Attribute) and v.func.attr == "read" and not v.args and not v.keywords:
                        opens = [x for x in ast.walk(fn) if isinstance(x, ast.Call) and callee_name(x) == "open"]
                        o_bad = [x for x in opens if any(k.arg in ("newline", "errors") for k in x.keywords) or (len(x.args) > 1 and not (isinstance(x.args[1], ast.Constant) and x.args[1].value in ("r", "rt")))]
                        if o_bad: bad = (" ".join(ast.unparse(o_bad[0]).split())[:100], "the model file is opened with non-default newline / mode handling: line ends reach the parser untranslated and every line/column after them is off")
                        continue
                    bad = (" ".join(ast.unparse(a).split())[:100], "the model text is rewritten before it is parsed (%s): every position, slice, nchar and string value refers to the rewritten text, not to the text the caller passed / the file holds" % (ast.unparse(v)[:50] if v is not None else "re-bound"))
            for pr in ("C06", "C04", "C28"): ob(pr, "C06.c", rel, q, "text argument of %s is the caller's string / the file content" % callee, bad is None)
            if bad:
                for pr in ("C06", "C04", "C28"): out.append(Finding(pr, "C06.c", rel, q, bad[0], bad[1], witness="model text with CRLF line ends / leading blank lines / a string value containing CR LF"))
    _text_flow(MM, "TextXMetaModel.model_from_str", "get_model_from_str")
    _text_flow(MM, "TextXMetaModel.internal_model_from_file", "get_model_from_str")
    _text_flow(M, "get_model_parser.TextXModelParser.get_model_from_str", "parse", recv_ok=lambda c: isinstance(c.func, ast.Attribute) and ast.unparse(c.func.value) == "self")
    _text_flow(M, "get_model_parser.TextXModelParser.get_model_from_file", "get_model_from_str")
    # who may write the parser's input text: nobody in textX (arpeggio's Parser.parse stores the caller's text; a rewrite afterwards moves every position)
    n_in = 0
    for rel in (M, MM, "textx/lang.py"):
        for n in ast.walk(load(root, rel)):
            tgs = n.targets if isinstance(n, ast.Assign) else ([n.target] if isinstance(n, (ast.AugAssign, ast.AnnAssign)) else [])
            for tg in tgs:
                for x in ast.walk(tg):
                    if isinstance(x, ast.Attribute) and x.attr == "input" and isinstance(x.ctx, ast.Store):
                        n_in += 1
                        for pr in ("C06", "C04", "C28"): out.append(Finding(pr, "C06.c", rel, qualname(n), " ".join(ast.unparse(n).split())[:100], "the parser's input text is rewritten by textX: every position, slice, nchar, line/col and string value then refers to the rewritten text, not to the text the caller passed / the file holds (and results memoised for the earlier text stay in the caches)", witness="model text with CRLF line ends / a leading byte order mark"))
    inst += 1
    for pr in ("C06", "C04", "C28"): ob(pr, "C06.c", M, "TextXModelParser", "no function of textX assigns the parser's input text", n_in == 0)
    # ---- C06.d
    inst += 1
    for rel in (M, MM, "textx/lang.py", "textx/scoping/__init__.py", "textx/scoping/providers.py", "textx/scoping/rrel.py", "textx/scoping/tools.py", "textx/exceptions.py"):
        for n in ast.walk(load(root, rel)):
            if isinstance(n, ast.FunctionDef) and n.name in ("pos_to_linecol", "line_col_to_pos") and any(isinstance(a, ast.ClassDef) for a in ancestors(n)):
                raise AnalysisError("%s re-implements %s: the numeric correctness of position arithmetic cannot be decided by this analysis (Arpeggio's implementation is the trusted base)" % (rel, n.name))
    ob("C06", "C06.d", M, "TextXModelParser", "position arithmetic is inherited from arpeggio.Parser", True)
    # C06.e (span of a created object) is decided by evaluation: C06.f (sa/rules/cpn.py)
    return inst, out
def r_C10e(root):
    out = []; inst = 0
    t = load(root, P)
    for q in ("FQN.__call__._find_obj_fqn", "FQN.__call__._find_obj_fqn.find_obj", "FQN.__call__._find_referenced_obj"):
        fn = find(t, q); inst += 1
        raises = [n for n in own_nodes(fn) if isinstance(n, ast.Raise)]
        ob("C10", "C10.e", P, q, "search helper yields None for a failed candidate (no raise)", not raises)
        for r in raises:
            out.append(Finding("C10", "C10.e", P, q, " ".join(ast.unparse(r).split())[:100], "a candidate that does not fit raises instead of yielding None: the outward search stops at the first enclosing scope that has an object of that name but of another kind, and the genuine target further out is never reached", witness="package x nearer to the reference, class x further out, reference to class x"))
    fo = find_i(root, P, "FQN.__call__._find_obj_fqn.find_obj"); inst += 1
    prefixes = []
    for c in calls(fo):
        if callee_name(c) == "startswith" and c.args and isinstance(c.args[0], ast.Constant): prefixes.append(c.args[0].value)
    if not prefixes: raise AnalysisError("FQN.find_obj: name filter of the candidate attributes not found")
    bad = [p for p in prefixes if p not in ("__", "_tx_")]
    ob("C10", "C10.e", P, "FQN.find_obj", "name filters of the candidate attributes: %s" % prefixes, not bad)
    for p in bad:
        out.append(Finding("C10", "C10.e", P, "FQN.find_obj", "startswith(%r)" % p, "containment attributes whose name starts with %r are skipped: qualified names through such an attribute are not resolved" % p, witness="_classes+=Class"))
    return inst, out
def r_C13d_C34f_C09d(root):
    out = []; inst = 0
    t = load(root, M); drv = find_i(root, M, "parse_tree_to_objgraph"); fi = sem.info(drv)
    # ---- C13.d
    cs = [c for c in calls(drv, own=True) if callee_name(c) == "call_obj_processors"]
    if not cs: raise AnalysisError("call of call_obj_processors not found in parse_tree_to_objgraph")
    for c in cs:
        inst += 1
        loop = next((a for a in ancestors(c) if isinstance(a, ast.For)), None)
        lv = {x.id for x in ast.walk(loop.target) if isinstance(x, ast.Name)} if loop is not None else set()
        okc = True
        a0 = ast.unparse(c.args[0]) if c.args else ""
        if lv and not any(a0.startswith(v + ".") for v in lv):
            okc = False; out.append(Finding("C13", "C13.d", M, "parse_tree_to_objgraph", ast.unparse(c), "the processors applied to model %s are taken from %s, not from that model's own metamodel" % (sorted(lv), a0)))
        for g, pol in fi.guards(c):
            if loop is not None and not any(a is loop for a in ancestors(g)): continue          # only conditions evaluated per model
            names = {x.id for x in ast.walk(g) if isinstance(x, ast.Name)}
            foreign = names & {"metamodel", "model"}
            if foreign:
                okc = False
                out.append(Finding("C13", "C13.d", M, "parse_tree_to_objgraph", " ".join(ast.unparse(g).split())[:110], "whether the processors of an included model run is decided from the *main* model's %s: processors registered on the metamodel of an imported file of another language are skipped" % sorted(foreign), witness="reference <language> + importURI; only the imported language registers object processors"))
        ob("C13", "C13.d", M, "parse_tree_to_objgraph", ast.unparse(c), okc)
    # ---- C34.f
    pn = find_i(root, M, "parse_tree_to_objgraph.process_node"); fip = sem.info(pn)
    st = [n for n in own_nodes(pn) if (isinstance(n, ast.Assign) and isinstance(n.targets[0], ast.Subscript) and ast.unparse(n.targets[0].value) == "pos_rule_dict") or (isinstance(n, ast.Call) and callee_name(n) == "setdefault" and "pos_rule_dict" in ast.unparse(n.func))]
    for s in st:
        inst += 1; okf = True
        for g, pol in fip.guards(s):
            def bare(tst):
                if isinstance(tst, ast.BoolOp): return any(bare(v) for v in tst.values)
                if isinstance(tst, ast.UnaryOp) and isinstance(tst.op, ast.Not): return bare(tst.operand)
                return isinstance(tst, ast.Name) and tst.id == "inst"
            if bare(g):
                okf = False
                out.append(Finding("C34", "C34.f", M, "parse_tree_to_objgraph.process_node", " ".join(ast.unparse(g).split())[:100], "an object is entered into the span map only if it is truthy: objects of user classes defining __len__/__bool__ that are currently falsy have no span", witness="classes=[Block] with __len__, an empty block"))
        ob("C34", "C34.f", M, "parse_tree_to_objgraph.process_node", "span registration guarded by None-test", okf)
    # ---- C09.d / C28.c by evaluation: the failure branch after the resolution loop is interpreted over two sample models with
    #      delayed references of their own (m1: a@7, b@9; m2: c@3); every model has its own parser and file name
    from sa.rules import resolver as RS
    from sa import pyeval as _pe
    drv, blk, raises = RS.unresolved_raises(root)
    def mkmodel(k, refs):
        parser = {".pos_to_linecol": _pe.PyFn(lambda pos, k=k: (k * 100 + pos, pos + 1)), ".kind": "parser", ".file_name": "file%d" % k}
        delayed = [({".kind": "obj"}, {".name": "attr"}, {".obj_name": n_, ".position": p_, ".position_end": p_ + 1, ".cls": {".__name__": "Cls" + n_}, ".kind": "crossref"}) for n_, p_ in refs]
        res = {".parser": parser, ".delayed_crossrefs": delayed, ".kind": "resolver"}
        return {".kind": "model", "._tx_reference_resolver": res, "._tx_filename": "file%d" % k, "._tx_parser": parser}
    m1 = mkmodel(1, [("refA", 7), ("refB", 9)]); m2 = mkmodel(2, [("refC", 3)]); m3 = mkmodel(3, [])
    caught = []
    def _err(message=None, line=None, col=None, err_type=None, expected_obj_cls=None, filename=None, **kw):
        v = {".message": message, ".line": line, ".col": col, ".filename": filename, ".kind": "error"}; caught.append(v); return v
    env = {"models": [m1, m2, m3], "model": m1, "parser": m1["._tx_parser"], "TextXSemanticError": _pe.PyFn(_err), "__module__": load(root, M)}
    for nm in {x.id for x in ast.walk(blk.test) if isinstance(x, ast.Name)}: env[nm] = 3
    # locals left over from the resolution loop, as its last round leaves them (the last model of the list was handled last)
    _d, wl_, rc_, uc_, ml_ = RS.driver(root)
    for st_ in ast.walk(wl_):
        if isinstance(st_, ast.For) and isinstance(st_.target, ast.Name) and ast.unparse(st_.iter) == "models": env.setdefault(st_.target.id, m3)
        if isinstance(st_, ast.Assign) and isinstance(st_.targets[0], (ast.Tuple, ast.List)) and len(st_.targets[0].elts) == 2 and all(isinstance(x, ast.Name) for x in st_.targets[0].elts) and any(callee_name(c) == "resolve_one_step" for c in calls(st_)):
            env.setdefault(st_.targets[0].elts[0].id, 0); env.setdefault(st_.targets[0].elts[1].id, m3["._tx_reference_resolver"][".delayed_crossrefs"])
    env.setdefault(rc_, 0)
    try: _pe.run_block([blk], env); res_ = ("ret", None)
    except _pe.Raised as r_: res_ = ("raise", r_)
    except _pe.Unsupported as u_:
        stored = {x.id for x in ast.walk(blk) if isinstance(x, ast.Name) and isinstance(x.ctx, ast.Store)}
        nm_ = str(u_).split()[1] if str(u_).startswith("name ") else None
        if nm_ in stored: res_ = ("raise", _pe.Raised("UnboundLocalError(%s)" % nm_))       # a local of the branch read before any path assigned it
        else: raise AnalysisError("failure branch after the resolution loop: outside the evaluated subset: %s" % u_)
    inst += 1
    okr_ = res_[0] == "raise" and res_[1].cls == "TextXSemanticError" and isinstance(res_[1].value, dict)
    ob("C09", "C09.c", M, "parse_tree_to_objgraph", "references left over after the loop end in a TextXSemanticError", okr_)
    if not okr_: out.append(Finding("C09", "C09.c", M, "parse_tree_to_objgraph", "if unresolved > 0", "with three references left unresolved the failure branch %s instead of raising a TextXSemanticError" % ("falls through" if res_[0] == "ret" else "raises %s" % res_[1].cls)))
    else:
        e_ = res_[1].value; msg = str(e_[".message"])
        want = {"refA": (107, 8), "refB": (109, 10), "refC": (203, 4)}
        inst += 1
        okd = all(msg.count('"%s"' % n_) == 1 and str(lc) in msg for n_, lc in want.items())
        ob("C09", "C09.d", M, "parse_tree_to_objgraph", "each model's own delayed references are reported once, located by the model's own parser", okd)
        if not okd:
            out.append(Finding("C09", "C09.d", M, "parse_tree_to_objgraph", "Unresolvable cross references report", "for three models with the unresolved references refA@7, refB@9 (first file), refC@3 (second file) and none in the third the report reads %r: every unresolved reference of every model must be named once, with the line/column its own model's parser gives (%s)" % (msg[:200], want), witness="two files, each with an unresolvable reference"))
        inst += 1
        owner = [n_ for n_, lc in want.items() if (e_[".line"], e_[".col"]) == lc]
        okl = bool(owner) and e_[".filename"] == ("file2" if owner[0] == "refC" else "file1")
        for pr in ("C28",): ob(pr, "C28.c", M, "parse_tree_to_objgraph", "line, col and filename of the error belong to one and the same reference", okl)
        if not okl:
            out.append(Finding("C28", "C28.c", M, "parse_tree_to_objgraph", "raise TextXSemanticError(..., line, col, filename)", "the error carries line %s, col %s and file %r: %s" % (e_[".line"], e_[".col"], e_[".filename"], "line and column are those of reference %s, which is in the other file" % owner[0] if owner else "line/column are not the position of any of the unresolved references"), witness="main file and imported file both with an unresolvable reference"))
    return inst, out
def r_C13e(root):
    """C13.e  the test that decides whether the processor walk descends into an object ("is its class a meta-class of this
       meta-model") looks the class up by the key under which EVERY namespace is searched — the qualified name _tx_fqn.
       A lookup by simple name (__class__.__name__) goes through TextXMetaModel.__getitem__, which searches only the main
       grammar and its direct imports: objects of a grammar imported by an imported grammar are then skipped with all
       their children."""
    out = []; inst = 0
    cp = find(load(root, M), "parse_tree_to_objgraph.call_obj_processors"); fi = sem.info(cp)
    rec = [c for c in calls(cp, own=True) if callee_name(c) == "call_obj_processors"]
    if not rec: raise AnalysisError("call_obj_processors: recursive descent not found")
    gates = set()
    for c in rec:
        for g, pol in fi.guards(c):
            for x in ast.walk(g):
                if isinstance(x, ast.Compare) and len(x.ops) == 1 and isinstance(x.ops[0], (ast.In, ast.NotIn)) and ast.unparse(fi.expand(x.comparators[0], at=x)) in ("metamodel", "parser.metamodel"): gates.add(x)
    if not gates: raise AnalysisError("call_obj_processors: membership test that gates the descent not found")
    for x in gates:
        inst += 1
        key = fi.expand(x.left, at=x); kt = ast.unparse(key)
        by_fqn = "_tx_fqn" in kt
        ob("C13", "C13.e", M, "parse_tree_to_objgraph.call_obj_processors", "descent gate %s" % " ".join(ast.unparse(x).split())[:90], by_fqn)
        if not by_fqn: out.append(Finding("C13", "C13.e", M, "parse_tree_to_objgraph.call_obj_processors", " ".join(ast.unparse(x).split())[:100], "the walk descends into an object only if its class is found by %s: a simple class name is searched in the main grammar and its direct imports only, so objects of a transitively imported grammar and everything below them get no processor calls" % kt[:60], witness="a.tx imports b.tx imports c.tx; a rule of c contains objects of another rule of c; processors registered for both"))
    return inst, out
