"""C03.m  rule kinds and inheritor lists, decided by evaluation of TextXVisitor._determine_rule_types (sa/pyeval.py) on
sample meta-models whose rule bodies are parsing-expression trees as they are after rule references are resolved
(sa/exprs.py; isinstance follows Arpeggio's class hierarchy).

Documented semantics (docs, "rule types"): a rule with assignments is COMMON; a rule without assignments that references
at least one rule that is not a match rule is ABSTRACT and its inheritors are the non-match rules its alternatives yield
(for a sequence alternative: the first non-match rule reference of the sequence - match-rule references and syntactic
predicates before it contribute nothing); every other rule is a MATCH rule.  Kinds do not depend on the order in which the
classes are visited (forward and circular references)."""
import ast, itertools
from sa.util import *
from sa import pyeval, exprs
from sa.exprs import E, HS, MM, asgn, match
L = "textx/lang.py"
def r_C03eval(root):
    out = []; inst = 0
    t = load(root, L); fn = find(t, "TextXVisitor._determine_rule_types")
    ps = [a.arg for a in fn.args.args]
    fns = {k: v for k, v in helper_functions(root, L, "TextXVisitor._determine_rule_types").items() if k.startswith("_") and not k.startswith("__") and k != "_determine_rule_types"}
    ct = load(root, "textx/const.py"); consts = {}
    for st in ct.body:
        if isinstance(st, ast.Assign) and isinstance(st.targets[0], ast.Name):
            try: consts[st.targets[0].id] = pyeval.evaluate(st.value, dict(consts))
            except (pyeval.Unsupported, pyeval.Raised): pass
    for need in ("RULE_COMMON", "RULE_ABSTRACT", "RULE_MATCH"):
        if need not in consts: raise AnalysisError("textx/const.py: %s not found" % need)
    COMMON, ABSTRACT, MATCH = consts["RULE_COMMON"], consts["RULE_ABSTRACT"], consts["RULE_MATCH"]
    def build(spec, order):
        """spec: {rule: ('common', body-less) | ('ref', target) | ('choice', [alternatives]) } with alternatives = rule name | ('seq', [items]); items = rule name | "'lit'" | ('not', rule) | ('and', rule)"""
        clss = {}; roots = {}
        for name in spec:
            clss[name] = HS({".kind": "cls", ".__name__": name, "._tx_fqn": name, "._tx_type": MATCH, "._tx_attrs": {}, "._tx_inh_by": []})
        for name, (kind, body) in spec.items():
            if kind == "common": roots[name] = E("Sequence", asgn("plain", "x"), rule_name=name, root=True); clss[name]["._tx_attrs"] = {"x": {".name": "x"}}
            elif kind == "match": roots[name] = E("RegExMatch", rule_name=name, root=True)
            elif kind == "matchchoice": roots[name] = E("OrderedChoice", rule_name=name, root=True)
            elif kind == "ref": roots[name] = None
            else: roots[name] = E("OrderedChoice" if kind == "choice" else "Sequence", rule_name=name, root=True)
        def item(x):
            if isinstance(x, tuple) and x[0] in ("not", "and"): return E("Not" if x[0] == "not" else "And", roots[x[1]])
            if isinstance(x, tuple) and x[0] == "seq": return E("Sequence", *[item(y) for y in x[1]])
            if isinstance(x, tuple) and x[0] == "opt": return E("Optional", *[item(y) for y in x[1]])
            if isinstance(x, tuple) and x[0] == "alt": return E("OrderedChoice", *[item(y) for y in x[1]])
            if x.startswith("'"): return match(x)
            return roots[x]
        for _ in range(len(spec)):
            for name, (kind, body) in spec.items():
                if kind == "ref" and roots[name] is None: roots[name] = roots[body]
        for name, (kind, body) in spec.items():
            if kind in ("choice", "seq"): roots[name][".nodes"] = [item(x) for x in body]
            elif kind == "matchchoice": roots[name][".nodes"] = [item(x) for x in body]
        for name in spec:
            clss[name]["._tx_peg_rule"] = roots[name]
            if spec[name][0] != "ref": roots[name]["._tx_class"] = clss[name]
        mm = MM()
        for name in order:
            if name not in HIDDEN[0]: mm[name] = clss[name]        # a hidden class lives in a grammar the main grammar does not import itself: neither iterated nor found by name
        return mm, clss
    def run(spec, order):
        mm, clss = build(spec, order)
        env = dict(consts); env.update({"__functions__": fns, "__classes__": exprs.classes_env(), "__module__": t, ps[0]: {".kind": "visitor", ".debug": False, ".metamodel": mm}, ps[1]: mm})
        try: pyeval.run_block(fn.body, env)
        except pyeval.Raised as r_: return "raises %s" % r_.cls, None
        except RecursionError: return "does not terminate: RecursionError", None
        except pyeval.Unsupported as u_:
            if "recursion depth" in str(u_): return "does not terminate: RecursionError", None
            raise AnalysisError("_determine_rule_types: outside the evaluated subset: %s" % u_)
        inv = {COMMON: "common", ABSTRACT: "abstract", MATCH: "match"}
        return None, {n: (inv.get(c["._tx_type"], c["._tx_type"]), [x[".__name__"] for x in c["._tx_inh_by"]]) for n, c in clss.items()}
    HIDDEN = [()]
    BASE = {"INT": ("match", None), "ID": ("match", None)}
    grammars = [
        ("Model: items+=Item; Item: A | B; A: x=..; B: x=..; Kw: 'x'|'y'; Val: INT | Kw;",
         dict(BASE, Model=("common", None), Item=("choice", ["A", "B"]), A=("common", None), B=("common", None), Kw=("matchchoice", ["'x'", "'y'"]), Val=("choice", ["INT", "Kw"])),
         {"Model": ("common", []), "Item": ("abstract", ["A", "B"]), "A": ("common", []), "B": ("common", []), "Kw": ("match", []), "Val": ("match", [])}),
        ("Alias: A; AliasM: Kw; A: x=..; Kw: 'x'|'y';",
         dict(BASE, Alias=("ref", "A"), AliasM=("ref", "Kw"), A=("common", None), Kw=("matchchoice", ["'x'", "'y'"])),
         {"Alias": ("abstract", ["A"]), "AliasM": ("match", []), "A": ("common", [])}),
        ("Decl: Visibility Field | Const; Visibility: 'pub'|'priv'; Field: x=..; Const: x=..;",
         dict(BASE, Decl=("choice", [("seq", ["Visibility", "Field"]), "Const"]), Visibility=("matchchoice", ["'pub'", "'priv'"]), Field=("common", None), Const=("common", None)),
         {"Decl": ("abstract", ["Field", "Const"]), "Visibility": ("match", [])}),
        ("Item: !Reserved Name | Number; Reserved: 'if'; Name: x=..; Number: INT;",
         dict(BASE, Item=("choice", [("seq", [("not", "Reserved"), "Name"]), "Number"]), Reserved=("matchchoice", ["'if'"]), Name=("common", None), Number=("ref", "INT")),
         {"Item": ("abstract", ["Name"]), "Number": ("match", []), "Reserved": ("match", [])}),
        ("Guarded: &Name Other | Name; Name: x=..; Other: x=..;",
         dict(BASE, Guarded=("choice", [("seq", [("and", "Name"), "Other"]), "Name"]), Name=("common", None), Other=("common", None)),
         {"Guarded": ("abstract", ["Other", "Name"])}),
        ("Expr: Paren | Num; Paren: '(' inner=Expr ')'; Num: x=..;",
         dict(BASE, Expr=("choice", ["Paren", "Num"]), Paren=("common", None), Num=("common", None)),
         {"Expr": ("abstract", ["Paren", "Num"])}),
        ("Top: Mid | X; Mid: Leaf | Y; Leaf: x=..; X: x=..; Y: x=..;",
         dict(BASE, Top=("choice", ["Mid", "X"]), Mid=("choice", ["Leaf", "Y"]), Leaf=("common", None), X=("common", None), Y=("common", None)),
         {"Top": ("abstract", ["Mid", "X"]), "Mid": ("abstract", ["Leaf", "Y"]), "Leaf": ("common", [])}),
        ("Outer: Inner | K; Inner: Deep | K; Deep: Kw | Obj; K: x=..; Obj: x=..; Kw: 'x'|'y';",
         dict(BASE, Outer=("choice", ["Inner", "K"]), Inner=("choice", ["Deep", "K"]), Deep=("choice", ["Kw", "Obj"]), K=("common", None), Obj=("common", None), Kw=("matchchoice", ["'x'", "'y'"])),
         {"Outer": ("abstract", ["Inner", "K"]), "Inner": ("abstract", ["Deep", "K"]), "Deep": ("abstract", ["Obj"])}),
        ("Val: Num | Obj; Num: INT | ID; Obj: x=..;",
         dict(BASE, Val=("choice", ["Num", "Obj"]), Num=("choice", ["INT", "ID"]), Obj=("common", None)),
         {"Val": ("abstract", ["Obj"]), "Num": ("match", [])}),
        ("Expr: (Lit | 'none') Unit | Group; Lit: x=..; Unit: x=..; Group: x=..;     (a bracketed choice whose last alternative yields nothing, at the head of a sequence)",
         dict(BASE, Expr=("choice", [("seq", [("alt", ["Lit", "'none'"]), "Unit"]), "Group"]), Lit=("common", None), Unit=("common", None), Group=("common", None)),
         {"Expr": ("abstract", ["Lit", "Group"])}),
        ("Arg: (Kw | 'x') Obj | Other; Kw: 'a'|'b'; Obj: x=..; Other: x=..;     (the bracketed choice yields nothing at all: the next reference counts)",
         dict(BASE, Arg=("choice", [("seq", [("alt", ["Kw", "'x'"]), "Obj"]), "Other"]), Kw=("matchchoice", ["'a'", "'b'"]), Obj=("common", None), Other=("common", None)),
         {"Arg": ("abstract", ["Obj", "Other"])}),
        ("Item: Group | Leaf; Group: '(' Group ')' | INT; Leaf: x=..;     (a recursive match rule among the alternatives)",
         dict(BASE, Item=("choice", ["Group", "Leaf"]), Group=("choice", [("seq", ["'('", "Group", "')'"]), "INT"]), Leaf=("common", None)),
         {"Item": ("abstract", ["Leaf"]), "Group": ("match", [])}),
        ("Stmt: 'do' Block | Simple; Block: x=..; Simple: Assign | Call; Assign: x=..; Call: x=..;",
         dict(BASE, Stmt=("choice", [("seq", ["'do'", "Block"]), "Simple"]), Block=("common", None), Simple=("choice", ["Assign", "Call"]), Assign=("common", None), Call=("common", None)),
         {"Stmt": ("abstract", ["Block", "Simple"]), "Simple": ("abstract", ["Assign", "Call"])}),
        ("Wrap: '(' Wrap ')' Tail | Leaf; Tail: x=..; Leaf: x=..;     (a self reference is the first non-match reference of its alternative: the walk stops there)",
         dict(BASE, Wrap=("choice", [("seq", ["'('", "Wrap", "')'", "Tail"]), "Leaf"]), Tail=("common", None), Leaf=("common", None)),
         {"Wrap": ("abstract", ["Wrap", "Leaf"]), "Tail": ("common", [])}),
        ("Stmt: 'do' Block Tail; Block: x=..; Tail: x=..;     (an abstract rule whose body is one sequence: only its first non-match reference is yielded)",
         dict(BASE, Stmt=("seq", ["'do'", "Block", "Tail"]), Block=("common", None), Tail=("common", None)),
         {"Stmt": ("abstract", ["Block"])}),
        ("Pair: Kw First Second | Other; Kw: 'x'|'y'; First: x=..; Second: x=..; Other: x=..;",
         dict(BASE, Pair=("choice", [("seq", ["Kw", "First", "Second"]), "Other"]), Kw=("matchchoice", ["'x'", "'y'"]), First=("common", None), Second=("common", None), Other=("common", None)),
         {"Pair": ("abstract", ["First", "Other"])}),
        ("X: Y; Model: x=..;     with Y: x=..; in a grammar that only the grammar of X imports (the main grammar cannot look Y up by name)",
         dict(BASE, X=("ref", "Y"), Model=("common", None), Y=("common", None)),
         {"X": ("abstract", ["Y"]), "Model": ("common", [])}, ("Y",)),
        ("X: K; Model: x=..;     with K: 'a'|'b'; in a grammar that only the grammar of X imports",
         dict(BASE, X=("ref", "K"), Model=("common", None), K=("matchchoice", ["'a'", "'b'"])),
         {"X": ("match", []), "Model": ("common", [])}, ("K",)),
    ]
    W = "TextXVisitor._determine_rule_types"
    for g_ in grammars:
        src, spec, want = g_[:3]; HIDDEN[0] = g_[3] if len(g_) > 3 else ()
        names = list(spec)
        orders = [names, list(reversed(names))]
        from sa import util as _u
        if _u.TIER == "thorough":         # every rotation and its reverse: each class is visited first / last once
            for i_ in range(1, len(names)):
                rot = names[i_:] + names[:i_]; orders += [rot, list(reversed(rot))]
        for order in orders:
            inst += 1
            err, got = run(spec, order)
            bad = None
            if err: bad = "the rule kinds cannot be determined (%s)" % err
            else:
                for n, (k_, inh) in want.items():
                    gk, gi = got[n]
                    if gk != k_: bad = "rule %s is typed %s, documented %s" % (n, gk, k_); break
                    if k_ == "abstract" and (sorted(gi) != sorted(inh)): bad = "the inheritors of the abstract rule %s are %s, documented %s" % (n, gi, inh); break
            ob("C03", "C03.m", L, W, "%s  (classes visited %s)" % (src[:70], "in grammar order" if order is names else ("in reverse order" if order == list(reversed(names)) else "starting with %s" % order[0])), bad is None)
            if bad: out.append(Finding("C03", "C03.m", L, W, src, "for the grammar  %s  (%s): %s" % (src, "classes visited in grammar order" if order is names else "classes visited in the order %s" % order, bad), witness=src))
    return inst, out
