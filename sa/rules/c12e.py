"""C12.g / C11.g  RREL expression trees and their printed form, decided by evaluation (sa/pyeval.py): the node classes of
textx/scoping/rrel.py are instantiated by interpreting their own __init__, the trees are built by interpreting the
RRELVisitor methods on the children lists Arpeggio hands them (string matches that stand directly in a sequence are
suppressed: 'parent', '(', ')', '*', '.', ',' and the '~' after a fixed name; '~' and '^' arrive as strings), and printed by
interpreting __repr__.

   C12.g  for every sample expression the printed text is the canonical spelling of that expression: every bracket group
          keeps its brackets (also one that starts and ends with a bracket group, also a single element), every '*' follows
          a bracket group, dots are printed where they stand, flags are printed in full, '^' prints as its definition (..)*
   C11.g  the flags of an expression: 'm' anywhere in the flag text turns on importURI, 'p' anywhere turns on use_proxy
          (+m: +p: +mp: +pm:), no flags -> both off; every navigation node of the tree knows its expression"""
import ast
from sa.util import *
from sa import pyeval
R = "textx/scoping/rrel.py"
def rrel_builder(root):
    """(class table, base environment, build(spec) -> tree built by interpreting the visitor, parse_spec(text) -> spec)"""
    t = load(root, R)
    cds = {c.name: c for c in t.body if isinstance(c, ast.ClassDef)}
    for need in ("RRELVisitor", "RRELNavigation", "RRELParent", "RRELBrackets", "RRELDots", "RRELSequence", "RRELZeroOrMore", "RRELPath", "RRELExpression"):
        if need not in cds: raise AnalysisError("rrel.py: class %s not found" % need)
    fns = {f.name: f for f in t.body if isinstance(f, ast.FunctionDef)}
    base_env = {"__classdefs__": cds, "__functions__": fns, "__module__": t, "__classes__": {"str": lambda v: isinstance(v, str), "list": lambda v: isinstance(v, list)}}
    visitor = pyeval.Inst({".__cls__": "RRELVisitor", ".debug": False})
    def visit(meth, node, children):
        c_, f_ = pyeval.find_method(cds, "RRELVisitor", meth)
        if f_ is None: raise AnalysisError("RRELVisitor.%s not found" % meth)
        return pyeval.call_method_of(visitor, c_, f_, [node, children], {}, base_env)
    def node(text): return {".kind": "node", ".value": text, ".position": 0}
    def build(spec):
        k = spec[0]
        if k == "nav":
            _k, name, consume, fixed = spec
            if fixed is not None:
                fx = visit("visit_string_value", node("'%s'" % fixed), pyeval.SList([]))
                return visit("visit_rrel_navigation", node(""), pyeval.SList([fx, name], results={"string_value": [fx], "rrel_id": [name]}))
            return visit("visit_rrel_navigation", node(""), pyeval.SList([name] if consume else ["~", name], results={"rrel_id": [name]}))
        if k == "parent": return visit("visit_rrel_parent", node(""), pyeval.SList([spec[1]], results={"rrel_id": [spec[1]]}))
        if k == "dots": return visit("visit_rrel_dots", node("." * spec[1]), pyeval.SList([]))
        if k == "br": s_ = build(spec[1]); return visit("visit_rrel_brackets", node(""), pyeval.SList([s_], results={"rrel_sequence": [s_]}))
        if k == "zom": e_ = build(spec[1]); pe = visit("visit_rrel_path_element", node(""), pyeval.SList([e_])); return visit("visit_rrel_zero_or_more", node(""), pyeval.SList([pe]))
        if k == "path":
            ch = []
            for x in spec[1]:
                if x == "^": ch.append("^")
                elif x[0] in ("zom", "dots"): ch.append(build(x))
                else: ch.append(visit("visit_rrel_path_element", node(""), pyeval.SList([build(x)])))
            return visit("visit_rrel_path", node(""), pyeval.SList(ch))
        if k == "seq": return visit("visit_rrel_sequence", node(""), pyeval.SList([build(p) for p in spec[1]]))
        if k == "expr":
            s_ = build(spec[1])
            return visit("visit_rrel_expression", node(""), pyeval.SList(([("+%s:" % spec[2])] if spec[2] else []) + [s_]))
        raise AnalysisError("spec " + k)
    def parse_spec(text):
        """the analysis' own reading of the sample text (a 40-line recursive descent over the RREL syntax of the documentation)"""
        pos = [0]
        def peek(n=1): return text[pos[0]:pos[0] + n]
        def eat(tok):
            if not text.startswith(tok, pos[0]): raise AnalysisError("sample expression %r: expected %r at %d" % (text, tok, pos[0]))
            pos[0] += len(tok)
        def ident():
            i = pos[0]
            while pos[0] < len(text) and (text[pos[0]].isalnum() or text[pos[0]] == "_"): pos[0] += 1
            if i == pos[0]: raise AnalysisError("sample expression %r: name expected at %d" % (text, i))
            return text[i:pos[0]]
        def elem():
            if peek() == "(":
                eat("("); s_ = seq(); eat(")"); e_ = ("br", s_)
            elif text.startswith("parent(", pos[0]):
                eat("parent("); e_ = ("parent", ident()); eat(")")
            elif peek() == "'":
                eat("'"); i = pos[0]
                while text[pos[0]] != "'": pos[0] += 1
                fx = text[i:pos[0]]; eat("'"); eat("~"); e_ = ("nav", ident(), False, fx)
            elif peek() == "~":
                eat("~"); e_ = ("nav", ident(), False, None)
            else: e_ = ("nav", ident(), True, None)
            if peek() == "*": eat("*"); e_ = ("zom", e_)
            return e_
        def path():
            els = []
            if peek() == "^": eat("^"); els.append("^")
            elif peek() == ".":
                n = 0
                while peek() == ".": eat("."); n += 1
                els.append(("dots", n))
            if els and (pos[0] >= len(text) or peek() in ",)"): return ("path", els)
            els.append(elem())
            while peek() == ".": eat("."); els.append(elem())
            return ("path", els)
        def seq():
            ps_ = [path()]
            while peek() == ",": eat(","); ps_.append(path())
            return ("seq", ps_)
        flags = ""
        if peek() == "+": eat("+"); i = pos[0]; pos[0] = text.index(":"); flags = text[i:pos[0]]; eat(":")
        s_ = seq()
        if pos[0] != len(text): raise AnalysisError("sample expression %r: trailing text at %d" % (text, pos[0]))
        return ("expr", s_, flags)
    return cds, base_env, build, parse_spec
def r_C12eval(root):
    out = []; inst = 0
    cds, base_env, build, parse_spec = rrel_builder(root)
    # (written form, canonical print)
    SAMPLES = [("a", None), ("~a", None), ("a.b.c", None), ("a.~b", None), ("'x y'~a.b", None), ("''~a", None), ("parent(T).a", None), ("..a", None), ("...", None), (".", None),
               ("a,b", None), ("a.b,~c", None), ("(a)", None), ("(a,b).c", None), ("a.(b).c", None), ("(a)*", None), ("(a.b)*.c", None), ("(..)*.a", None),
               ("n.((s).(s))*.l", None), ("((a),(b))*", None), ("x.((a).parent(T))*.y", None), ("parent(N).(..).l", None), ("~t.(..).v", None), ("a.(...)", None),
               ("^a", "(..)*.a"), ("^a,^b", "(..)*.a,(..)*.b"), ("a,b,a", None), ("parent(OBJECT).x", None), ("a.parent(OBJECT).b", None), ("....a", None), ("a.(....)", None), ("^a,(..)*.a", "(..)*.a,(..)*.a"), ("(a,a)*.b", None), ("+m:a.b", None), ("+p:a", None), ("+mp:a", None), ("+pm:~a.b", None), ("+mm:a", None), ("+pp:a.b", None), ("+mpm:a", None), ("(a)*.(b)*", None), ("a*", "(a)*"), ("a.b*.c", "a.(b)*.c"), ("parent(T)*", "(parent(T))*")]
    cases = [(canon or written, parse_spec(written)) for written, canon in SAMPLES]
    FLAGS = {"": (False, False), "m": (True, False), "p": (False, True), "mp": (True, True), "pm": (True, True), "mm": (True, False), "pp": (False, True), "mpm": (True, True)}
    for want, spec in cases:
        inst += 1
        try: tree = build(spec); got = pyeval.text_of(tree, base_env); err = None
        except pyeval.Raised as r_: tree = None; got = None; err = "raises %s" % r_.cls
        except pyeval.Unsupported as u_: raise AnalysisError("RREL tree for %s: outside the evaluated subset: %s" % (want, u_))
        ok = err is None and isinstance(got, str) and got.replace(" ", "") == want.replace(" ", "") and (" " not in want or "x y" in got)
        ob("C12", "C12.g", R, "RRELVisitor / __repr__", "%s prints as %s" % (want, got if err is None else err), ok)
        if not ok: out.append(Finding("C12", "C12.g", R, "RRELVisitor / RREL*.__repr__", want, "the expression  %s  (tree built by the visitor from its parse) prints as  %s : the printed text must be the expression again (re-parsing it must give an equivalent tree)" % (want, got if err is None else err), witness=want))
        if tree is not None:
            fl = spec[2]; inst += 1
            g_ = (tree.get(".importURI"), tree.get(".use_proxy"))
            okf = (bool(g_[0]), bool(g_[1])) == FLAGS[fl] and g_[0] in (True, False) and g_[1] in (True, False)
            for pr in ("C11", "C12"): ob(pr, "C11.g", R, "RRELExpression.__init__", "flags %r -> importURI=%s use_proxy=%s" % (fl, g_[0], g_[1]), okf)
            if not okf:
                for pr in ("C11", "C12"): out.append(Finding(pr, "C11.g", R, "RRELExpression.__init__", "flags +%s:" % fl, "an expression written with the flags +%s: gets importURI=%s, use_proxy=%s; documented importURI=%s, use_proxy=%s (each letter counts wherever it stands)" % (fl, g_[0], g_[1], FLAGS[fl][0], FLAGS[fl][1]), witness="+%s:%s" % (fl, want.split(":")[-1])))
            # every navigation knows its expression
            navs = []
            def walk(o, depth=0):
                if depth > 12: return
                if isinstance(o, pyeval.Inst):
                    if o.get(".__cls__") == "RRELNavigation": navs.append(o)
                    for k_, v_ in o.items():
                        if k_ not in (".rrel_expression",): walk(v_, depth + 1)
                elif isinstance(o, list):
                    for x in o: walk(x, depth + 1)
            walk(tree)
            inst += 1
            okn = all(n_.get(".rrel_expression") is tree for n_ in navs)
            ob("C11", "C11.g", R, "RRELExpression.__init__", "%s: %d navigation node(s) know their expression" % (want, len(navs)), okn)
            if not okn: out.append(Finding("C11", "C11.g", R, "RRELExpression.__init__", want, "a navigation node of  %s  does not point to its expression: the +m flag (search in imported models) is not seen when that step is evaluated" % want, witness=want))
    return inst, out
