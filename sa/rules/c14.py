"""Ledger extensions (obligations O1 instrumentation, O2 per-object storage, O3 repository membership, O5 output file)

   L1  cleanup-and-reraise handlers are catch-all (bare `except:` / `except BaseException`): a KeyboardInterrupt or
       SystemExit aborts a load / a generator run like any other failure                       (C14.f C15.c C18.c C31.b)
   L2  the O2 discharge (_release_user_obj_attrs) has no exit or guard that depends on state other than the list of
       ids recorded at creation                                                                   (C14.g / C15.d)
   L2b the id is recorded right at the creation of the per-object storage: no statement that may raise (in particular
       the descent into the object's children) lies between the two                              (C15.e)
   L3  the handler that directly protects the end of the construction (where the construction marker is deleted) must
       discharge for *every* model of the attempt: no discharge reached from it may be filtered by the marker
                                                                                                 (C15.f / C18.d)
   L4  the construction marker is tested for existence (hasattr): _start_model_construction stores None under it,
       so a value test misses models whose resolver has not been created yet                    (C16.b / C18.e)
   L5  the immutable-model path restores directly: on every normal path through parse_tree_to_objgraph the parser is
       either handed over to the model (model._tx_parser = parser) or restored at once          (C14.e)
   L6  ModelRepository.remove_model finds the entry by the stored model, not by a key recomputed from the model
       (string-loaded models are stored under synthetic keys)                                   (C15.g / C18.f)
   L7  per-load state used by a failure handler is frame-local: loads nest (imports re-enter the load entry), an
       attribute of the metamodel would be overwritten by the nested load                       (C18.g)"""
import ast
from sa.util import *
from sa import sem
from sa.cfg import CFG
from sa.rules.b4 import name_graph, closure_calls
M = "textx/model.py"; MM = "textx/metamodel.py"; S = "textx/scoping/__init__.py"; G = "textx/generators.py"
MARKER = "_tx_reference_resolver"
def _is_catch_all(h):
    return h.type is None or (isinstance(h.type, ast.Name) and h.type.id == "BaseException")
def _reraises(h): return any(isinstance(n, ast.Raise) and n.exc is None for n in ast.walk(ast.Module(body=h.body, type_ignores=[])))
def r_ledger2(root):
    out = []; inst = 0; defs = name_graph(root)
    t = load(root, M)
    DISCH = {"_restore_user_attr_methods": ("C14", "C14.f"), "_release_user_obj_attrs": ("C15", "C15.c"), "remove_models": ("C18", "C18.c"), "remove_model": ("C18", "C18.c"),
             "remove_models_from_repositories": ("C18", "C18.c"), "remove": ("C31", "C31.b"), "unlink": ("C31", "C31.b")}
    # ---------------- L1
    for rel in (M, MM, G):
        tr = load(root, rel)
        for n in ast.walk(tr):
            if not isinstance(n, ast.Try): continue
            for h in n.handlers:
                if not _reraises(h): continue
                reached = {callee_name(c) for c in closure_calls(h.body, defs, depth=4)}
                props = sorted({DISCH[r] for r in reached if r in DISCH and not (r in ("remove", "unlink") and rel != G)})
                if not props: continue
                okh = _is_catch_all(h)
                for pr, cl in props:
                    inst += 1
                    ob(pr, cl, rel, qualname(n), "except %s: <cleanup>; raise" % (ast.unparse(h.type) if h.type else ""), okh)
                    if not okh:
                        out.append(Finding(pr, cl, rel, qualname(n), "except %s: %s" % (ast.unparse(h.type), " ".join(ast.unparse(h.body[0]).split())[:60]), "the cleanup runs only for %s: a KeyboardInterrupt or SystemExit during the protected region skips it (classes stay instrumented / models stay cached / a truncated file stays)" % ast.unparse(h.type), witness="KeyboardInterrupt raised from an object processor or in the middle of a file write"))
    # ---------------- L2
    rel_fn = find(t, "get_model_parser.TextXModelParser._release_user_obj_attrs"); fir = sem.info(rel_fn)
    pops = [c for c in calls(rel_fn, own=True) if callee_name(c) in ("pop", "clear") and "_tx_obj_attrs" in ast.unparse(c.func)]
    if not pops: raise AnalysisError("_release_user_obj_attrs: release statement not found")
    inst += 1; ok2 = True
    for n in own_nodes(rel_fn):
        if isinstance(n, ast.Return) and n is not rel_fn.body[-1]:
            gs = [ast.unparse(g) for g, p in fir.guards(n)]
            if not all("_user_obj_ids" in g for g in gs) or not gs:
                ok2 = False; out.append(Finding("C15", "C15.d", M, "TextXModelParser._release_user_obj_attrs", "return under " + "; ".join(gs)[:120], "the per-object storage is not released when %s: that state is not what was recorded when the storage was created (objects are created long before they are complete)" % ("; ".join(gs) or "always"), witness="a load that fails while the first user-class object is still being built"))
    for c in pops:
        for g, p in fir.guards(c):
            u = ast.unparse(g)
            if "self." in u and "_user_obj_ids" not in u and "user_classes" not in u:
                ok2 = False; out.append(Finding("C15", "C15.d", M, "TextXModelParser._release_user_obj_attrs", u[:120], "the release of the per-object storage depends on %s, which is not the record made at creation" % u[:60]))
    ob("C15", "C15.d", M, "TextXModelParser._release_user_obj_attrs", "release is unconditional w.r.t. everything but the recorded ids", ok2)
    # ---------------- L2b
    pn = find_i(root, M, "parse_tree_to_objgraph.process_node"); g = CFG(pn)
    create = [n for n in g.nodes if n.kind == "stmt" and isinstance(n.ast, ast.Assign) and isinstance(n.ast.targets[0], ast.Subscript) and "_tx_obj_attrs" in ast.unparse(n.ast.targets[0].value)]
    record = [n for n in g.nodes if n.kind == "stmt" and any(callee_name(c) == "append" and "_user_obj_ids" in ast.unparse(c.func) for c in calls(n.ast))]
    if not create: raise AnalysisError("creation of the per-object storage not found in process_node")
    inst += 1; ok2b = True
    if not record:
        ok2b = False; out.append(Finding("C15", "C15.e", M, "parse_tree_to_objgraph.process_node", ast.unparse(create[0].ast), "the id of the created object is never recorded for release"))
    else:
        for c in create:
            starts = [m for k, m in c.succ if k != "exc"]
            for s in starts:
                if s in record: continue
                p = g.paths_avoiding(s, g.raise_exit, lambda n: n in record)
                if p:
                    ok2b = False
                    culprit = next((x for x in p if x.ast is not None and any(k == "exc" for k, _ in x.succ)), p[0])
                    out.append(Finding("C15", "C15.e", M, "parse_tree_to_objgraph.process_node", " ".join(ast.unparse(culprit.ast).split())[:100], "a failure here happens after the per-object storage was created but before its id was recorded: the failure handlers cannot release it (the unfinished object and its children stay reachable from the user class)", witness="a match-rule object processor raising inside a user-class object"))
                    break
    ob("C15", "C15.e", M, "parse_tree_to_objgraph.process_node", "id recorded immediately after the storage is created", ok2b)
    # ---------------- L3 / L4
    drv = find(t, "parse_tree_to_objgraph")
    tries = [n for n in own_nodes(drv) if isinstance(n, ast.Try)]
    inner = None
    for tr in tries:
        direct = [c for c in closure_calls(tr.body, defs, depth=1) if callee_name(c) == "_end_model_construction"]
        nested = any(x is not tr and isinstance(x, ast.Try) and any(callee_name(c) == "_end_model_construction" for c in calls(x)) for x in ast.walk(ast.Module(body=tr.body, type_ignores=[])))
        if direct and not nested: inner = tr
    if inner is None: raise AnalysisError("the try block protecting _end_model_construction was not found")
    endf = defs["_end_model_construction"][0]
    def _aname(x):
        """attribute name given as a literal or as a module-level string constant"""
        if isinstance(x, ast.Constant) and isinstance(x.value, str): return x.value
        if isinstance(x, ast.Name): return const_str(x, t)
        return None
    deleted = {x.attr for n in ast.walk(endf) if isinstance(n, ast.Delete) for x in n.targets if isinstance(x, ast.Attribute)}
    deleted |= {_aname(c.args[1]) for c in calls(endf) if callee_name(c) == "delattr" and len(c.args) == 2 and _aname(c.args[1])}
    if MARKER not in deleted: raise AnalysisError("_end_model_construction no longer deletes the construction marker; rule L3 needs re-confirmation")
    for h in inner.handlers:
        inst += 1; ok3 = True
        # walk the call closure of the handler; any guard/filter on a deleted attribute on the way to a discharge is a violation
        seen = set(); frontier = [(h.body, "parse_tree_to_objgraph handler")]
        while frontier:
            body, where = frontier.pop()
            for node in body:
                for x in ast.walk(node):
                    if isinstance(x, (ast.Constant, ast.Name)) and _aname(x) in deleted and isinstance(getattr(x, "_parent", None), ast.Call) and callee_name(x._parent) in ("hasattr", "getattr") and len(x._parent.args) >= 2 and x._parent.args[1] is x:
                        ok3 = False
                        st = stmt_of(x)
                        out.append(Finding("C15", "C15.f", M, where, " ".join(ast.unparse(st).split())[:110], "the failure handler that protects the end of the construction filters the models by the construction marker, which _end_model_construction has already deleted for some of them: those models are neither removed from the repositories nor released", witness="a user-class __init__ or an object processor raising in the second of two files"))
                        out.append(Finding("C18", "C18.d", M, where, " ".join(ast.unparse(st).split())[:110], "the failure handler that protects the object processors removes only models that still carry the construction marker; after _end_model_construction nothing is removed and the failed models stay cached", witness="global repository, an object processor raising in an imported file"))
                for c in calls(node):
                    nm = callee_name(c)
                    if nm in defs and nm not in seen and nm not in ("_restore_user_attr_methods", "_release_user_obj_attrs", "remove_model", "remove_models", "get_included_models"):
                        seen.add(nm)
                        for d in defs[nm]: frontier.append((d.body, nm))
        ob("C15", "C15.f", M, "parse_tree_to_objgraph", "inner failure handler discharges for every model of the attempt", ok3)
        ob("C18", "C18.d", M, "parse_tree_to_objgraph", "inner failure handler removes every model of the attempt", ok3)
    # L4: marker tests are existence tests
    startf = defs["_start_model_construction"][0]
    stores_none = any(isinstance(n, ast.Assign) and any(isinstance(x, ast.Attribute) and x.attr == MARKER for x in n.targets) and isinstance(n.value, ast.Constant) and n.value.value is None for n in ast.walk(startf)) \
                  or any(callee_name(c) == "setattr" and len(c.args) == 3 and _aname(c.args[1]) == MARKER and isinstance(c.args[2], ast.Constant) and c.args[2].value is None for c in calls(startf))
    if stores_none:
        for n in ast.walk(t):
            if isinstance(n, ast.Call) and callee_name(n) == "getattr" and len(n.args) >= 2 and _aname(n.args[1]) == MARKER and len(n.args) == 3:
                par = getattr(n, "_parent", None)
                is_value_test = isinstance(par, ast.Compare) or isinstance(par, (ast.If, ast.BoolOp, ast.UnaryOp, ast.comprehension, ast.IfExp, ast.ListComp))
                if is_value_test:
                    inst += 1
                    st = stmt_of(n)
                    for pr, cl in (("C16", "C16.b"), ("C18", "C18.e"), ("C15", "C15.f")):
                        ob(pr, cl, M, qualname(n), ast.unparse(par)[:80], False)
                        out.append(Finding(pr, cl, M, qualname(n), " ".join(ast.unparse(st).split())[:110], "a model under construction is recognised by the *value* of the marker, but _start_model_construction stores None: models whose resolver has not been created yet (a failure while their imports are loaded) are not recognised and stay cached", witness="global repository, main file whose imported file has a syntax error, then the same main file again"))
        inst += 1
        ob("C16", "C16.b", M, "_start_model_construction", "marker tests are existence tests (marker value starts as None)", True)
    # ---------------- L5
    gd = CFG(drv)
    handover = lambda n: n.kind == "stmt" and ((isinstance(n.ast, ast.Assign) and any(isinstance(x, ast.Attribute) and x.attr == "_tx_parser" for x in n.ast.targets)) or any(callee_name(c) == "_restore_user_attr_methods" for c in closure_calls([n.ast], defs, depth=3)))
    inst += 1
    p = gd.paths_avoiding(gd.entry, gd.exit, handover)
    ob("C14", "C14.e", M, "parse_tree_to_objgraph", "every normal path hands the parser over to the model or restores the user classes", p is None)
    if p:
        conds = [" ".join(ast.unparse(x.ast).split())[:50] for x in p if x.kind == "cond"][-3:]
        out.append(Finding("C14", "C14.e", M, "parse_tree_to_objgraph", "path via " + " / ".join(conds), "a load can finish normally without the parser being handed to the model (model._tx_parser) and without restoring the user classes: they stay instrumented after a successful load", witness="first rule is a match rule (the model is an int/str), metamodel has user classes"))
    # ---------------- L6 (C18.f / C15.g: how remove_model finds the entry) is decided by evaluation: C18.i / C18.j (sa/rules/c17.py, c17e.py)
    # ---------------- L7
    mm = load(root, MM)
    for q in ("TextXMetaModel._call_model_processors",):
        try: fn = find(mm, q)
        except AnalysisError: continue
        for h in [h for n in ast.walk(fn) if isinstance(n, ast.Try) for h in n.handlers]:
            inst += 1; ok7 = True
            for x in ast.walk(ast.Module(body=h.body, type_ignores=[])):
                if isinstance(x, ast.Attribute) and isinstance(x.value, ast.Name) and x.value.id == "self" and isinstance(x.ctx, ast.Load):
                    # attribute of the metamodel read in the handler: is it written by a load entry (per-load state)?
                    writers = [f for f in ("TextXMetaModel.model_from_str", "TextXMetaModel.internal_model_from_file", "TextXMetaModel._remember_cached_models", "TextXMetaModel._cached_model_ids") if _writes_attr(mm, f, x.attr, defs)]
                    if writers:
                        ok7 = False
                        out.append(Finding("C18", "C18.g", MM, q, "self." + x.attr, "the failure handler reads per-load state from the metamodel (self.%s, written by %s); loads nest — an imported file is loaded by re-entering the load entry — so the nested load overwrites the outer load's snapshot and the outer models are not removed" % (x.attr, writers[0].split(".")[-1]), witness="global repository, failing model processor on a file that imports a not yet cached file"))
            ob("C18", "C18.g", MM, q, "handler uses frame-local snapshot", ok7)
    return inst, out
def _writes_attr(mm, qual, attr, defs, depth=2):
    try: fn = find(mm, qual)
    except AnalysisError: return False
    nodes = [fn]
    for c in closure_calls(fn.body, defs, depth=depth):
        pass
    def writes(f):
        return any(isinstance(n, (ast.Assign, ast.AugAssign)) and any(isinstance(x, ast.Attribute) and x.attr == attr and isinstance(x.value, ast.Name) and x.value.id == "self" for x in (n.targets if isinstance(n, ast.Assign) else [n.target])) for n in ast.walk(f))
    if writes(fn): return True
    for c in calls(fn, own=True):
        nm = callee_name(c)
        if isinstance(c.func, ast.Attribute) and isinstance(c.func.value, ast.Name) and c.func.value.id == "self" and nm in defs:
            if any(writes(d) for d in defs[nm]): return True
    return False

def r_C14h(root):
    """C14.h  postponed initialisation of user objects (_end_model_construction): the instrumented __setattr__ routes a
       write into the per-object record while that record exists (another load of the same metamodel may keep the class
       instrumented).  So the record of an object is removed from _tx_obj_attrs *before* its attributes are applied to the
       object and before its __init__ runs: on no path from the start of the per-object loop does a setattr(obj, ...) or
       obj.__init__(...) execute while the record is still there."""
    import ast
    from sa import sem
    M = "textx/model.py"; out = []; inst = 0
    fn = find_i(root, M, "_end_model_construction"); fi = sem.info(fn); cfg = fi.cfg
    loops = [n for n in own_nodes(fn) if isinstance(n, ast.For) and "_user_class_inst" in ast.unparse(fi.expand(n.iter, at=n.iter))]
    if not loops: raise AnalysisError("_end_model_construction: loop over the parser's user objects not found")
    for lp in loops:
        ov = lp.target.id if isinstance(lp.target, ast.Name) else None
        if ov is None: raise AnalysisError("_end_model_construction: loop target is not a simple name")
        def is_removal(n):
            a = n.ast
            if a is None: return False
            for x in ast.walk(a):
                if isinstance(x, ast.Call) and isinstance(x.func, ast.Attribute) and x.func.attr == "pop" and "_tx_obj_attrs" in ast.unparse(x.func.value) and x.args and "id(%s)" % ov in ast.unparse(x.args[0]).replace(" ", ""): return True
                if isinstance(x, ast.Delete) and any(isinstance(tg, ast.Subscript) and "_tx_obj_attrs" in ast.unparse(tg.value) and "id(%s)" % ov in ast.unparse(tg.slice).replace(" ", "") for tg in x.targets): return True
            return False
        removal = [n for n in cfg.nodes if is_removal(n)]
        if not removal: raise AnalysisError("_end_model_construction: removal of the per-object record not found")
        head = fi.node_of(lp)
        applies = []
        for c in calls(lp):
            if callee_name(c) == "setattr" and c.args and ast.unparse(c.args[0]) == ov: applies.append(c)
            elif isinstance(c.func, ast.Attribute) and c.func.attr == "__init__" and ast.unparse(c.func.value) == ov: applies.append(c)
        if not applies: raise AnalysisError("_end_model_construction: application of the collected attributes not found")
        for c in applies:
            inst += 1
            n = fi.node_of(c)
            p = cfg.paths_avoiding(head, n, lambda m: m in removal) if n is not None and head is not None else None
            ok = not p
            for pr in ("C14", "C05"): ob(pr, "C14.h", M, "_end_model_construction", "record removed before %s" % " ".join(ast.unparse(c).split())[:60], ok)
            if not ok:
                for pr in ("C14", "C05"):
                    out.append(Finding(pr, "C14.h", M, "_end_model_construction", " ".join(ast.unparse(c).split())[:80], "attributes are applied to the user object while its record is still in _tx_obj_attrs: if the class is still instrumented (a nested / second load of the same metamodel is in progress) the write lands in the record, which is discarded afterwards — the object loses parent and every attribute its __init__ does not store itself", witness="user class whose __init__ ignores parent; main model that imports another model of the same metamodel"))
    return inst, out

def r_C14d(root):
    """C14.d  postponed __init__ (_end_model_construction): exactly one obj.__init__(**kw) call per object of the parser's
       user-object list; kw is the collected record filtered to the names of the class's grammar attributes plus 'parent';
       the call comes after the user classes' attribute methods were restored."""
    import ast
    from sa import sem
    M = "textx/model.py"; out = []; inst = 0
    fn = find_i(root, M, "_end_model_construction"); fi = sem.info(fn); cfg = fi.cfg
    inits = [c for c in calls(fn, own=True) if isinstance(c.func, ast.Attribute) and c.func.attr == "__init__"]
    inst += 1
    W = "_end_model_construction"
    if len(inits) != 1:
        ob("C14", "C14.d", M, W, "%d __init__ calls" % len(inits), False)
        out.append(Finding("C14", "C14.d", M, W, "%d calls of obj.__init__" % len(inits), "user objects are initialised %s" % ("never" if not inits else "more than once per object")))
        return inst, out
    c = inits[0]; ov = ast.unparse(c.func.value)
    lp = next((a for a in ancestors(c) if isinstance(a, ast.For)), None)
    ok = lp is not None and isinstance(lp.target, ast.Name) and lp.target.id == ov and "_user_class_inst" in fi.text(lp.iter, at=lp.iter) and not any(isinstance(a, (ast.For, ast.While)) for a in ancestors(c) if a is not lp and lp in list(ancestors(a)))
    ob("C14", "C14.d", M, W, "one __init__ call per element of the parser's user-object list", ok)
    if not ok: out.append(Finding("C14", "C14.d", M, W, " ".join(ast.unparse(c).split()), "the postponed __init__ is not called exactly once for each object of the parser's user-object list"))
    # kwargs: which collected names reach __init__?  The filter condition is located (comprehension filter, or the conditions
    # under which a loop stores into the dict that is passed as **) and evaluated for sample names
    inst += 1
    from sa import pyeval
    kw = [k for k in c.keywords if k.arg is None]
    okk = False; shown = " ".join(ast.unparse(c).split())
    def single_def(name_node, at):
        nd = fi.node_of(at); ds = fi.rd.defs_of(nd, name_node.id) if nd is not None else []
        defs_ = [fi.cfg.nodes[d].ast for d in ds if fi.cfg.nodes[d].kind == "stmt" and isinstance(fi.cfg.nodes[d].ast, ast.Assign)]
        return defs_
    cond = None; keyvar = None
    if len(kw) == 1 and not c.args and len(c.keywords) == 1 and isinstance(kw[0].value, (ast.Name, ast.DictComp)):
        v = kw[0].value
        if isinstance(v, ast.Name):
            ds = single_def(v, c)
            comp = [d.value for d in ds if isinstance(d.value, ast.DictComp)]
            if len(ds) == 1 and comp: v = comp[0]
            else:
                # loop form:  K = {} ... for k, val in <record>.items(): if <cond>: K[k] = val
                stores = [n for n in own_nodes(fn) if isinstance(n, ast.Assign) and len(n.targets) == 1 and isinstance(n.targets[0], ast.Subscript) and isinstance(n.targets[0].value, ast.Name) and n.targets[0].value.id == v.id]
                if len(stores) == 1 and isinstance(stores[0].targets[0].slice, ast.Name):
                    keyvar = stores[0].targets[0].slice.id
                    parts = []
                    for a_, pol in fi.atoms_at(stores[0]):
                        try: e_ = ast.parse(a_, mode="eval").body
                        except SyntaxError: continue
                        if keyvar in {x.id for x in ast.walk(e_) if isinstance(x, ast.Name)}: parts.append(e_ if pol else ast.UnaryOp(op=ast.Not(), operand=e_))
                    if parts: cond = parts[0] if len(parts) == 1 else ast.BoolOp(op=ast.And(), values=parts)
                    shown = "for ...: if %s: %s" % (" and ".join(ast.unparse(p_) for p_ in parts), " ".join(ast.unparse(stores[0]).split()))
        if isinstance(v, ast.DictComp) and len(v.generators) == 1:
            g = v.generators[0]
            if isinstance(g.target, ast.Tuple) and isinstance(g.target.elts[0], ast.Name) and ast.unparse(v.key) == g.target.elts[0].id and g.ifs:
                keyvar = g.target.elts[0].id; cond = g.ifs[0] if len(g.ifs) == 1 else ast.BoolOp(op=ast.And(), values=list(g.ifs)); shown = " ".join(ast.unparse(v).split())
    if cond is not None:
        want = {"a": True, "parent": True, "_tx_position": False, "extra": False}; got = {}
        try:
            for key in want:
                env = {keyvar: key, "%s.__class__._tx_attrs" % ov: {"a": 1}, "type(%s)._tx_attrs" % ov: {"a": 1}, "%s._tx_attrs" % ov: {"a": 1}}
                # local aliases of the class / its attribute table
                for x in ast.walk(cond):
                    if isinstance(x, ast.Name) and x.id not in env:
                        ex = fi.expand(ast.Name(id=x.id, ctx=ast.Load()), at=c)
                        if not isinstance(ex, ast.Name):
                            try: env[x.id] = pyeval.evaluate(ex, env)
                            except pyeval.Unsupported: pass
                got[key] = bool(pyeval.evaluate(cond, env))
            okk = got == want
        except pyeval.Unsupported as e: raise AnalysisError("_end_model_construction: filter of the __init__ arguments outside the evaluated subset: %s" % e)
    ob("C14", "C14.d", M, W, "__init__ keyword arguments: %s" % shown[:120], okk)
    if not okk: out.append(Finding("C14", "C14.d", M, W, shown[:100], "the postponed __init__ does not receive exactly the collected values of the rule's attributes plus parent (filter: name in the class's _tx_attrs or name == 'parent')", witness="user class whose __init__ takes exactly the rule's attributes (and **kwargs-free)"))
    # after restore
    inst += 1
    rest = [n for n in cfg.nodes if n.ast is not None and any(callee_name(x) == "_restore_user_attr_methods" for x in calls(n.ast))]
    n = fi.node_of(c)
    oka = bool(rest) and n is not None and not cfg.paths_avoiding(cfg.entry, n, lambda m: m in rest)
    ob("C14", "C14.d", M, W, "__init__ runs after the attribute methods were restored", oka)
    if not oka: out.append(Finding("C14", "C14.d", M, W, " ".join(ast.unparse(c).split()), "the postponed __init__ can run while the class's attribute methods are still the instrumented ones of this parser"))
    return inst, out

def r_C14i(root):
    """C14.i  restore is idempotent per parser: _restore_user_attr_methods is reached several times for one failing load
       (inner handler, cleanup of models under construction, outer handler).  The flag that says 'this parser has
       instrumented the classes' is therefore cleared before the nesting counters are decremented, on every path — a second
       call finds it cleared and does nothing.  (Clearing it only when a counter reaches zero lets a nested failing load
       decrement the counters of the enclosing load.)   Symmetrically _replace_user_attr_methods sets the flag on every path."""
    import ast
    from sa import sem
    M = "textx/model.py"; out = []; inst = 0
    t = load(root, M)
    for q, val, what in (("get_model_parser.TextXModelParser._restore_user_attr_methods", False, "decrement"), ("get_model_parser.TextXModelParser._replace_user_attr_methods", True, "increment")):
        fn = find(t, q); fi = sem.info(fn); cfg = fi.cfg; inst += 1
        flag = [n for n in cfg.nodes if n.kind == "stmt" and isinstance(n.ast, ast.Assign) and any(isinstance(tg, ast.Attribute) and tg.attr == "_user_attr_methods_replaced" for tg in n.ast.targets) and isinstance(n.ast.value, ast.Constant) and n.ast.value.value is val]
        cnt = [n for n in cfg.nodes if n.kind == "stmt" and isinstance(n.ast, (ast.AugAssign, ast.Assign)) and "_tx_instrumented" in ast.unparse(n.ast.targets[0] if isinstance(n.ast, ast.Assign) else n.ast.target)] + \
              [n for n in cfg.nodes if n.ast is not None and n.kind in ("stmt",) and any(callee_name(c) in ("_replace_user_attr_methods_for_class",) for c in calls(n.ast))]
        if not flag or not cnt: raise AnalysisError("%s: flag store / nesting counter update not found" % q)
        ok = True; why = ""
        if val is False:
            for c in cnt:
                if cfg.paths_avoiding(cfg.entry, c, lambda m: m in flag): ok = False; why = "a nesting counter is decremented on a path on which the parser's 'replaced' flag has not been cleared yet (%s)" % " ".join(ast.unparse(c.ast).split())[:60]
            conds = [a for f_ in flag for a, pol in fi.atoms_at(f_.ast) if "_user_attr_methods_replaced" not in a]
            if conds: ok = False; why = "the 'replaced' flag is cleared only under %s: a repeated restore for the same parser decrements the counters again" % conds[0][:80]
        else:
            if cfg.paths_avoiding(cfg.entry, cfg.exit, lambda m: m in flag):
                ok = False; why = "the classes are instrumented on a path that does not record it in the parser's 'replaced' flag: the matching restore will do nothing"
        ob("C14", "C14.i", M, q, "flag %s relative to the counter %s" % ("cleared before" if val is False else "set with", what), ok)
        if not ok: out.append(Finding("C14", "C14.i", M, q, "self._user_attr_methods_replaced = %s" % val, why, witness="nested load of the same metamodel (scope provider loading an optional model) that fails after parsing and whose error is caught"))
    return inst, out

def r_C15h(root):
    """C15.h  _abandon_user_objects discharges both obligations (restore the user classes, release the per-object records)
       for every abandoned model that has a parser: the two calls depend on nothing but `hasattr(m, '_tx_parser')`.
       In particular not on the parser's 'replaced' flag — _end_model_construction restores the classes *before* it runs the
       constructors, so a constructor that raises leaves records behind although the flag is already cleared."""
    import ast
    from sa import sem
    M = "textx/model.py"; out = []; inst = 0
    fn = find_i(root, M, "_abandon_user_objects"); fi = sem.info(fn)
    t_ = load(root, M)
    def sites(nm):
        """call sites in fn that execute nm(): direct calls, or calls of a uniquely named function/method of the module whose body calls nm() unconditionally (wrapper extracted by a refactoring)"""
        cs = [c for c in calls(fn, own=True) if callee_name(c) == nm]
        if cs: return cs
        for c in calls(fn, own=True):
            defs = [d for d in ast.walk(t_) if isinstance(d, ast.FunctionDef) and d.name == callee_name(c)]
            if len(defs) == 1 and any(isinstance(s_, ast.Expr) and isinstance(s_.value, ast.Call) and callee_name(s_.value) == nm for s_ in defs[0].body): cs.append(c)
        return cs
    for nm in ("_restore_user_attr_methods", "_release_user_obj_attrs"):
        cs = sites(nm)
        inst += 1
        if not cs:
            ob("C15", "C15.h", M, "_abandon_user_objects", nm + " called", False)
            out.append(Finding("C15", "C15.h", M, "_abandon_user_objects", nm, "abandoned models are never discharged by %s" % nm)); continue
        extra = [(a, pol) for a, pol in fi.atoms_at(cs[0]) if not (a.replace(" ", "").startswith("hasattr(") and a.replace(" ", "").endswith(",'_tx_parser')"))]
        lp = next((a for a in ancestors(cs[0]) if isinstance(a, ast.For)), None)
        ok = not extra and lp is not None
        ob("C15", "C15.h", M, "_abandon_user_objects", "%s() for every abandoned model with a parser" % nm, ok)
        if not ok: out.append(Finding("C15", "C15.h", M, "_abandon_user_objects", "%s() under %s%s" % (nm, "" if not extra or extra[0][1] else "not ", extra[0][0][:70] if extra else "no loop over the models"), "the cleanup of an abandoned model is skipped when %s: per-object records (which hold `parent`, i.e. the whole partial model) stay in user_class._tx_obj_attrs" % ("%s%s" % ("" if extra[0][1] else "not ", extra[0][0][:70]) if extra else "?"), witness="multi-file load; a user-class __init__ raises for an object of an imported file while further objects of that file are pending"))
    return inst, out

def r_C15i(root):
    """C15.i  decided by evaluating _release_user_obj_attrs (sa/pyeval.py): with records {1, 2, 9} on a user class and the
       ids [1, 2] recorded by this parser (object 1 finished, object 2 still open), the call removes exactly 1 and 2 — it
       leaves the records of other loads (9) alone and does not depend on an object being finished — and forgets the ids."""
    import ast
    from sa import pyeval
    M = "textx/model.py"; out = []; inst = 1
    fn = find_i(root, M, "get_model_parser.TextXModelParser._release_user_obj_attrs")
    cls_a = {"._tx_obj_attrs": {1: {"a": 1}, 2: {"a": 2}, 9: {"a": 9}}, ".__name__": "A"}
    cls_b = {"._tx_obj_attrs": {}, ".__name__": "B"}
    finished = {".__class__": cls_a, ".name": "o1"}
    env = {"self.metamodel.user_classes": {"A": cls_a, "B": cls_b}, "self._user_obj_ids": [1, 2], "self._user_class_inst": [finished], "self": {"._user_obj_ids": [1, 2], "._user_class_inst": [finished], ".metamodel": {".user_classes": {"A": cls_a, "B": cls_b}}}}
    try: pyeval.run_block(fn.body, env)
    except pyeval.Unsupported as e: raise AnalysisError("_release_user_obj_attrs: outside the evaluated subset: %s" % e)
    except pyeval.Raised as e:
        out.append(Finding("C15", "C15.i", M, "TextXModelParser._release_user_obj_attrs", "release raises %s" % e.cls, "releasing the per-object records raises")); return inst, out
    left = sorted(cls_a["._tx_obj_attrs"])
    ok = left == [9]
    for pr in ("C15", "C18", "C14"): ob(pr, "C15.i", M, "TextXModelParser._release_user_obj_attrs", "records {1, 2, 9}, recorded ids [1, 2] -> records left %s" % left, ok)
    if not ok:
        why = "records of objects that were still being built (%s) stay in user_class._tx_obj_attrs: they hold `parent`, so the partial model stays reachable" % [x for x in left if x != 9] if any(x != 9 for x in left) else "the records of another load of the same metamodel (9) are dropped as well: the importing models lose their collected attributes and markers"
        for pr in ("C15", "C18", "C14"): out.append(Finding(pr, "C15.i", M, "TextXModelParser._release_user_obj_attrs", "records left: %s" % left, "a failed parser must release exactly the records of the objects it created; " + why, witness="user classes; a load that fails while a user object is half built / while an imported file is parsed"))
    # a parser that failed before it created any user object (syntax error in the first line): nothing to release, no error
    inst += 1
    bare = {".kind": "parser", ".metamodel": {".user_classes": {"A": cls_a, "B": cls_b}}, ".__complete__": "all"}
    before = sorted(cls_a["._tx_obj_attrs"])
    try: pyeval.run_block(fn.body, {"self": bare}); err2 = None
    except pyeval.Unsupported as e: raise AnalysisError("_release_user_obj_attrs: outside the evaluated subset: %s" % e)
    except pyeval.Raised as e: err2 = e.cls
    ok2 = err2 is None and sorted(cls_a["._tx_obj_attrs"]) == before
    for pr in ("C15", "C28", "C14"): ob(pr, "C15.i", M, "TextXModelParser._release_user_obj_attrs", "a parser that never recorded an object id: nothing happens", ok2)
    if not ok2:
        for pr in ("C15", "C28", "C14"): out.append(Finding(pr, "C15.i", M, "TextXModelParser._release_user_obj_attrs", "parser without _user_obj_ids", "releasing the records of a parser that failed before it created any user object (it has no list of object ids yet) %s; documented: nothing to release, no error - the clean-up runs in the failure handler, an exception raised there replaces the located syntax error the user should see" % ("raises %s" % err2 if err2 else "changes the records of another load"), witness="user classes; a model with a syntax error in its first token"))
    return inst, out

def r_C14inst(root):
    """C14.c / C14.j  the attribute-method instrumentation of user classes as a typestate, decided by evaluation
    (sa/pyeval.py with sample classes that distinguish own from inherited attributes; nothing of textX runs).
    _replace_user_attr_methods / _restore_user_attr_methods of two parser objects that share the user classes
    U (defines its own __setattr__) and V (a Python subclass of U without dunder methods of its own) are interpreted in
    these orders; after each, the classes' own attributes are compared with the initial ones / with 'instrumented':
        replace(p1) restore(p1)                                        -> as before              (C14.c)
        replace(p1) replace(p2) restore(p2)                            -> still instrumented     (C14.j, nested load ends)
        ... restore(p1)                                                -> as before
        replace(p1) replace(p2) restore(p2) restore(p2) | restore(p1)  -> still instrumented | as before   (repeated restore)
        replace(p1) restore(p3 that never replaced)       | restore(p1)-> still instrumented | as before"""
    from sa import pyeval
    out = []; inst = 0
    t = load(root, M)
    Q = "get_model_parser.TextXModelParser."
    rep_fn = find(t, Q + "_replace_user_attr_methods"); res_fn = find(t, Q + "_restore_user_attr_methods")
    fns = {k: v for k, v in helper_functions(root, M, Q + "_replace_user_attr_methods").items() if k.startswith("_") and not k.startswith("__")}
    def fresh():
        def own_setattr(*a):
            # U's own __setattr__(self, name, value), reached through the class: called with (name, value) only it is a TypeError, as in Python
            if len(a) != 3: raise pyeval.Raised("TypeError", "missing 1 required positional argument")
            a[0].own[a[1]] = a[2]
        U = pyeval.ClassObj("U", {"__setattr__": pyeval.PyFn(own_setattr), "_tx_obj_attrs": {}, "_tx_fqn": "ns.U"})
        V = pyeval.ClassObj("V", {"_tx_obj_attrs": {}, "_tx_fqn": "ns.V"}, bases=[U])
        mm = {".kind": "metamodel", ".user_classes": {"U": U, "V": V}}
        return U, V, mm
    def snapshot(*cs): return [dict(c.own) for c in cs]
    def call(fn, self_):
        def super_(c, o):
            def ga(n):
                if n in o.own: return o.own[n]
                f_, v_ = o.cls.lookup(n)
                if f_: return v_
                raise pyeval.Raised("AttributeError")
            def da(n):
                if n not in o.own: raise pyeval.Raised("AttributeError")
                del o.own[n]
            return {".__getattribute__": pyeval.PyFn(ga), ".__setattr__": pyeval.PyFn(lambda n, v: o.own.__setitem__(n, v)), ".__delattr__": pyeval.PyFn(da)}
        env = {"__functions__": fns, fn.args.args[0].arg: self_, "super": pyeval.PyFn(super_)}
        try: pyeval.run_block(fn.body, env); return None
        except pyeval.Raised as r_: return "raises " + r_.cls
        except pyeval.Unsupported as u_: raise AnalysisError("%s: outside the evaluated subset: %s" % (fn.name, u_))
    def instrumented(c, init):
        # the class's __setattr__ differs from its initial own value (a replacement is installed)
        return c.own.get("__setattr__") is not None and c.own.get("__setattr__") != init.get("__setattr__")
    def describe(cs, inits):
        parts = []
        for c, i0 in zip(cs, inits):
            extra = sorted(set(c.own) - set(i0)); missing = sorted(set(i0) - set(c.own)); changed = sorted(k for k in set(c.own) & set(i0) if c.own[k] is not i0[k] and c.own[k] != i0[k])
            if extra or missing or changed: parts.append("%s: %s" % (c.name, "; ".join(x for x in ("left over %s" % extra if extra else "", "lost %s" % missing if missing else "", "changed %s" % changed if changed else "") if x)))
        return ", ".join(parts) or "as before"
    W = "TextXModelParser._replace_user_attr_methods / _restore_user_attr_methods"
    def rep(ok, clause, what, msg):
        nonlocal inst
        inst += 1; ob("C14", clause, M, W, what, ok)
        if not ok: out.append(Finding("C14", clause, M, W, what, msg))
    def parser(mm): return {".kind": "parser", ".metamodel": mm}
    # 1. replace ; restore
    U, V, mm = fresh(); i0 = snapshot(U, V); p1 = parser(mm)
    e1 = call(rep_fn, p1); mid_ok = instrumented(U, i0[0]) and instrumented(V, i0[1])
    rep(e1 is None and mid_ok, "C14.c", "replace installs the collecting attribute methods on every user class", "after _replace_user_attr_methods %s" % (e1 or "a user class (or a subclass of one that has no dunder methods of its own) is not instrumented"))
    e2 = call(res_fn, p1)
    rep(e2 is None and snapshot(U, V) == i0, "C14.c", "replace followed by restore leaves every user class as it was", "after replace and restore the user classes are not as before (%s%s): a dunder method or a _tx_* helper attribute stays on the class or the class's own method is lost" % (describe((U, V), i0), "; " + e2 if e2 else ""))
    # 2. nested
    U, V, mm = fresh(); i0 = snapshot(U, V); p1, p2 = parser(mm), parser(mm)
    errs = [call(rep_fn, p1), call(rep_fn, p2), call(res_fn, p2)]
    rep(not any(errs) and instrumented(U, i0[0]) and instrumented(V, i0[1]), "C14.j", "a nested load that ends leaves the classes instrumented for the outer load", "replace(p1) replace(p2) restore(p2): the user classes are %s while the outer load p1 is still collecting attributes%s: objects created afterwards lose their attributes / __init__ receives None" % (describe((U, V), i0), "".join("; " + e for e in errs if e)))
    e3 = call(res_fn, p1)
    rep(e3 is None and snapshot(U, V) == i0, "C14.j", "the outermost restore leaves every user class as it was", "after the outermost restore of a nested load the user classes are not as before (%s%s)" % (describe((U, V), i0), "; " + e3 if e3 else ""))
    # 3. repeated restore of the inner parser
    U, V, mm = fresh(); i0 = snapshot(U, V); p1, p2 = parser(mm), parser(mm)
    errs = [call(rep_fn, p1), call(rep_fn, p2), call(res_fn, p2), call(res_fn, p2)]
    rep(not any(errs) and instrumented(U, i0[0]) and instrumented(V, i0[1]), "C14.j", "a repeated restore of the same parser is a no-op", "replace(p1) replace(p2) restore(p2) restore(p2): the second restore of p2 counts again and the user classes are %s while p1 is still loading%s" % (describe((U, V), i0), "".join("; " + e for e in errs if e)))
    e3 = call(res_fn, p1)
    rep(e3 is None and snapshot(U, V) == i0, "C14.j", "... and the outer restore still leaves the classes as they were", "after restore(p1) the user classes are not as before (%s%s)" % (describe((U, V), i0), "; " + e3 if e3 else ""))
    # 5. what the installed methods do while a model is loading
    U, V, mm = fresh(); i0 = snapshot(U, V); p1 = parser(mm)
    e1 = call(rep_fn, p1)
    ga, sa, da = U.own.get("__getattribute__"), U.own.get("__setattr__"), U.own.get("__delattr__")
    if e1 is None and all(callable(x) for x in (ga, sa, da)):
        U.own["parent"] = None                      # a class-level default of the user's class (parent: ... = None)
        # the meta-model (re)binds the per-object storage of a class when it initialises the class: the installed methods must read the class's current storage
        U.own["_tx_obj_attrs"] = {}
        o = pyeval.InstObj(U); col = {"name": "n1", "kids": ["k"], "parent": "the container"}; U.own["_tx_obj_attrs"][id(o)] = col
        o2 = pyeval.InstObj(U); o2.own["real"] = "r"               # an object of the class that is not being loaded (created by the user meanwhile)
        def tryc(f, *a):
            try: return ("ret", f(*a))
            except pyeval.Raised as r_: return ("raise", r_.cls)
            except pyeval.Unsupported as u_: raise AnalysisError("instrumented attribute methods: outside the evaluated subset: %s" % u_)
        r1 = tryc(ga, o, "name"); r2 = tryc(ga, o, "__dict__"); r3 = tryc(sa, o, "extra", 5); st3 = col.get("extra"); r4 = tryc(da, o, "extra"); st4 = "extra" in col
        r5 = tryc(ga, o2, "real"); r6 = tryc(sa, o2, "more", 1); r7 = tryc(ga, o, "missing"); r8 = tryc(ga, o, "parent"); r9 = tryc(ga, o2, "parent")
        okm = r8 == ("ret", "the container") and r9 == ("ret", None) and r1 == ("ret", "n1") and r2[0] == "ret" and r2[1] is col and r3[0] == "ret" and st3 == 5 and r4[0] == "ret" and not st4 and "extra" not in o.own and r5 == ("ret", "r") and r6[0] == "ret" and o2.own.get("more") == 1 and r7[0] == "raise"
        rp1 = tryc(sa, o, "_tx_position", 0); rp2 = tryc(sa, o, "_tx_position_end", 17); rp3 = tryc(ga, o, "_tx_position")
        okpos = rp1[0] == "ret" and rp2[0] == "ret" and col.get("_tx_position") == 0 and col.get("_tx_position_end") == 17 and "_tx_position" not in o.own and "_tx_position_end" not in o.own and rp3 == ("ret", 0)
        for pr_ in ("C14", "C34", "C06"):
            inst += 1; ob(pr_, "C14.p", M, W, "the span of an object under construction is collected like every other attribute", okpos)
            if not okpos: out.append(Finding(pr_, "C14.p", M, W, "_tx_position / _tx_position_end through the installed __setattr__", "while a model is loading, setting _tx_position=0 and _tx_position_end=17 on an object of a user class %s, the collected attributes hold %r / %r and the object itself %s; documented: every attribute set during construction - the span too - is collected for the object (a user class with __slots__ or a __setattr__ of its own cannot hold it before its constructor has run) and read back from there" % ("completes" if rp1[0] == rp2[0] == "ret" else "raises", col.get("_tx_position"), col.get("_tx_position_end"), "has them in its own __dict__" if "_tx_position" in o.own else "does not have them")))
        rep(okm, "C14.p", "the installed attribute methods read, list, write and delete the attributes collected for an object under construction",
            "while a model is loading (the class's storage re-bound after the methods were installed; the class has a class-level default parent=None), for an object with the collected attributes {name, kids, parent}: reading parent gives %s, name gives %s, __dict__ gives %s, setting / deleting an attribute %s; an object of the class that is not under construction reads %s, and a missing attribute %s; documented: reads and __dict__ answer from the collected attributes (scope providers enumerate obj.__dict__), writes and deletes go to the collected attributes, other objects behave normally, a missing attribute is an AttributeError; a collected attribute wins over a class-level default of the same name" % (r8, r1, "the collected attributes" if r2[0] == "ret" and r2[1] is col else r2, "is stored / removed there" if st3 == 5 and not st4 else "is not reflected in the collected attributes", r5, "raises " + r7[1] if r7[0] == "raise" else "gives %r" % (r7[1],)))
    else: rep(False, "C14.p", "attribute methods installed", "after _replace_user_attr_methods the user class has no callable __getattribute__ / __setattr__ / __delattr__ of the loader (%s)" % (e1 or "missing"))
    call(res_fn, p1)
    # 4. restore of a parser that never replaced
    U, V, mm = fresh(); i0 = snapshot(U, V); p1, p3 = parser(mm), parser(mm)
    errs = [call(rep_fn, p1), call(res_fn, p3)]
    rep(not any(errs) and instrumented(U, i0[0]) and instrumented(V, i0[1]), "C14.j", "restore of a parser that did not replace is a no-op", "replace(p1) restore(p3), p3 never replaced (its load failed while parsing): the user classes are %s while p1 is still loading%s" % (describe((U, V), i0), "".join("; " + e for e in errs if e)))
    e3 = call(res_fn, p1)
    rep(e3 is None and snapshot(U, V) == i0, "C14.j", "... and the restore of the replacing parser leaves the classes as they were", "after restore(p1) the user classes are not as before (%s%s)" % (describe((U, V), i0), "; " + e3 if e3 else ""))
    return inst, out

def r_endconstruction(root):
    """C14.q  the end of a model's construction, decided by evaluation of _end_model_construction with sample user classes
    (own and inherited constructors) and a recording parser:
       the user-class instrumentation is restored first; then every user object, in creation order, gets the attributes
       collected for it set on itself, its entry leaves the class's storage, and its constructor - its own or an inherited
       one - is called exactly once with exactly the attributes of its rule plus parent (collected extras such as
       _tx_position are set but not passed); a constructor that raises TypeError propagates as TypeError naming the class,
       the ids recorded for release are still there and the objects not yet initialised keep their collected attributes"""
    from sa import pyeval
    from sa.exprs import HS
    out = []; inst = 0
    t = load(root, M); fn = find(t, "_end_model_construction")
    fns = {k: v for k, v in helper_functions(root, M, "_end_model_construction").items() if k != "_end_model_construction"}
    def scenario(failing=None):
        ev = []
        def init(tag):
            def f(self_, **kw):
                ev.append(("init", self_.own.get("tag"), tag, dict(kw)))
                if failing == self_.own.get("tag"):
                    r_ = pyeval.Raised("TypeError"); r_.value = {".cls": "TypeError", ".args": ("unexpected keyword",)}; raise r_
            return pyeval.Method(f)
        Base = pyeval.ClassObj("PlainBase", {"__init__": init("inherited constructor"), "__name__": "PlainBase"})
        attrs = {"name": HS({".name": "name"}), "kids": HS({".name": "kids"}), "count": HS({".name": "count"}), "label": HS({".name": "label"}), "flag": HS({".name": "flag"})}
        U1 = pyeval.ClassObj("U1", {"__init__": init("own constructor"), "_tx_attrs": dict(attrs), "_tx_obj_attrs": {}, "__name__": "U1"})
        U2 = pyeval.ClassObj("U2", {"_tx_attrs": dict(attrs), "_tx_obj_attrs": {}, "__name__": "U2"}, bases=[Base])
        objs = [pyeval.InstObj(U1, {"tag": "o1"}), pyeval.InstObj(U2, {"tag": "o2"}), pyeval.InstObj(U1, {"tag": "o3"})]
        parent = HS({".kind": "obj", ".name": "container"})
        for i, o in enumerate(objs): o.cls.own["_tx_obj_attrs"][id(o)] = {"name": "n%d" % i, "kids": [i] if i else [], "count": 0, "label": "", "flag": False, "parent": parent, "_tx_position": 10 * i, "_tx_position_end": 10 * i + 5}      # collected values may be falsy: 0, '', False, an empty list, position 0
        parser = HS({".kind": "parser", "._user_class_inst": list(objs), "._user_obj_ids": [id(o) for o in objs], ".dprint": pyeval.PyFn(lambda *a: None), ".debug": False,
                     "._restore_user_attr_methods": pyeval.PyFn(lambda: ev.append(("restore",)))})
        model = pyeval.InstObj(pyeval.ClassObj("Model", {"__name__": "Model"}), {"_tx_reference_resolver": "the resolver", "_tx_parser": parser})
        env = {"__functions__": fns, "__module__": t, fn.args.args[0].arg: model, "traceback": {".print_exc": pyeval.PyFn(lambda *a: None), ".format_exc": pyeval.PyFn(lambda *a: "")}, "__maxdepth__": 12}
        try: k, v = "ret", pyeval.run_block(fn.body, env, max_steps=4000)
        except pyeval.Raised as r_: k, v = "raise", r_
        except pyeval.Unsupported as u_: raise AnalysisError("_end_model_construction: outside the evaluated subset: %s" % u_)
        return k, v, ev, objs, (U1, U2), parser, model, parent
    W = "_end_model_construction"
    def rep(what, ok, msg):
        nonlocal inst
        inst += 1; ob("C14", "C14.q", M, W, what, ok)
        if not ok: out.append(Finding("C14", "C14.q", M, W, what, msg))
    k, v, ev, objs, (U1, U2), parser, model, parent = scenario()
    inits = [e for e in ev if e[0] == "init"]
    fz = {"count": 0, "label": "", "flag": False}
    want = [("init", "o1", "own constructor", dict(fz, name="n0", kids=[], parent=parent)), ("init", "o2", "inherited constructor", dict(fz, name="n1", kids=[1], parent=parent)), ("init", "o3", "own constructor", dict(fz, name="n2", kids=[2], parent=parent))]
    rep("every user object is initialised once, in creation order, with the attributes of its rule and parent", k == "ret" and inits == want and ev[:1] == [("restore",)],
        "ending the construction of a model with three user objects (o1: own constructor, o2: constructor inherited from a plain Python base class, o3) %s with the steps %s; documented: the instrumentation is restored, then o1, o2, o3 are each initialised exactly once with name, kids and parent (collected extras such as _tx_position are not constructor arguments)" % ("returns" if k == "ret" else "raises " + v.cls, [(e[0],) + tuple(e[1:3]) + (sorted(e[3]),) if e[0] == "init" else e for e in ev]))
    if k == "ret":
        rep("the collected attributes are set on the object and leave the class's storage", all(o.own.get("name") == "n%d" % i and o.own.get("_tx_position") == 10 * i and o.own.get("parent") is parent and o.own.get("count", None) == 0 and o.own.get("label", None) == "" and o.own.get("flag", None) is False and o.own.get("kids", None) == ([i] if i else []) for i, o in enumerate(objs)) and not U1.own["_tx_obj_attrs"] and not U2.own["_tx_obj_attrs"] and "_tx_reference_resolver" not in model.own,
            "after the end of the construction the objects carry %s, the classes' storages hold %d / %d entries and the construction mark is %s; documented: every collected attribute (also _tx_position) is set on its object, the storages are empty, the mark is gone" % ([sorted(k_ for k_ in o.own if k_ != "tag") for o in objs], len(U1.own["_tx_obj_attrs"]), len(U2.own["_tx_obj_attrs"]), "still there" if "_tx_reference_resolver" in model.own else "gone"))
    k, v, ev, objs, (U1, U2), parser, model, parent = scenario(failing="o2")
    okf = k == "raise" and v.cls == "TypeError" and [e[1] for e in ev if e[0] == "init"] == ["o1", "o2"] and parser["._user_obj_ids"] == [id(o) for o in objs] and id(objs[2]) in U1.own["_tx_obj_attrs"]
    args_ = v.value.get(".args") if k == "raise" and isinstance(getattr(v, "value", None), dict) else None
    rep("a constructor that rejects its arguments", okf and isinstance(args_, tuple) and any("U2" in str(a) for a in args_),
        "when the constructor of the second user object raises TypeError the end of the construction %s (arguments %s), constructors run for %s, the ids recorded for release are %s and the third object's collected attributes are %s; documented: TypeError naming the class U2 propagates, o3 is not initialised, the recorded ids and the collected attributes of o3 are still there for the failure clean-up to release" % ("raises " + v.cls if k == "raise" else "returns", args_, [e[1] for e in ev if e[0] == "init"], "kept" if parser["._user_obj_ids"] == [id(o) for o in objs] else "forgotten (%d of 3)" % len(parser["._user_obj_ids"]), "kept" if id(objs[2]) in U1.own["_tx_obj_attrs"] else "gone"))
    return inst, out
