"""C26.g / C30.f  registry functions decided by abstract evaluation (sa/pyeval.py; nothing of textX runs; fnmatch is the
   standard library's own, a trusted base) on a sample registry:
     languages_for_file    a language handles a name if the name equals its pattern or matches it (so the pattern text itself,
                           which may contain character classes, finds its language);
     generator_description the generator of (language, target); with any_permitted, the generator registered for 'any' is the
                           fallback whenever the language has none for that target (also when it has others); without
                           any_permitted / without either, TextXRegistrationError;
     clear_generator_registrations  afterwards the registry is unset (None), so the next use re-discovers the entry points and
                           nothing registered at run time survives."""
import ast, fnmatch
from sa.util import *
from sa import pyeval
RG = "textx/registration.py"
def r_C26eval(root):
    out = []; inst = 0
    t = load(root, RG)
    fns = {f.name: f for f in t.body if isinstance(f, ast.FunctionDef)}
    def run(name, env):
        fn = find_i(root, RG, name)
        e = {"__functions__": {k: v for k, v in fns.items() if k.startswith("_")}}
        e.update(env)
        try: return ("ret", pyeval.run_block(fn.body, e), e)
        except pyeval.Raised as r: return ("raise", r.cls, e)
        except pyeval.Unsupported as u: raise AnalysisError("%s: outside the evaluated subset: %s" % (name, u))
    # ---- languages_for_file
    la = {".name": "a", ".pattern": "*.c26[ab]"}; lb = {".name": "b", ".pattern": "*.other"}
    reg = {"a": la, "b": lb}
    p0 = fns["languages_for_file"].args.args[0].arg
    lc = {".name": "c", ".pattern": "*/flows/*.txt"}; reg["c"] = lc          # a pattern with a directory part
    import os as _os
    os_ = {".path": {".basename": pyeval.PyFn(_os.path.basename), ".dirname": pyeval.PyFn(_os.path.dirname), ".splitext": pyeval.PyFn(_os.path.splitext), ".join": pyeval.PyFn(_os.path.join), ".normpath": pyeval.PyFn(_os.path.normpath)}, ".sep": "/"}
    for q, want in (("x.c26a", ["a"]), ("*.c26[ab]", ["a"]), ("y.other", ["b"]), ("*.other", ["b"]), ("z.none", []), ("proj/flows/main.txt", ["c"]), ("dir/x.c26b", ["a"]), ("main.txt", [])):
        inst += 1
        k, v, _e = run("languages_for_file", {p0: q, "os": os_, "language_descriptions": pyeval.PyFn(lambda: reg), "fnmatch.fnmatch": pyeval.PyFn(fnmatch.fnmatch), "fnmatch": {".fnmatch": pyeval.PyFn(fnmatch.fnmatch)}, "TYPE_CHECKING": False})
        got = sorted(x[".name"] for x in v) if k == "ret" and isinstance(v, list) else "%s %s" % (k, v)
        ok = got == want
        ob("C26", "C26.g", RG, "languages_for_file", "%r -> %s" % (q, got), ok)
        if not ok: out.append(Finding("C26", "C26.g", RG, "languages_for_file", "lookup of %r" % q, "languages found for %r: %s, documented %s (a language handles a name that equals its pattern or matches it)" % (q, got, want), witness="register a language with pattern %s and ask for that pattern" % la[".pattern"]))
    # ---- generator_description
    gd = fns["generator_description"]; ps = [a.arg for a in gd.args.args]
    G1, G2, G3 = {".t": "lang/t1"}, {".t": "any/t2"}, {".t": "any/t1"}
    for (lang, target, anyp), want in ((("lang", "t1", False), "lang/t1"), (("lang", "t1", True), "lang/t1"), (("LANG", "T1", False), "lang/t1"), (("lang", "t2", True), "any/t2"), (("lang", "t2", False), "raise TextXRegistrationError"),
                                       (("nolang", "t2", True), "any/t2"), (("nolang", "t2", False), "raise TextXRegistrationError"), (("nolang", "t9", True), "raise TextXRegistrationError")):
        inst += 1
        GENS_ = {"lang": {"t1": G1}, "any": {"t2": G2, "t1": G3}}
        env = {ps[0]: lang, ps[1]: target, "generators": GENS_, "generator_descriptions": pyeval.PyFn(lambda: GENS_)}          # generator_descriptions() makes sure the registry is loaded and returns it
        if len(ps) > 2: env[ps[2]] = anyp
        k, v, _e = run("generator_description", env)
        got = v[".t"] if k == "ret" and isinstance(v, dict) else "%s %s" % (k, v)
        ok = got == want
        for pr in ("C26", "C30"): ob(pr, "C26.g", RG, "generator_description", "(%s, %s, any_permitted=%s) -> %s" % (lang, target, anyp, got), ok)
        if not ok:
            for pr in ("C26", "C30"): out.append(Finding(pr, "C26.g", RG, "generator_description", "(%r, %r, any_permitted=%s)" % (lang, target, anyp), "generator lookup yields %s, documented %s (the language's own generator for the target, else with any_permitted the one registered for 'any', else TextXRegistrationError)" % (got, want), witness="a language with a generator for another target; the requested target registered only for 'any'"))
    # ---- generator_for_language_target: the callable of the very description generator_description finds (same normalisation, same fallback)
    if "generator_for_language_target" in fns:
        gf = fns["generator_for_language_target"]; gps = [a.arg for a in gf.args.args]
        def gen_(tag): return {".t": tag, ".generator": ("callable of", tag)}
        GEN = {"lang": {"t1": gen_("lang/t1")}, "any": {"t2": gen_("any/t2"), "t1": gen_("any/t1")}}
        for (lang, target, anyp), want in ((("lang", "t1", True), "lang/t1"), (("Lang", "T1", True), "lang/t1"), (("LANG", "t1", False), "lang/t1"), (("lang", "t2", True), "any/t2"), (("nolang", "t1", True), "any/t1"), (("nolang", "t1", False), "raise TextXRegistrationError")):
            inst += 1
            e0 = {"__functions__": dict(fns), "generators": GEN, "generator_descriptions": pyeval.PyFn(lambda: GEN), "__module__": t, gps[0]: lang, gps[1]: target}
            if len(gps) > 2: e0[gps[2]] = anyp
            e0["__functions__"].pop("generator_for_language_target", None)
            try: k, v = "ret", pyeval.run_block(gf.body, e0)
            except pyeval.Raised as r_: k, v = "raise", r_.cls
            except pyeval.Unsupported as u_: raise AnalysisError("generator_for_language_target: outside the evaluated subset: %s" % u_)
            got = v[1] if k == "ret" and isinstance(v, tuple) and len(v) == 2 else "%s %s" % (k, v)
            ok = got == want
            for pr in ("C26", "C30"): ob(pr, "C26.g", RG, "generator_for_language_target", "(%s, %s, any_permitted=%s) -> %s" % (lang, target, anyp, got), ok)
            if not ok:
                for pr in ("C26", "C30"): out.append(Finding(pr, "C26.g", RG, "generator_for_language_target", "(%r, %r, any_permitted=%s)" % (lang, target, anyp), "the generator callable found is %s, documented %s (names are case-insensitive; the language's own generator wins over the one registered for any language)" % (got, want)))
    # ---- clear_generator_registrations
    inst += 1
    k, v, e = run("clear_generator_registrations", {"generators": {"lang": {"t1": {".project_name": "p"}}, "any": {"t2": {".project_name": None}}}})
    ok = k == "ret" and e.get("generators") is None
    ob("C26", "C26.g", RG, "clear_generator_registrations", "registry unset after clear", ok)
    if not ok: out.append(Finding("C26", "C26.g", RG, "clear_generator_registrations", "generators after clear: %s" % (sorted(e.get("generators")) if isinstance(e.get("generators"), dict) else e.get("generators")), "after clear_generator_registrations the registry still holds entries: generators registered at run time survive the clear and a re-registration is refused as duplicate", witness="register_generator_with_project(...), clear, register again"))
    return inst, out

def r_C26state(root):
    """C26.h  the registry module as a state machine, decided by evaluation (sa/pyeval.py): every function of
    textx/registration.py is interpreted over ONE shared module state (languages / generators / metamodels and whatever
    other module-level variables the file has), with stand-ins for the entry-point scan, the descriptor classes and the
    meta-model factory.  Sequences of API calls are run and the documented outcome is compared:
       names are case-insensitive everywhere; duplicates are refused; entry points are discovered lazily and again after a
       clear; a clear forgets every programmatic registration (and the cached meta-models); a meta-model is built once and
       cached, built again whenever keyword arguments are given (whatever their values), an instance is used as it is;
       file lookup: exactly one matching language, else TextXRegistrationError."""
    out = []; inst = 0
    t = load(root, RG)
    fns = {f.name: f for f in t.body if isinstance(f, ast.FunctionDef)}
    need = ("register_language", "language_description", "clear_language_registrations", "register_generator", "generator_description", "clear_generator_registrations", "metamodel_for_language", "language_for_file", "metamodel_for_file")
    miss = [n for n in need if n not in fns]
    if miss: raise AnalysisError("registration.py: API functions %s not found" % miss)
    def LD(name=None, pattern=None, description="", metamodel=None): return {".kind": "langdesc", ".name": name, ".pattern": pattern, ".description": description, ".metamodel": metamodel, ".project_name": None, ".project_version": None}
    def GD(language=None, target=None, description="", generator=None, custom_args=None): return {".kind": "gendesc", ".language": language, ".target": target, ".description": description, ".generator": generator, ".custom_args": custom_args, ".project_name": None, ".project_version": None}
    class World:
        def __init__(w):
            w.scans = []; w.built = []
            w.ep_lang = LD("EntryLang", "*.el", metamodel=w.factory("EntryLang"))
            w.ep_gens = [GD("any", "dot", generator="any-dot"), GD("EntryLang", "T", generator="entry-t")]
            w.G = {}
            for st in t.body:            # every module-level variable of the file, as the file initialises it
                if isinstance(st, (ast.Assign, ast.AnnAssign)) and st.value is not None:
                    for tg in (st.targets if isinstance(st, ast.Assign) else [st.target]):
                        if isinstance(tg, ast.Name):
                            try: w.G[tg.id] = pyeval.evaluate(st.value, {})
                            except (pyeval.Unsupported, pyeval.Raised): pass
            for g_ in ("languages", "generators", "metamodels"):
                if g_ not in w.G: raise AnalysisError("registration.py: module-level registry %r not found" % g_)
        def factory(w, tag):
            def make(**kw):
                mm = {".kind": "mm", ".tag": tag, ".kw": dict(kw), ".n": len(w.built)}; w.built.append(mm); return mm
            return pyeval.PyFn(make)
        def entry_points(w, group=None, **kw):
            w.scans.append(group)
            mk = lambda d: {".load": pyeval.PyFn(lambda d=d: d), ".dist": {".name": "proj", ".version": "1.0"}, ".name": "ep"}
            return [mk(w.ep_lang)] if group == "textx_languages" else ([mk(g) for g in w.ep_gens] if group == "textx_generators" else [])
        def call(w, name, *args, **kw):
            fn = fns[name]; ps = [a.arg for a in fn.args.args]
            env = {"__functions__": fns, "__globals__": w.G, "__global_names__": set(), "__module__": None,
                   "entry_points": pyeval.PyFn(w.entry_points), "TextXMetaModel": pyeval.ClassRef("TextXMetaModel"), "TextXMetaMetaModel": pyeval.ClassRef("TextXMetaMetaModel"), "LanguageDesc": pyeval.PyFn(LD), "GeneratorDesc": pyeval.PyFn(GD), "TYPE_CHECKING": False,
                   "fnmatch": {".fnmatch": pyeval.PyFn(fnmatch.fnmatch)}, "fnmatch.fnmatch": pyeval.PyFn(fnmatch.fnmatch),
                   "__classes__": {"LanguageDesc": lambda v: isinstance(v, dict) and v.get(".kind") == "langdesc", "GeneratorDesc": lambda v: isinstance(v, dict) and v.get(".kind") == "gendesc",
                                   "TextXMetaModel": lambda v: isinstance(v, dict) and v.get(".kind") == "mm", "TextXMetaMetaModel": lambda v: False}}
            defaults = dict(zip(ps[len(ps) - len(fn.args.defaults):], fn.args.defaults))
            for k_, d_ in defaults.items(): env[k_] = pyeval.evaluate(d_, {})
            for p_, a_ in zip(ps, args): env[p_] = a_
            extra = {}
            for k_, v_ in kw.items():
                if k_ in ps: env[k_] = v_
                else: extra[k_] = v_
            if fn.args.kwarg: env[fn.args.kwarg.arg] = extra
            elif extra: raise AnalysisError("%s does not take %s" % (name, sorted(extra)))
            try: return ("ret", pyeval.run_block(fn.body, env))
            except pyeval.Raised as r_: return ("raise", r_.cls)
            except pyeval.Unsupported as u_: raise AnalysisError("%s: outside the evaluated subset: %s" % (name, u_))
    def rep(ok, fn_, what, msg, props_=("C26",), witness=""):
        nonlocal inst
        inst += 1
        for pr in props_:
            ob(pr, "C26.h", RG, fn_, what, ok)
            if not ok: out.append(Finding(pr, "C26.h", RG, fn_, what, msg, witness=witness))
    def is_err(r): return r[0] == "raise" and r[1] == "TextXRegistrationError"
    def show(r): return "raises %s" % r[1] if r[0] == "raise" else ("returns %s" % (r[1].get(".name", r[1].get(".tag", r[1].get(".generator"))) if isinstance(r[1], dict) else r[1],))
    # ---- languages: lazy discovery, case-insensitive names, duplicates, clear
    w = World()
    r = w.call("language_description", "entrylang")
    rep(r[0] == "ret" and r[1] is w.ep_lang and w.ep_lang[".project_name"] == "proj" and w.scans.count("textx_languages") == 1, "language_description", "first use discovers the entry points", "the first lookup of a language provided by an entry point %s (scans of the entry-point group: %d, project name recorded: %r)" % (show(r), w.scans.count("textx_languages"), w.ep_lang[".project_name"]))
    mine = LD("MyLang", "*.ml", metamodel=w.factory("MyLang"))
    r0 = w.call("register_language", mine)
    looks = [(q, w.call("language_description", q)) for q in ("mylang", "MYLANG", "MyLang")]
    bad = [(q, r_) for q, r_ in looks if not (r_[0] == "ret" and r_[1] is mine)]
    rep(r0[0] == "ret" and not bad, "register_language / language_description", "a registered language is found under any spelling of its name", "after registering the language 'MyLang' the lookup of %r %s: names are case-insensitive, registration and every lookup must normalise them the same way" % (bad[0][0] if bad else "MyLang", show(bad[0][1]) if bad else show(r0)), props_=("C26", "C30"), witness="register_language('MyLang', ...); language_description('mylang')")
    sharp = LD("Ma\u00dfe\u03a3", "*.mas", metamodel=w.factory("sharp")); rs = w.call("register_language", sharp); ls = w.call("language_description", "Ma\u00dfe\u03a3")
    rep(rs[0] == "ret" and ls[0] == "ret" and ls[1] is sharp, "register_language / language_description", "a language with a non-ASCII name is found under exactly that name", "after registering a language named 'Ma\u00dfe\u03a3' the lookup of the very same name %s: registration and lookup normalise names differently" % show(ls if rs[0] == "ret" else rs))
    r = w.call("register_language", "MYLANG", "*.zz")
    rep(is_err(r), "register_language", "a second registration of the same name (other spelling) is refused", "registering 'MYLANG' after 'MyLang' %s; documented TextXRegistrationError (one language per case-insensitive name)" % show(r))
    r = w.call("language_for_file", "x.ml")
    rep(r[0] == "ret" and r[1] is mine, "language_for_file", "one matching language", "language_for_file('x.ml') with exactly one language for '*.ml' %s" % show(r))
    w.call("register_language", LD("Other", "*.ml", metamodel=w.factory("Other")))
    r = w.call("language_for_file", "x.ml"); r2 = w.call("language_for_file", "x.none")
    rep(is_err(r) and is_err(r2), "language_for_file", "no or several matching languages are an error", "language_for_file with two matching languages %s, with none %s; both documented TextXRegistrationError" % (show(r), show(r2)))
    # a language whose pattern has a directory part: the whole path given takes part in the match
    w2 = World(); flows = LD("Flows", "*/flows/*.txt", metamodel=w2.factory("Flows")); w2.call("register_language", flows)
    r = w2.call("language_for_file", "proj/flows/main.txt"); r2 = w2.call("language_for_file", "proj/other/main.txt"); r3 = w2.call("language_for_file", "*/flows/*.txt")
    rep(r[0] == "ret" and r[1] is flows and is_err(r2) and r3[0] == "ret" and r3[1] is flows, "language_for_file", "a pattern with a directory part is matched against the path as given", "with a language registered for '*/flows/*.txt': language_for_file('proj/flows/main.txt') %s (documented: that language), ('proj/other/main.txt') %s (documented TextXRegistrationError), the pattern itself %s (documented: that language)" % (show(r), show(r2), show(r3)), props_=("C26", "C30"))
    # ---- registration as the very first use of the registry
    w = World(); mine = LD("MyLang", "*.ml", metamodel=w.factory("MyLang"))
    r0 = w.call("register_language", mine); r1 = w.call("language_description", "entrylang"); r2 = w.call("language_description", "mylang")
    rep(r0[0] == "ret" and r1[0] == "ret" and r1[1] is w.ep_lang and r2[0] == "ret" and r2[1] is mine, "register_language", "registering into an unset registry discovers the entry points first", "register_language as the first use of the registry %s; afterwards the entry-point language %s and the registered one %s" % (show(r0), show(r1), show(r2)))
    w = World(); gm = GD("MyLang", "T", generator="mine")
    r0 = w.call("register_generator", gm); r1 = w.call("generator_description", "any", "dot"); r2 = w.call("generator_description", "mylang", "t")
    rep(r0[0] == "ret" and r1[0] == "ret" and r1[1] is w.ep_gens[0] and r2[0] == "ret" and r2[1] is gm, "register_generator", "registering into an unset registry discovers the entry points first", "register_generator as the first use of the registry %s; afterwards the entry-point generator %s and the registered one %s" % (show(r0), show(r1), show(r2)))
    # ---- meta-model cache
    w = World(); mine = LD("MyLang", "*.ml", metamodel=w.factory("MyLang")); w.call("register_language", mine)
    a = w.call("metamodel_for_language", "MyLang"); b = w.call("metamodel_for_language", "mylang")
    rep(a[0] == "ret" and b[0] == "ret" and a[1] is b[1] and len(w.built) == 1, "metamodel_for_language", "the meta-model is built once and cached", "two requests for the meta-model of 'MyLang' (spelled 'MyLang' and 'mylang') build it %d time(s) and %s" % (len(w.built), "return different objects" if a[0] == b[0] == "ret" and a[1] is not b[1] else "%s / %s" % (show(a), show(b))), props_=("C26", "C30"))
    c = w.call("metamodel_for_language", "MyLang", debug=True)
    rep(c[0] == "ret" and len(w.built) == 2 and c[1] is w.built[-1] and c[1][".kw"] == {"debug": True}, "metamodel_for_language", "keyword arguments build a new meta-model with them", "a request with debug=True %s after %d build(s) with arguments %s: it must build a new meta-model with the given arguments" % (show(c), len(w.built), w.built[-1][".kw"] if w.built else None))
    n0 = len(w.built); d = w.call("metamodel_for_file", "x.ml", classes=None)
    rep(d[0] == "ret" and len(w.built) == n0 + 1 and d[1] is w.built[-1] and d[1][".kw"] == {"classes": None}, "metamodel_for_file", "keyword arguments count whatever their value", "metamodel_for_file('x.ml', classes=None) %s and builds %d new meta-model(s): given keyword arguments (also None-valued ones) ask for a fresh meta-model built with exactly them, not the cached one" % (show(d), len(w.built) - n0), witness="metamodel_for_file('x.ml', classes=None) after an earlier metamodel_for_language")
    inst_mm = {".kind": "mm", ".tag": "ready-made instance"}; w.call("register_language", LD("InstLang", "*.il", metamodel=inst_mm))
    e = w.call("metamodel_for_language", "InstLang"); e2 = w.call("metamodel_for_language", "instlang")
    rep(e[0] == "ret" and e[1] is inst_mm and e2[0] == "ret" and e2[1] is inst_mm, "metamodel_for_language", "a meta-model instance given at registration is used as it is", "for a language registered with a ready-made meta-model instance under the name 'InstLang' the request %s / %s" % (show(e), show(e2)), props_=("C26", "C30"), witness="register_language('InstLang', metamodel=<instance>); metamodel_for_language('InstLang')")
    r = w.call("clear_language_registrations")
    f = w.call("language_description", "mylang"); g = w.call("language_description", "entrylang")
    rep(is_err(f) and g[0] == "ret" and not w.G.get("metamodels"), "clear_language_registrations", "a clear forgets programmatic registrations and cached meta-models; entry points come back", "after clear_language_registrations the programmatic language %s, the entry-point language %s, cached meta-models: %s" % (show(f), show(g), sorted(w.G.get("metamodels") or {})))
    # ---- registration on behalf of a project; all meta-models for a file
    if "register_language_with_project" in fns:
        w = World(); first = LD("ProjLang", "*.pl", metamodel=w.factory("ProjLang")); second = LD("projlang", "*.pl2", metamodel=w.factory("again"))
        r1 = w.call("register_language_with_project", first, "proj", "1.0"); r2 = w.call("register_language_with_project", second, "proj", "1.0"); r3 = w.call("register_language_with_project", LD("PROJLANG", "*.pl3"), "other", "2.0")
        l_ = w.call("language_description", "ProjLang")
        rep(r1[0] == "ret" and first[".project_name"] == "proj" and first[".project_version"] == "1.0" and is_err(r2) and is_err(r3) and l_[0] == "ret" and l_[1] is first, "register_language_with_project", "a project's language is registered with the project's name and version; a duplicate name is refused whoever registers it",
            "registering ProjLang for project proj 1.0 %s (project recorded as %r %r); a second language named projlang from the same project %s, one from another project %s; documented: TextXRegistrationError for both - one language per case-insensitive name, the first registration stays" % (show(r1), first[".project_name"], first[".project_version"], show(r2), show(r3)))
    if "metamodels_for_file" in fns:
        w = World(); qa = LD("QA", "*.q[ab]", metamodel=w.factory("QA")); qb = LD("QB", "*.qa", metamodel=w.factory("QB")); w.call("register_language", qa); w.call("register_language", qb)
        for q, want in (("x.qa", ["QA", "QB"]), ("dir/x.qb", ["QA"]), ("*.q[ab]", ["QA"]), ("x.none", [])):
            r = w.call("metamodels_for_file", q)
            got = sorted(m_.get(".tag") for m_ in r[1]) if r[0] == "ret" and isinstance(r[1], list) and all(isinstance(m_, dict) for m_ in r[1]) else show(r)
            rep(got == want, "metamodels_for_file", "meta-models for %r" % q, "metamodels_for_file(%r) gives %s; documented %s: the meta-model of every language that handles the name (the name equals the language's pattern or matches it)" % (q, got, want))
    # ---- generators
    w = World()
    r = w.call("generator_description", "entrylang", "t")
    rep(r[0] == "ret" and r[1] is w.ep_gens[1] and w.scans.count("textx_generators") == 1, "generator_description", "first use discovers the entry points", "the first lookup of a generator provided by an entry point %s" % show(r))
    gm = GD("Any", "Mine", generator="mine"); r0 = w.call("register_generator", gm)
    looks = [((l_, t_), w.call("generator_description", l_, t_)) for l_, t_ in (("any", "mine"), ("ANY", "MINE"))]
    bad = [(q, r_) for q, r_ in looks if not (r_[0] == "ret" and r_[1] is gm)]
    rep(r0[0] == "ret" and not bad, "register_generator / generator_description", "a registered generator is found under any spelling", "after registering the generator Any->Mine the lookup %s %s" % (bad[0][0] if bad else "", show(bad[0][1]) if bad else show(r0)))
    r = w.call("register_generator", "ANY", "MINE")
    rep(is_err(r), "register_generator", "a second registration of the same language/target is refused", "registering ANY->MINE after Any->Mine %s; documented TextXRegistrationError" % show(r))
    w.call("clear_generator_registrations")
    h = w.call("generator_description", "any", "mine"); i = w.call("generator_description", "any", "dot"); j = w.call("register_generator", GD("any", "mine", generator="again"))
    rep(is_err(h) and i[0] == "ret" and i[1] is w.ep_gens[0] and j[0] == "ret", "clear_generator_registrations", "a clear forgets programmatic generators; entry points come back; the name is free again",
        "after clear_generator_registrations the programmatic generator any->mine %s (documented: not registered), the entry-point generator any->dot %s, registering any->mine again %s" % (show(h), show(i), show(j)), witness="register_generator('any','mine'); clear_generator_registrations(); generator_description('any','mine')")
    return inst, out
