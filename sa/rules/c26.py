"""C26.g / C30.f  registry functions decided by abstract evaluation (sa/pyeval.py; nothing of textX runs; fnmatch is the
   standard library's own, a trusted base) on a sample registry:
     languages_for_file    a language handles a name if the name equals its pattern or matches it (so the pattern text itself,
                           which may contain character classes, finds its language);
     generator_description the generator of (language, target); with any_permitted, the generator registered for 'any' is the
                           fallback whenever the language has none for that target (also when it has others); without
                           any_permitted / without either, TextXRegistrationError;
     clear_generator_registrations  afterwards the registry is unset (None), so the next use re-discovers the entry points and
                           nothing registered at run time survives."""
import ast, fnmatch
from sa.util import *
from sa import pyeval
RG = "textx/registration.py"
def r_C26eval(root):
    out = []; inst = 0
    t = load(root, RG)
    fns = {f.name: f for f in t.body if isinstance(f, ast.FunctionDef)}
    def run(name, env):
        fn = find_i(root, RG, name)
        e = {"__functions__": {k: v for k, v in fns.items() if k.startswith("_")}}
        e.update(env)
        try: return ("ret", pyeval.run_block(fn.body, e), e)
        except pyeval.Raised as r: return ("raise", r.cls, e)
        except pyeval.Unsupported as u: raise AnalysisError("%s: outside the evaluated subset: %s" % (name, u))
    # ---- languages_for_file
    la = {".name": "a", ".pattern": "*.c26[ab]"}; lb = {".name": "b", ".pattern": "*.other"}
    reg = {"a": la, "b": lb}
    p0 = fns["languages_for_file"].args.args[0].arg
    for q, want in (("x.c26a", ["a"]), ("*.c26[ab]", ["a"]), ("y.other", ["b"]), ("*.other", ["b"]), ("z.none", [])):
        inst += 1
        k, v, _e = run("languages_for_file", {p0: q, "language_descriptions": pyeval.PyFn(lambda: reg), "fnmatch.fnmatch": pyeval.PyFn(fnmatch.fnmatch), "fnmatch": {".fnmatch": pyeval.PyFn(fnmatch.fnmatch)}, "TYPE_CHECKING": False})
        got = sorted(x[".name"] for x in v) if k == "ret" and isinstance(v, list) else "%s %s" % (k, v)
        ok = got == want
        ob("C26", "C26.g", RG, "languages_for_file", "%r -> %s" % (q, got), ok)
        if not ok: out.append(Finding("C26", "C26.g", RG, "languages_for_file", "lookup of %r" % q, "languages found for %r: %s, documented %s (a language handles a name that equals its pattern or matches it)" % (q, got, want), witness="register a language with pattern %s and ask for that pattern" % la[".pattern"]))
    # ---- generator_description
    gd = fns["generator_description"]; ps = [a.arg for a in gd.args.args]
    G1, G2, G3 = {".t": "lang/t1"}, {".t": "any/t2"}, {".t": "any/t1"}
    for (lang, target, anyp), want in ((("lang", "t1", False), "lang/t1"), (("lang", "t1", True), "lang/t1"), (("LANG", "T1", False), "lang/t1"), (("lang", "t2", True), "any/t2"), (("lang", "t2", False), "raise TextXRegistrationError"),
                                       (("nolang", "t2", True), "any/t2"), (("nolang", "t2", False), "raise TextXRegistrationError"), (("nolang", "t9", True), "raise TextXRegistrationError")):
        inst += 1
        env = {ps[0]: lang, ps[1]: target, "generators": {"lang": {"t1": G1}, "any": {"t2": G2, "t1": G3}}, "generator_descriptions": pyeval.PyFn(lambda: None)}
        if len(ps) > 2: env[ps[2]] = anyp
        k, v, _e = run("generator_description", env)
        got = v[".t"] if k == "ret" and isinstance(v, dict) else "%s %s" % (k, v)
        ok = got == want
        for pr in ("C26", "C30"): ob(pr, "C26.g", RG, "generator_description", "(%s, %s, any_permitted=%s) -> %s" % (lang, target, anyp, got), ok)
        if not ok:
            for pr in ("C26", "C30"): out.append(Finding(pr, "C26.g", RG, "generator_description", "(%r, %r, any_permitted=%s)" % (lang, target, anyp), "generator lookup yields %s, documented %s (the language's own generator for the target, else with any_permitted the one registered for 'any', else TextXRegistrationError)" % (got, want), witness="a language with a generator for another target; the requested target registered only for 'any'"))
    # ---- clear_generator_registrations
    inst += 1
    k, v, e = run("clear_generator_registrations", {"generators": {"lang": {"t1": {".project_name": "p"}}, "any": {"t2": {".project_name": None}}}})
    ok = k == "ret" and e.get("generators") is None
    ob("C26", "C26.g", RG, "clear_generator_registrations", "registry unset after clear", ok)
    if not ok: out.append(Finding("C26", "C26.g", RG, "clear_generator_registrations", "generators after clear: %s" % (sorted(e.get("generators")) if isinstance(e.get("generators"), dict) else e.get("generators")), "after clear_generator_registrations the registry still holds entries: generators registered at run time survive the clear and a re-registration is refused as duplicate", witness="register_generator_with_project(...), clear, register again"))
    return inst, out
