"""The reference resolver as a state machine, decided by evaluation (sa/pyeval.py): ReferenceResolver is instantiated by
interpreting its own __init__ and resolve_one_step is interpreted round after round on sample cross-reference work lists,
with a scope provider stand-in that follows a postponement schedule (which reference answers Postponed in which round).

  C08.d  list references end in textual order for EVERY schedule: three references of one list attribute (offsets 10, 12, 16: the first two adjacent, a reference of another list between the last two) and each of them postponed for 0, 1 or 2 rounds (27 schedules, further lists of the same object alongside):
         after the last round the list holds the three targets in textual order, each exactly once
  C09.e  conservation per round: every reference taken from the work list is either re-queued and reported as delayed
         (exactly the postponed ones) or counted and stored; references of other models stay queued untouched; a
         Postponed answer is never stored in the attribute
  C07.e  a reference nobody resolves falls back to the builtins entry of that name only if its type conforms; otherwise
         the round fails with a TextXSemanticError of type 'Unknown object' located by the model's own parser and file
  C34.h  with tool support every resolved model reference is recorded once with the reference's own start/end offsets and
         the target's file and span; builtin targets (plain objects) are not recorded and do not break the load"""
import ast, itertools
from sa.util import *
from sa import pyeval
from sa.exprs import HS
M = "textx/model.py"
def r_resolver(root):
    out = []; inst = 0
    t = load(root, M)
    cds = {c.name: c for c in t.body if isinstance(c, ast.ClassDef)}
    if "ReferenceResolver" not in cds: raise AnalysisError("model.py: class ReferenceResolver not found")
    ct = load(root, "textx/const.py"); consts = {}
    for st in ct.body:
        if isinstance(st, ast.Assign) and isinstance(st.targets[0], ast.Name):
            try: consts[st.targets[0].id] = pyeval.evaluate(st.value, dict(consts))
            except (pyeval.Unsupported, pyeval.Raised): pass
    MANY = consts.get("MULT_ONEORMORE"); ONE = consts.get("MULT_ONE"); UNKNOWN = consts.get("UNKNOWN_OBJ_ERROR")
    if MANY is None or ONE is None: raise AnalysisError("textx/const.py: multiplicity constants not found")
    POST = HS({".kind": "cls", ".__name__": "Postponed"})
    fns = {f.name: f for f in t.body if isinstance(f, ast.FunctionDef) and f.name.startswith("_")}
    class World:
        def __init__(w, tools=False, builtins=None):
            w.errors = []
            w.parser = HS({".kind": "parser", ".debug": False, ".pos_to_linecol": pyeval.PyFn(lambda pos: (("line", pos), ("col", pos))), "._crossrefs": [], ".file_name": "model.file", "._instances": {}})
            w.mm = HS({".kind": "metamodel", ".scope_providers": {}, ".builtins": builtins, ".textx_tools_support": tools, ".debug": False, ".file_name": "g.tx"})
            w.parser[".metamodel"] = w.mm
            w.model = HS({".kind": "model", "._tx_filename": "model.file", "._tx_parser": w.parser, "._tx_metamodel": w.mm})
            w.other_model = HS({".kind": "model", "._tx_filename": "other.file"})
            w.schedule = {}; w.round = 0; w.targets = {}; w.asked = []; w.failing = {}
            def provider(obj, attr, crossref):
                w.asked.append(crossref[".obj_name"])
                if crossref[".obj_name"] in w.failing:
                    r_ = pyeval.Raised("TextXSemanticError"); r_.bases = ["TextXSemanticError", "TextXError", "Exception"]; r_.value = w.failing[crossref[".obj_name"]]; raise r_
                if w.schedule.get(crossref[".obj_name"], 0) > w.round: return HS({".__class__": POST, ".kind": "postponed", ".__complete__": "all"})       # a Postponed object has no attributes at all
                return w.targets.get(crossref[".obj_name"])
            w.provider = pyeval.PyFn(provider)
            def mkerr(cls_):
                def f(message=None, line=None, col=None, err_type=None, expected_obj_cls=None, filename=None, **kw):
                    e = {".cls": cls_, ".message": message, ".line": line, ".col": col, ".err_type": err_type, ".filename": filename}; w.errors.append(e); return e
                return pyeval.PyFn(f)
            w.env = dict(consts)
            w.env.update({"__classdefs__": cds, "__functions__": fns, "__module__": t, "Postponed": POST, "DefaultScopeProvider": pyeval.PyFn(lambda *a, **k: w.provider),
                          "get_model": pyeval.PyFn(lambda o: w._model_of(o)), "textx_isinstance": pyeval.PyFn(lambda o, c: isinstance(o, dict) and o.get(".conforms_to") is c),
                          "TextXSemanticError": mkerr("TextXSemanticError"), "TextXError": mkerr("TextXError"),
                          "__classes__": {"Postponed": lambda v: isinstance(v, dict) and v.get(".__class__") is POST, "TextXError": lambda v: isinstance(v, dict) and str(v.get(".cls", "")).startswith("TextX"), "Exception": lambda v: True, "list": lambda v: isinstance(v, list)},
                          "__keep__": ("Postponed", "MULT_ONEORMORE", "MULT_ZEROORMORE", "MULT_ONE", "MULT_OPTIONAL", "UNKNOWN_OBJ_ERROR", "get_model", "textx_isinstance")})
            for k_ in consts: w.env["__keep__"] = tuple(set(w.env["__keep__"]) | {k_})
            w.pos_list = []
            try: w.res = pyeval.instantiate("ReferenceResolver", [w.parser, w.model, w.pos_list], {}, w.env)
            except pyeval.Unsupported as u_: raise AnalysisError("ReferenceResolver(): outside the evaluated subset: %s" % u_)
            w.model["._tx_reference_resolver"] = w.res
        def _model_of(w, o):
            while isinstance(o, dict) and ".parent" in o: o = o[".parent"]
            return o
        def obj(w, **fields):
            o = HS({".kind": "obj", ".parent": w.model, ".__class__": HS({".__name__": "Holder", ".kind": "cls"}), "._tx_position": 50, "._tx_position_end": 90}); o.update({"." + k: v for k, v in fields.items()}); return o
        def target(w, name, cls=None, start=100, model=None):
            tg = HS({".kind": "obj", ".name": name, ".parent": model or w.model, "._tx_position": start, "._tx_position_end": start + 5, ".conforms_to": cls, ".__class__": cls if cls is not None else HS({".__name__": "T"})}); w.targets[name] = tg
            if model is None or model is w.model: w.parser["._instances"].setdefault(id(tg[".__class__"]), {})[name] = tg      # the parser's table of named instances of this model
            return tg
        def ref(w, name, pos, cls=None): return HS({".kind": "crossref", ".obj_name": name, ".position": pos, ".position_end": pos + len(name), ".cls": cls or HS({".__name__": "Cls"}), ".scope_provider": None, ".match_rule_name": None})
        def attr(w, name, many): return HS({".kind": "metaattr", ".name": name, ".mult": MANY if many else ONE, ".cont": False, ".ref": True})
        def step(w):
            c_, f_ = pyeval.find_method(cds, "ReferenceResolver", "resolve_one_step")
            if f_ is None: raise AnalysisError("ReferenceResolver.resolve_one_step not found")
            try: r = ("ret", pyeval.call_method_of(w.res, c_, f_, [], {}, w.env))
            except pyeval.Raised as r_: r = ("raise", r_)
            except pyeval.Unsupported as u_: raise AnalysisError("resolve_one_step: outside the evaluated subset: %s" % u_)
            w.round += 1; return r
    W = "ReferenceResolver.resolve_one_step"
    def rep(prop, clause, what, ok, msg, witness=""):
        nonlocal inst
        inst += 1; ob(prop, clause, M, W, what, ok)
        if not ok: out.append(Finding(prop, clause, M, W, what, msg, witness=witness))
    # ------------------------------------------------------------------ C08.d / C09.e : schedules
    bad_order = None; bad_cons = None; n_sched = 0
    from sa import util as _u
    for sched in itertools.product((0, 1, 2, 3) if _u.TIER == "thorough" else (0, 1, 2), repeat=3):        # the round in which each of the three list references becomes resolvable
        n_sched += 1
        w = World(); cls = HS({".__name__": "Cls"})
        o = w.obj(refs=[], more=[], one=None, _tx_position=50, _tx_position_end=90); a_refs, a_more, a_one = w.attr("refs", True), w.attr("more", True), w.attr("one", False)
        names = ["r1", "r2", "r3"]; tg = {n: w.target(n, cls) for n in names + ["m1", "m2", "s"]}
        foreign_obj = HS({".kind": "obj", ".parent": w.other_model, ".x": None, "._tx_position": 50, "._tx_position_end": 60, ".__class__": HS({".__name__": "Holder", ".kind": "cls"})}); foreign = (foreign_obj, w.attr("x", False), w.ref("f", 5, cls))
        w.schedule = dict(zip(names, sched)); w.schedule["m1"] = 1; w.schedule["q1"] = 1 + (sched[0] % 2)
        o2 = w.obj(refs=[], more=[], one=None, _tx_position=50, _tx_position_end=60); tq = {n: w.target(n, cls) for n in ("q1", "q2")}
        work = [(o, a_refs, w.ref("r1", 10, cls)), (o, a_refs, w.ref("r2", 12, cls)), (o, a_more, w.ref("m1", 14, cls)), foreign, (o, a_refs, w.ref("r3", 16, cls)), (o, a_more, w.ref("m2", 18, cls)), (o, a_one, w.ref("s", 25, cls)), (o2, a_refs, w.ref("q1", 11, cls)), (o2, a_refs, w.ref("q2", 21, cls))]
        w.parser["._crossrefs"] = list(work)
        for rnd in range(5):
            queue = list(w.parser["._crossrefs"]); mine = [x for x in queue if x[0] is o or x[0] is o2]
            expect_post = [x[2][".obj_name"] for x in mine if w.schedule.get(x[2][".obj_name"], 0) > w.round]
            k, v = w.step()
            if k != "ret":
                if bad_cons is None: bad_cons = (sched, rnd, "the round raises %s" % v.cls); break
                break
            cnt, delayed = (v[0], v[1]) if isinstance(v, (list, tuple)) and len(v) == 2 else (None, None)
            after = list(w.parser["._crossrefs"])
            got_post = [x[2][".obj_name"] for x in after if x[0] is o or x[0] is o2]
            problems = []
            if cnt != len(mine) - len(expect_post): problems.append("it reports %s resolved references, %d were resolved" % (cnt, len(mine) - len(expect_post)))
            if delayed is None or [x[2][".obj_name"] for x in delayed] != expect_post: problems.append("it reports the delayed references %s, postponed were %s" % ([x[2][".obj_name"] for x in delayed] if delayed is not None else None, expect_post))
            if got_post != expect_post: problems.append("it re-queues %s, postponed were %s" % (got_post, expect_post))
            if not any(x[0] is foreign[0] and x[1] is foreign[1] and x[2] is foreign[2] for x in after): problems.append("a reference of another model is dropped from the work list")
            if foreign_obj[".x"] is not None: problems.append("a reference of another model is resolved by this model's resolver")
            vals = list(o[".refs"]) + list(o[".more"]) + [o[".one"]]
            if any(isinstance(x, dict) and x.get(".__class__") is POST for x in vals): problems.append("a Postponed answer is stored in the attribute")
            if problems and bad_cons is None: bad_cons = (sched, rnd, "; ".join(problems))
            if not expect_post and not [x for x in after if x[0] is o or x[0] is o2]: break
        okl = o[".refs"] == [tg["r1"], tg["r2"], tg["r3"]] and o[".more"] == [tg["m1"], tg["m2"]] and o[".one"] is tg["s"] and o2[".refs"] == [tq["q1"], tq["q2"]]
        if not okl and bad_order is None: bad_order = (sched, [x.get(".name") if isinstance(x, dict) else x for x in o[".refs"]], [x.get(".name") if isinstance(x, dict) else x for x in o[".more"]] + ["| second object:"] + [x.get(".name") if isinstance(x, dict) else x for x in o2[".refs"]], o[".one"] is tg["s"])
    rep("C08", "C08.d", "three references of one list postponed for 0-2 rounds each: %d schedules" % n_sched, bad_order is None,
        "with the references r1@10, r2@12, r3@16 of one list postponed for %s rounds, the list ends as %s (a second list of the object as %s, its single reference %s); documented: [r1, r2, r3] - the textual order, whatever the order of resolution" % (bad_order[0] if bad_order else "", bad_order[1] if bad_order else "", bad_order[2] if bad_order else "", "resolved" if bad_order and bad_order[3] else "wrong"), witness="list of references whose first element is postponed by its scope provider")
    rep("C09", "C09.e", "conservation in every round of the %d schedules" % n_sched, bad_cons is None,
        "schedule %s, round %s: %s" % (bad_cons[0] if bad_cons else "", (bad_cons[1] + 1) if bad_cons else "", bad_cons[2] if bad_cons else ""), witness="a reference postponed by its scope provider")
    # ------------------------------------------------------------------ C07.e builtins / unknown object
    cls = HS({".__name__": "Cls"})
    for what, builtins, want in (("no object, no builtins", None, "error"), ("no object, a builtin of that name that conforms", "conforming", "builtin"), ("no object, a builtin of that name of another type", "other", "error"), ("no object, builtins without that name", "missing", "error")):
        b_obj = HS({".kind": "builtin", ".conforms_to": cls if builtins == "conforming" else HS({}), ".__complete__": "all"})
        w = World(builtins=None if builtins is None else ({"x": b_obj} if builtins != "missing" else {"y": b_obj}))
        o = w.obj(one=None); a_one = w.attr("one", False)
        w.parser["._crossrefs"] = [(o, a_one, w.ref("x", 42, cls))]
        k, v = w.step()
        if want == "builtin": ok = k == "ret" and o[".one"] is b_obj
        else:
            e = v.value if k == "raise" and isinstance(getattr(v, "value", None), dict) else None
            ok = k == "raise" and v.cls == "TextXSemanticError" and e is not None and e[".err_type"] == UNKNOWN and (tuple(e[".line"]) if isinstance(e[".line"], (list, tuple)) else e[".line"]) == ("line", 42) and (tuple(e[".col"]) if isinstance(e[".col"], (list, tuple)) else e[".col"]) == ("col", 42) and e[".filename"] == "model.file"
        rep("C07", "C07.e", what, ok, "a reference to 'x' with %s: the round %s; documented: %s" % (what, ("stores %s" % ("the builtin" if o[".one"] is b_obj else o[".one"])) if k == "ret" else "raises %s%s" % (v.cls, "" if not isinstance(getattr(v, "value", None), dict) else " (type %r, line %s, file %r)" % (v.value.get(".err_type"), v.value.get(".line"), v.value.get(".filename"))), "the builtin is used" if want == "builtin" else "a TextXSemanticError of type 'Unknown object' at the reference (line/col of offset 42 by the model's parser, the model's file)"), witness="reference to a name that only the builtins know")
    # a postponed reference whose name is also a builtin stays postponed; a dotted name is looked up in the builtins as it is written
    b_obj = HS({".kind": "builtin", ".conforms_to": cls, ".__complete__": "all"})
    w = World(builtins={"x": b_obj, "int": b_obj}); o = w.obj(one=None, two=None); late = w.target("x", cls)
    w.schedule = {"x": 1}
    w.parser["._crossrefs"] = [(o, w.attr("one", False), w.ref("x", 42, cls))]
    k, v = w.step()
    okp = k == "ret" and o[".one"] is None and isinstance(v, (list, tuple)) and len(v) == 2 and v[0] == 0 and [x[2][".obj_name"] for x in v[1]] == ["x"] and [x[2][".obj_name"] for x in w.parser["._crossrefs"]] == ["x"]
    k2, v2 = w.step() if okp else (None, None)
    okp = okp and k2 == "ret" and o[".one"] is late
    rep("C09", "C09.e", "a postponed reference whose name is also a builtin", okp, "a reference to 'x' that the provider postpones for one round, with a builtin named 'x': the first round %s and the attribute then holds %s; documented: the reference is re-queued and reported as delayed, and bound to the model object the provider delivers in the next round (the builtins are a fallback for references nobody resolves, not for postponed ones)" % (("returns %s resolved / %s delayed" % (v[0], [x[2][".obj_name"] for x in v[1]]) if k == "ret" and isinstance(v, (list, tuple)) and len(v) == 2 else "raises " + getattr(v, "cls", "?")), "the builtin" if o[".one"] is b_obj else ("nothing" if o[".one"] is None else "the model object")), witness="builtins={'x': ...} and a provider answering Postponed for x")
    w = World(builtins={"int": b_obj}); o = w.obj(one=None)
    w.parser["._crossrefs"] = [(o, w.attr("one", False), w.ref("nope.int", 42, cls))]
    k, v = w.step()
    okq = k == "raise" and v.cls == "TextXSemanticError"
    rep("C07", "C07.e", "a dotted name whose last part is a builtin name", okq, "a reference to 'nope.int' that nobody resolves, with a builtin named 'int': the round %s; documented: 'Unknown object' (the builtins are looked up by the name as written)" % ("stores the builtin" if k == "ret" and o[".one"] is b_obj else ("returns" if k == "ret" else "raises " + v.cls)), witness="builtins={'int': ...} and a reference q.int")
    # ------------------------------------------------------------------ C34.h tool support bookkeeping
    for tools in (True, False):
        b_obj = HS({".kind": "builtin", ".conforms_to": cls, ".__complete__": "all"})
        w = World(tools=tools, builtins={"b": b_obj})
        o = w.obj(one=None, two=None, refs=[]); tg = w.target("t", cls, start=200); own_u = w.target("u", cls, start=400); tg2 = w.target("u", cls, start=300, model=w.other_model)     # a same-named object of this model exists too; the provider answers the imported one
        o[".late"] = None; w.target("late", cls, start=500); w.schedule["late"] = 1          # postponed in the first round, resolved in the second
        w.parser["._crossrefs"] = [(o, w.attr("one", False), w.ref("t", 7, cls)), (o, w.attr("late", False), w.ref("late", 12, cls)), (o, w.attr("two", False), w.ref("b", 17, cls)), (o, w.attr("refs", True), w.ref("u", 27, cls))]
        k, v = w.step()
        recs1 = [r.get(".name") if isinstance(r, dict) else repr(r)[:30] for r in w.pos_list]
        if k == "ret": k, v = w.step()
        recs = [(r.get(".name"), r.get(".ref_pos_start"), r.get(".ref_pos_end"), r.get(".def_file_name"), r.get(".def_pos_start"), r.get(".def_pos_end")) if isinstance(r, dict) else (repr(r)[:30],) for r in w.pos_list]
        want = [("t", 7, 8, "model.file", 200, 205), ("u", 27, 28, "other.file", 300, 305), ("late", 12, 16, "model.file", 500, 505)] if tools else []
        ok = k == "ret" and sorted(recs) == sorted(want) and "late" not in recs1 and o[".one"] is tg and o[".two"] is b_obj and o[".refs"] == [tg2] and o[".late"] is w.targets["late"]
        rep("C34", "C34.h", "tool support %s: bookkeeping of resolved references" % ("on" if tools else "off"), ok, "with textx_tools_support %s, a reference to a model object at 7, one postponed in the first round at 12, one to a builtin at 17 and a list reference at 27 into another file: the rounds %s and record %s (after the first round: %s); documented: %s (a postponed reference is recorded only once it is resolved, a builtin not at all), all four references resolved" % ("on" if tools else "off", "complete" if k == "ret" else "raise %s" % v.cls, recs, recs1, want), witness="textx_tools_support=True with builtins that are plain Python objects")
    # ------------------------------------------------------------------ C33.d : an error raised by the scope provider
    for what, given, want in (("without any location", (None, None, None), (("line", 30), ("col", 30), "model.file")), ("located in a nested model loaded from a string (no file name)", (3, 4, None), (3, 4, None)),
                              ("located by file only", (None, None, "inner.file"), (None, None, "inner.file")), ("fully located", (3, 4, "inner.file"), (3, 4, "inner.file"))):
        w = World(); cls = HS({".__name__": "Cls"}); o = w.obj(one=None); err = {".cls": "TextXSemanticError", ".message": "from the provider", ".line": given[0], ".col": given[1], ".filename": given[2], ".err_type": None}
        w.failing = {"bad": err}; w.parser["._crossrefs"] = [(o, w.attr("one", False), w.ref("bad", 30, cls))]
        k, v = w.step()
        got = (err[".line"], err[".col"], err[".filename"])
        okx = k == "raise" and getattr(v, "value", None) is err and got == want
        rep("C33", "C33.d", "a provider's TextXError %s" % what, okx, "a scope provider raising a TextXError %s (line, col, filename = %r): the resolver %s and the error then carries %r; documented: the same error propagates, located at the reference (line/col of its position by the model's parser, the model's file) only when it carries no location at all, otherwise unchanged" % (what, given, "re-raises it" if k == "raise" and getattr(v, "value", None) is err else ("raises another error" if k == "raise" else "swallows it"), got))
    return inst, out
