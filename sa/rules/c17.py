"""C17 clauses found by testing against independently seeded changes
   C17.f  the repository loaders that act for an importing model register that model
          (update_model_in_repo_based_on_filename) before they load anything: the call dominates every load_model call
          in the function (import cycles back to the importer are cut by the cache)
   C17.g  ImportURI connects a model to the metamodel's global repository whenever the metamodel has one: the choice
          depends on nothing else (e.g. not on the model having a file name)
   C17.h  with a global repository, internal_model_from_file consults the cache for every load (direct or nested):
          the lookup depends only on the repository existing and the file being cached
   C01.h  a suppressed rule reference gets its suppressing wrapper whether or not the referenced rule itself still had
          to be resolved"""
import ast
from sa.util import *
from sa import sem, atoms
S = "textx/scoping/__init__.py"; P = "textx/scoping/providers.py"; MM = "textx/metamodel.py"; L = "textx/lang.py"
def _u(e): return ast.unparse(e).replace(" ", "").replace("\n", "")
def _split(g, pol):
    """flatten a guard into (atom text, polarity) pairs where possible"""
    if isinstance(g, ast.UnaryOp) and isinstance(g.op, ast.Not): return _split(g.operand, not pol)
    if isinstance(g, ast.BoolOp) and ((isinstance(g.op, ast.And) and pol) or (isinstance(g.op, ast.Or) and not pol)):
        out = []
        for v in g.values: out += _split(v, pol)
        return out
    return [(_u(g), pol)]
def r_C17fgh(root):
    out = []; inst = 0
    t = load(root, S)
    for q in ("GlobalModelRepository.load_model_using_search_path", "GlobalModelRepository.load_models_using_filepattern"):
        fn = find(t, q); fi = sem.info(fn); cfg = fi.cfg; inst += 1
        ups = [n for n in cfg.nodes if n.ast is not None and n.kind in ("stmt",) and any(callee_name(c) == "update_model_in_repo_based_on_filename" for c in calls(n.ast))]
        lds = [n for n in cfg.nodes if n.ast is not None and n.kind in ("stmt", "return") and any(callee_name(c) == "load_model" for c in calls(n.ast))]
        if not lds: raise AnalysisError("%s: load_model call not found" % q)
        mparam = "model"
        bad = None
        for l in lds:
            # on the path where an importing model is given, the registration must precede the load
            p = cfg.paths_avoiding_consistent(cfg.entry, l, lambda n: n in ups, {mparam: True, mparam + " is not None": True, mparam + " is None": False})
            if p: bad = l
        ob("C17", "C17.f", S, q, "importer registered before load_model", bad is None and bool(ups))
        if bad is not None or not ups:
            out.append(Finding("C17", "C17.f", S, q, " ".join(ast.unparse((bad or lds[0]).ast).split())[:100], "a referenced file is loaded before the importing model is entered into the repository: an import cycle back to the importer re-reads and re-parses it, and the second copy replaces the first in the repository", witness="a imports b, b imports a (search_path provider, no global repository)"))
    # ---- C17.g
    tp = load(root, P); lm = find(tp, "ImportURI.load_models"); fl = sem.info(lm)
    conn = [c for c in calls(lm, own=True) if callee_name(c) == "GlobalModelRepository" and c.args]
    if not conn: raise AnalysisError("ImportURI.load_models: connection to the global repository not found")
    for c in conn:
        inst += 1; extra = []
        for a_, p_ in fl.atoms_at(c):
            u = a_.replace(" ", "")
            if u.startswith("hasattr(") and "_tx_model_repository" in u: continue
            extra.append((u, p_))
        ob("C17", "C17.g", P, "ImportURI.load_models", ast.unparse(c)[:80], not extra)
        for u, p_ in extra:
            out.append(Finding("C17", "C17.g", P, "ImportURI.load_models", ("" if p_ else "not ") + u, "whether a model shares the metamodel's global repository also depends on %s: models for which it fails get a private repository, files they reference are re-read on every load and their elements exist twice" % u, witness="global_repository=True, model_from_str without file name, provider with a file pattern"))
    # ---- C17.h
    tm = load(root, MM); imf = find(tm, "TextXMetaModel.internal_model_from_file"); fm = sem.info(imf)
    look = [n for n in own_nodes(imf) if isinstance(n, ast.Assign) and isinstance(n.value, ast.Subscript) and "all_models" in ast.unparse(n.value.value)]
    if not look: raise AnalysisError("internal_model_from_file: cache lookup not found")
    for a in look:
        inst += 1; extra = []
        for a_, p_ in fm.atoms_at(a):
            u = a_.replace(" ", "")
            if (u.startswith("hasattr(self,'_tx_model_repository')") and p_) or ("has_model(" in u and p_): continue
            extra.append((u, p_))
        ob("C17", "C17.h", MM, "TextXMetaModel.internal_model_from_file", " ".join(ast.unparse(a).split())[:80], not extra)
        for u, p_ in extra:
            out.append(Finding("C17", "C17.h", MM, "TextXMetaModel.internal_model_from_file", ("" if p_ else "not ") + u, "the global repository's cache is consulted only when %s%s: other loads re-read a file that is already cached, so the same file exists as two different models" % ("" if p_ else "not ", u), witness="two metamodels each with a global repository; the file is loaded directly first and then imported"))
    return inst, out
def r_C01h(root):
    out = []; inst = 0
    t = load(root, L); rr = find(t, "TextXVisitor._resolve_rule_refs._resolve_rule"); fi = sem.info(rr)
    wr = [c for c in calls(rr, own=True) if callee_name(c) == "Sequence" and any(k.arg == "suppress" for k in c.keywords)]
    if not wr: raise AnalysisError("_resolve_rule: suppressing wrapper not found")
    for c in wr:
        inst += 1; extra = []
        for a_, p_ in fi.atoms_at(c):
            u = a_.replace(" ", "")
            if True:
                if u in ("suppress", "rule.suppress") and p_: continue
                if u.startswith("isinstance(rule,RuleCrossRef)") and p_: continue          # the outer case: we are resolving a reference
                if "inmodel_parser.metamodel" in u and p_: continue                          # the referenced rule exists
                if "resolving_names" in u: continue                                           # cycle report
                if "resolved_rules" in u: continue                                            # memo of already resolved expressions (early return)
                extra.append((u, p_))
        ob("C01", "C01.h", L, "_resolve_rule", " ".join(ast.unparse(c).split())[:80], not extra)
        for u, p_ in extra:
            out.append(Finding("C01", "C01.h", L, "_resolve_rule", ("" if p_ else "not ") + u, "a suppressed rule reference (Rule-) is wrapped only when %s%s: the first reference that triggers the resolution of an alias rule loses its suppression and the matched text shows up in the value" % ("" if p_ else "not ", u), witness="Sep-  with  Sep: Colon; Colon: ':';"))
    return inst, out

def r_C17i(root):
    """C17.i / C16.e  every model gets a repository object of its own: each store `<model>._tx_model_repository = V` binds a
       GlobalModelRepository constructed at that point (on every reaching definition of V).  Only `all_models` is shared
       (handed to the constructor); `local_models` — the files visible from one model through its imports — must not be
       shared between top-level loads, else a later load resolves names from files only an earlier load imported."""
    import ast
    from sa import sem
    out = []; inst = 0
    for rel in ("textx/metamodel.py", "textx/scoping/__init__.py", "textx/scoping/providers.py", "textx/scoping/rrel.py", "textx/model.py"):
        t = load(root, rel)
        for n in ast.walk(t):
            if not (isinstance(n, ast.Assign) and len(n.targets) == 1 and isinstance(n.targets[0], ast.Attribute) and n.targets[0].attr == "_tx_model_repository"): continue
            base = n.targets[0].value
            if isinstance(base, ast.Name) and base.id == "self": continue           # the metamodel's own (global) repository
            fn = enclosing_func(n)
            if fn is None: continue
            fi = sem.info(fn); inst += 1
            def fresh(e, at, depth=0):
                if isinstance(e, ast.Call) and callee_name(e) == "GlobalModelRepository": return True
                if isinstance(e, ast.Name) and depth < 4:
                    nd = fi.node_of(at); ds = fi.rd.defs_of(nd, e.id) if nd is not None else []
                    if not ds: return False
                    for d in ds:
                        dn = fi.cfg.nodes[d]
                        if not (dn.kind == "stmt" and isinstance(dn.ast, ast.Assign) and fresh(dn.ast.value, dn.ast, depth + 1)): return False
                    return True
                return False
            ok = fresh(n.value, n)
            q = qualname(n)
            for pr in ("C17", "C16"): ob(pr, "C17.i", rel, q, " ".join(ast.unparse(n).split())[:100], ok)
            if not ok:
                for pr in ("C17", "C16"):
                    out.append(Finding(pr, "C17.i", rel, q, " ".join(ast.unparse(n).split())[:100], "a model is given an existing repository object (%s) instead of one of its own: the set of files visible from a model (local_models) is then shared with whoever owns that object and grows with every load" % ast.unparse(n.value)[:60], witness="global_repository=True: load a file that imports lib, then a file that uses lib's names without importing it"))
    if inst < 3: raise AnalysisError("model repository stores: only %d found (metamodel callback, GlobalModelRepository.pre_ref_resolution_callback, ImportURI.load_models expected)" % inst)
    return inst, out
