"""C17 clauses found by testing against independently seeded changes
   C17.f  the repository loaders that act for an importing model register that model
          (update_model_in_repo_based_on_filename) before they load anything: the call dominates every load_model call
          in the function (import cycles back to the importer are cut by the cache)
   C17.g  ImportURI connects a model to the metamodel's global repository whenever the metamodel has one: the choice
          depends on nothing else (e.g. not on the model having a file name)
   C17.h  with a global repository, internal_model_from_file consults the cache for every load (direct or nested):
          the lookup depends only on the repository existing and the file being cached
   C01.h  a suppressed rule reference gets its suppressing wrapper whether or not the referenced rule itself still had
          to be resolved"""
import ast
from sa.util import *
from sa import sem, atoms
S = "textx/scoping/__init__.py"; P = "textx/scoping/providers.py"; MM = "textx/metamodel.py"; L = "textx/lang.py"
def _u(e): return ast.unparse(e).replace(" ", "").replace("\n", "")
def _split(g, pol):
    """flatten a guard into (atom text, polarity) pairs where possible"""
    if isinstance(g, ast.UnaryOp) and isinstance(g.op, ast.Not): return _split(g.operand, not pol)
    if isinstance(g, ast.BoolOp) and ((isinstance(g.op, ast.And) and pol) or (isinstance(g.op, ast.Or) and not pol)):
        out = []
        for v in g.values: out += _split(v, pol)
        return out
    return [(_u(g), pol)]
def r_C17fgh(root):
    out = []; inst = 0
    t = load(root, S)
    for q in ("GlobalModelRepository.load_model_using_search_path", "GlobalModelRepository.load_models_using_filepattern"):
        fn = find(t, q); fi = sem.info(fn); cfg = fi.cfg; inst += 1
        ups = [n for n in cfg.nodes if n.ast is not None and n.kind in ("stmt",) and any(callee_name(c) == "update_model_in_repo_based_on_filename" for c in calls(n.ast))]
        # load_model called directly or through a name bound to functools.partial(<repo>.load_model, ...)
        bound = {tg.id for a_ in own_nodes(fn) if isinstance(a_, ast.Assign) and isinstance(a_.value, ast.Call) and callee_name(a_.value) == "partial" and a_.value.args and isinstance(a_.value.args[0], ast.Attribute) and a_.value.args[0].attr == "load_model" for tg in a_.targets if isinstance(tg, ast.Name)}
        def _is_load(c): return (callee_name(c) == "load_model") or (isinstance(c.func, ast.Name) and c.func.id in bound)
        lds = [n for n in cfg.nodes if n.ast is not None and n.kind in ("stmt", "return") and any(_is_load(c) for c in calls(n.ast))]
        if not lds: raise AnalysisError("%s: load_model call not found" % q)
        mparam = "model"
        bad = None
        for l in lds:
            # on the path where an importing model is given, the registration must precede the load
            p = cfg.paths_avoiding_consistent(cfg.entry, l, lambda n: n in ups, {mparam: True, mparam + " is not None": True, mparam + " is None": False})
            if p: bad = l
        ob("C17", "C17.f", S, q, "importer registered before load_model", bad is None and bool(ups))
        if bad is not None or not ups:
            out.append(Finding("C17", "C17.f", S, q, " ".join(ast.unparse((bad or lds[0]).ast).split())[:100], "a referenced file is loaded before the importing model is entered into the repository: an import cycle back to the importer re-reads and re-parses it, and the second copy replaces the first in the repository", witness="a imports b, b imports a (search_path provider, no global repository)"))
    # ---- C17.g (which repository a model gets in ImportURI.load_models) is decided by evaluation: C17.n, sa/rules/c17e.py
    tp = load(root, P)
    # ---- C17.h (the cache is consulted for every load) is decided by evaluation: C17.o, sa/rules/cmeta.py r_internalload
    return inst, out
def r_C01h(root):
    out = []; inst = 0
    t = load(root, L); rr = find(t, "TextXVisitor._resolve_rule_refs._resolve_rule"); fi = sem.info(rr)
    wr = [c for c in calls(rr, own=True) if callee_name(c) == "Sequence" and any(k.arg == "suppress" for k in c.keywords)]
    if not wr: raise AnalysisError("_resolve_rule: suppressing wrapper not found")
    for c in wr:
        inst += 1; extra = []
        for a_, p_ in fi.atoms_at(c):
            u = a_.replace(" ", "")
            if True:
                if u in ("suppress", "rule.suppress") and p_: continue
                if u.startswith("isinstance(rule,RuleCrossRef)") and p_: continue          # the outer case: we are resolving a reference
                if "inmodel_parser.metamodel" in u and p_: continue                          # the referenced rule exists
                if "resolving_names" in u: continue                                           # cycle report
                if "resolved_rules" in u: continue                                            # memo of already resolved expressions (early return)
                extra.append((u, p_))
        ob("C01", "C01.h", L, "_resolve_rule", " ".join(ast.unparse(c).split())[:80], not extra)
        for u, p_ in extra:
            out.append(Finding("C01", "C01.h", L, "_resolve_rule", ("" if p_ else "not ") + u, "a suppressed rule reference (Rule-) is wrapped only when %s%s: the first reference that triggers the resolution of an alias rule loses its suppression and the matched text shows up in the value" % ("" if p_ else "not ", u), witness="Sep-  with  Sep: Colon; Colon: ':';"))
    return inst, out

def r_C17i(root):
    """C17.i / C16.e  every model gets a repository object of its own: each store `<model>._tx_model_repository = V` binds a
       GlobalModelRepository constructed at that point (on every reaching definition of V).  Only `all_models` is shared
       (handed to the constructor); `local_models` — the files visible from one model through its imports — must not be
       shared between top-level loads, else a later load resolves names from files only an earlier load imported."""
    import ast
    from sa import sem
    out = []; inst = 0
    for rel in ("textx/metamodel.py", "textx/scoping/__init__.py", "textx/scoping/providers.py", "textx/scoping/rrel.py", "textx/model.py"):
        t = load(root, rel)
        for n in ast.walk(t):
            if not (isinstance(n, ast.Assign) and len(n.targets) == 1 and isinstance(n.targets[0], ast.Attribute) and n.targets[0].attr == "_tx_model_repository"): continue
            base = n.targets[0].value
            if isinstance(base, ast.Name) and base.id == "self": continue           # the metamodel's own (global) repository
            fn = enclosing_func(n)
            if fn is None: continue
            fi = sem.info(fn); inst += 1
            def fresh(e, at, depth=0):
                if isinstance(e, ast.Call) and callee_name(e) == "GlobalModelRepository": return True
                if isinstance(e, ast.Call) and isinstance(e.func, ast.Attribute) and isinstance(e.func.value, ast.Name) and e.func.value.id == "GlobalModelRepository":
                    # an alternative constructor of the repository class: every return of it is a new instance (cls(...) / GlobalModelRepository(...))
                    fac = [f_ for c_ in ast.walk(load(root, "textx/scoping/__init__.py")) if isinstance(c_, ast.ClassDef) and c_.name == "GlobalModelRepository" for f_ in c_.body if isinstance(f_, ast.FunctionDef) and f_.name == e.func.attr]
                    if len(fac) == 1:
                        rets = [r_ for r_ in own_nodes(fac[0]) if isinstance(r_, ast.Return) and r_.value is not None]
                        ff = sem.info(fac[0])
                        def newinst(v, at2, d2=0):
                            if isinstance(v, ast.Call) and isinstance(v.func, ast.Name) and v.func.id in ("cls", "GlobalModelRepository"): return True
                            if isinstance(v, ast.Name) and d2 < 3:
                                nd2 = ff.node_of(at2); ds2 = ff.rd.defs_of(nd2, v.id) if nd2 is not None else []
                                return bool(ds2) and all(ff.cfg.nodes[d_].kind == "stmt" and isinstance(ff.cfg.nodes[d_].ast, ast.Assign) and newinst(ff.cfg.nodes[d_].ast.value, ff.cfg.nodes[d_].ast, d2 + 1) for d_ in ds2)
                            return False
                        if rets and all(newinst(r_.value, r_) for r_ in rets): return True
                if isinstance(e, ast.Name) and depth < 4:
                    nd = fi.node_of(at); ds = fi.rd.defs_of(nd, e.id) if nd is not None else []
                    if not ds: return False
                    for d in ds:
                        dn = fi.cfg.nodes[d]
                        if not (dn.kind == "stmt" and isinstance(dn.ast, ast.Assign) and fresh(dn.ast.value, dn.ast, depth + 1)): return False
                    return True
                return False
            ok = fresh(n.value, n)
            q = qualname(n)
            for pr in ("C17", "C16"): ob(pr, "C17.i", rel, q, " ".join(ast.unparse(n).split())[:100], ok)
            if not ok:
                for pr in ("C17", "C16"):
                    out.append(Finding(pr, "C17.i", rel, q, " ".join(ast.unparse(n).split())[:100], "a model is given an existing repository object (%s) instead of one of its own: the set of files visible from a model (local_models) is then shared with whoever owns that object and grows with every load" % ast.unparse(n.value)[:60], witness="global_repository=True: load a file that imports lib, then a file that uses lib's names without importing it"))
    if inst < 2: raise AnalysisError("model repository stores: only %d found (GlobalModelRepository.pre_ref_resolution_callback and ImportURI.load_models expected at least)" % inst)
    return inst, out

def r_C17jkl(root):
    """C17.j  visibility: name lookup across files goes through local_models (the files a model imports) — `all_models`
              (everything the process / repository has loaded) is read only by repository management: outside
              textx/scoping/__init__.py and textx/metamodel.py it is used only to *share* the store when a repository is
              constructed (argument of GlobalModelRepository(...)), never iterated or searched.
       C17.k  every file matched by an import pattern ends up in the import's list of loaded models: in
              load_models_using_filepattern the append to the result list depends on no condition inside the loop.
       C18.h  entries leave a repository only through ModelRepository.remove_model (which finds the entry by scanning for
              the model, so models stored under synthetic keys are found): no other function deletes from
              filename_to_model."""
    import ast
    from sa import sem
    out = []; inst = 0
    S = "textx/scoping/__init__.py"
    for rel in ("textx/scoping/rrel.py", "textx/scoping/providers.py", "textx/scoping/tools.py", "textx/model.py"):
        t = load(root, rel)
        for n in ast.walk(t):
            if isinstance(n, ast.Attribute) and n.attr == "all_models" and isinstance(n.ctx, ast.Load):
                inst += 1
                par = getattr(n, "_parent", None)
                def _ctor_arg(x):
                    p_ = getattr(x, "_parent", None)
                    return isinstance(p_, ast.Call) and callee_name(p_) == "GlobalModelRepository" and any(a is x for a in p_.args)
                ok = _ctor_arg(n)
                if not ok:
                    # a local alias (possibly chosen by a conditional expression) that is only handed to the constructor / tested for None
                    st_ = stmt_of(n); f_ = enclosing_func(n)
                    if isinstance(st_, ast.Assign) and len(st_.targets) == 1 and isinstance(st_.targets[0], ast.Name) and f_ is not None and (st_.value is n or (isinstance(st_.value, ast.IfExp) and (st_.value.body is n or st_.value.orelse is n))):
                        v_ = st_.targets[0].id
                        uses_ = [x for x in own_nodes(f_) if isinstance(x, ast.Name) and x.id == v_ and isinstance(x.ctx, ast.Load)]
                        ok = bool(uses_) and all(_ctor_arg(x) or (isinstance(getattr(x, "_parent", None), ast.Compare) and isinstance(x._parent.ops[0], (ast.Is, ast.IsNot))) for x in uses_)
                ob("C17", "C17.j", rel, qualname(n), " ".join(ast.unparse(stmt_of(n)).split())[:90], ok)
                if not ok: out.append(Finding("C17", "C17.j", rel, qualname(n), " ".join(ast.unparse(stmt_of(n)).split())[:100], "names are looked up in all_models (every model of the repository) instead of the models this model imports (local_models): a reference binds to an element of a file that the referencing file does not import", witness="a imports b imports c; a name defined only in c referenced from a"))
    t = load(root, S)
    fp = find(t, "GlobalModelRepository.load_models_using_filepattern"); fi = sem.info(fp); inst += 1
    loop = next((n for n in own_nodes(fp) if isinstance(n, ast.For) and "filenames" in ast.unparse(n.iter)), None)
    if loop is None: raise AnalysisError("load_models_using_filepattern: loop over the matched files not found")
    apps = [c for c in calls(loop) if callee_name(c) == "append"]
    if not apps: raise AnalysisError("load_models_using_filepattern: result list append not found")
    conds = [(g, pol) for c in apps for g, pol in fi.guards(c) if any(a is loop for a in ancestors(g))]
    ob("C17", "C17.k", S, "GlobalModelRepository.load_models_using_filepattern", "every matched file is appended to the result", not conds)
    if conds: out.append(Finding("C17", "C17.k", S, "GlobalModelRepository.load_models_using_filepattern", "append under %s%s" % ("" if conds[0][1] else "not ", " ".join(ast.unparse(conds[0][0]).split())[:70]), "a matched file is left out of the list of models loaded by this import under a condition: the import statement's _tx_loaded_models misses it and names behind the import are not found", witness="the same file imported twice, plainly and under a name (importAs)"))
    for n in ast.walk(t):
        tgt = None
        if isinstance(n, ast.Delete):
            tgt = next((x for x in n.targets if isinstance(x, ast.Subscript) and "filename_to_model" in ast.unparse(x.value)), None)
        elif isinstance(n, ast.Call) and isinstance(n.func, ast.Attribute) and n.func.attr in ("pop", "popitem", "clear") and "filename_to_model" in ast.unparse(n.func.value): tgt = n
        if tgt is None: continue
        inst += 1
        q = qualname(n); ok = q == "ModelRepository.remove_model"
        for pr in ("C18", "C15"): ob(pr, "C18.h", S, q, " ".join(ast.unparse(n).split())[:80], ok)
        if not ok:
            for pr in ("C18", "C15"): out.append(Finding(pr, "C18.h", S, q, " ".join(ast.unparse(n).split())[:90], "repository entries are deleted outside ModelRepository.remove_model (which finds an entry by scanning for the model): a key recomputed from the model misses models stored under synthetic keys (string models: anonymous<i>), which then stay cached after a failed load", witness="global repository, model_from_str without file name, unknown reference"))
    return inst, out

def r_C18i(root):
    """C18.i  ModelRepository.remove_model decided by evaluation (sa/pyeval.py) on a repository {f1: m1, f2: m2, anonymous0: m3}:
       removing any one of the three models removes exactly its entry (whatever its position and key), removing a model
       that is not stored changes nothing."""
    import ast
    from sa import pyeval
    S = "textx/scoping/__init__.py"; out = []; inst = 0
    fn = find_i(root, S, "ModelRepository.remove_model"); p0 = fn.args.args[1].arg
    models = {"/f1": {".name": "m1", "._tx_filename": "/f1"}, "/f2": {".name": "m2", "._tx_filename": "/f2"}, "anonymous0": {".name": "m3", "._tx_filename": None}, "/f5": {".name": "m5", "._tx_filename": "/g/grammar.tx"}}
    stranger = {".name": "m4", "._tx_filename": "f4"}
    bad = None
    for victim_key in ("/f1", "/f2", "anonymous0", "/f5", None):
        store = dict(models); victim = models[victim_key] if victim_key else stranger
        fns_ = {k_: v_ for k_, v_ in helper_functions(root, S, "ModelRepository.remove_model").items() if k_ != "remove_model"}
        env = {"__functions__": fns_, "abspath": pyeval.PyFn(lambda p_: p_ if str(p_).startswith("/") else "/cwd/" + str(p_)), "self.filename_to_model": store, "self": {".filename_to_model": store}, p0: victim}
        try: pyeval.run_block(fn.body, env)
        except pyeval.Unsupported as e: raise AnalysisError("ModelRepository.remove_model: outside the evaluated subset: %s" % e)
        except pyeval.Raised as e: bad = bad or (victim_key, "raises " + e.cls); continue
        want = sorted(k for k in models if k != victim_key)
        inst += 1
        if sorted(store) != want and bad is None: bad = (victim_key, "leaves %s, expected %s" % (sorted(store), want))
    for pr in ("C18", "C15", "C13", "C17", "C16", "C09", "C28"): ob(pr, "C18.i", S, "ModelRepository.remove_model", "remove_model evaluated on a four-entry repository (one string-loaded model, one whose _tx_filename does not name its entry) for each entry and for a stranger", bad is None)
    if bad:
        for pr in ("C18", "C15", "C13", "C17", "C16", "C09", "C28"): out.append(Finding(pr, "C18.i", S, "ModelRepository.remove_model", "removing the model stored under %r" % (bad[0],), "remove_model %s: a model of a failed load stays cached (and is reused as 'already constructed' by the next load), or another model is evicted" % bad[1], witness="global repository with an earlier cached model; a load importing lib fails after lib was parsed; the next load imports lib again"))
    return max(inst, 1), out
